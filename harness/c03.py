"""C03 – stream reassembly is independent of how the byte stream is chunked.  DESIGN.md §6 C03.

proof:  Props/C03.lean (reader_chunk_independent, reader_residual_buffer, … – all chunk lists, no bounds)
tie:    model `feedAll` (driver `codec.feed`) vs the REAL `socket_read_task` (`codec_common.run_reader`)
        on the same reads: streams of 1–4 valid frames with / without marker-free junk, every 1-cut
        partition, the 1-byte partition, random multi-cut partitions (thorough: every 2-cut partition of
        small 3-frame streams); plus streams whose junk DOES contain a marker (tie only).
oracle: implementation only – for every chunking the deliveries equal those of the single read of the
        same stream, equal the frames put in (messages compared with the independent `ref_parse`), the
        residual buffer is a proper marker prefix that the last junk block ends with.
size:   the fake socket honours the `n` of `read(n)` (a burst longer than n is handed out in n-byte slices, the
        slices the task really got are what the model is fed): frames whose total length is 4096±1, bodies of
        9999/10000/10001 and 65536±1 bytes, streams of k×4096(±1) bytes of small frames; bursts that make a read
        return exactly n bytes first / last / in the middle, cuts at multiples of n ±1.
history: harness/c03_hist.py – one connection object, 2–4 connections in a row (acceptor via _handle_accept /
        initiator via connect()), each ended by Logout handshake / EOF / watchdog / application disconnect with
        trailing bytes of a further frame; real session layer and journal; every connection must hand over exactly
        the frames sent on it whatever the chunking of this and earlier connections.
"""
from __future__ import annotations

import glob
import json
import os
import random

from . import c03_hist as H
from . import c03_obj as O
from . import codec_common as K
from . import common as C

PROP = "C03"
PROPS_MODULES = ["AsyncFix.Props.C03", "AsyncFix.Props.C03Full"]
ASSUMPTIONS = [
    "the connection stays connected while the reads are processed (the state test at the top of the inner loop is outside the model)",
    "a read returns a non-empty byte string (an empty read is EOF for the real task; the model proves empty chunks harmless)",
    "the read size (4096) is not a parameter of the model: the theorems hold for every chunk list, so also for every list of "
    "chunks of at most n bytes; that the task decodes after EVERY read whatever its length is tied by the correspondence "
    "(fake socket that honours n, bursts that make reads return exactly n bytes) and judged by the oracle",
    "processing faults: the model with a processing step that may raise is ReaderProc.readLoopP (theorems in Props/C10: "
    "readLoopP_resume …); C03 ties it to the real task for reads that are not frame aligned and judges, implementation only, that "
    "every frame is still handed over exactly once provided a later read arrives (what a fault leaves in the buffer is drained by "
    "the NEXT read – see the report: on the current tree frames behind a faulty frame in the last read of a connection are not "
    "handed over)",
    "several connections on one object: the model of ONE connection is `feedAll` from the EMPTY buffer over the reads of that "
    "connection; a connection cut off before its stream is complete is covered by theorem reader_truncated_stream (exactly the "
    "frames that arrived completely are handed over, for every chunking); that the loop stops at the frame whose processing "
    "disconnects (Logout) and that disconnect() empties the buffer for every way a connection can end and for both roles is "
    "covered by correspondence + oracle only (harness/c03_hist.py), not by a theorem",
    "every valid frame decodes on its own (hypothesis `∃ m, decode bs tbl f = .msg m …` of the theorems; discharged by the "
    "C10/C01 no-raise + round-trip theorems, composed at integration) – sampled here by the oracle on every generated frame",
]
MODELLED_NOT_VERIFIED = [
    "C03: the inner loop of socket_read_task and Codec.decode are hand-modelled (Model/Codec/Reader.lean, Decode.lean) and "
    "compared with the real reader task on every chunking this check generates (buffer, flag and every delivery)",
]

MARKER = b"8=FIX."
PARTIALS = [b"8", b"8=", b"8=F", b"8=FI", b"8=FIX"]
JUNK_PIECES = PARTIALS + [b"\x01", b"10=", b"\x0110=123\x01", b"9=12\x01", b"FIX.4.4", b"=", b"35=0\x01", b"8=FIX4", b"\x0110=",
                          b"xyz", b" ", b"\x00", b"\xff", b"8=8=", b"88=FIX"]
CORPUS_GLOB = os.path.join(C.VERIF, "corpus", "codec", "c03_*.json")


# ------------------------------------------------------------------ the socket: honours the n of read(n)
class BurstReader(K._ChunkReader):
    """what arrived is a list of bursts; read(n) returns at most n bytes of the oldest burst; silent afterwards"""

    def __init__(self, chunks):
        super().__init__(chunks)
        self.seen = []

    async def read(self, n):
        import asyncio

        if not self.chunks:
            raise asyncio.CancelledError()
        c = self.chunks[0]
        if len(c) <= n:
            self.chunks.pop(0)
        else:
            self.chunks[0] = c[n:]
            c = c[:n]
        self.seen.append(c)
        return c


def run_bursts(bursts):
    """the REAL socket_read_task over a socket on which `bursts` arrive; returns (reply, the reads the task got)"""
    made = []

    def factory(chunks):
        r = BurstReader(chunks)
        made.append(r)
        return r
    orig = K._ChunkReader
    K._ChunkReader = factory
    try:
        reply = K.run_reader(bursts)
    finally:
        K._ChunkReader = orig
    return reply, made[0].seen


# ------------------------------------------------------------------ streams
def interleave(gs, frames):
    out = b""
    for i, f in enumerate(frames):
        out += gs[i] + f
    return out + gs[len(frames)]


def gen_junk(rng, end=None, allow_empty=True):
    """marker-free junk; `end`: partial marker it must end with"""
    for _ in range(100):
        if allow_empty and end is None and rng.random() < 0.25:
            return b""
        g = b"".join(rng.choice(JUNK_PIECES) if rng.random() < 0.7 else bytes([rng.randrange(256)])
                     for _ in range(rng.randint(1, 6)))
        if end is not None:
            g += end
        if MARKER not in g:
            return g
    return end or b"x"


SESSION_FRAMES = [
    ["35=A", "49=S", "56=T", "34=1", "52=20240101-00:00:00.000", "98=0", "108=30"],
    ["35=0", "49=S", "56=T", "34=2", "52=20240101-00:00:00.000"],
    ["35=1", "49=S", "56=T", "34=3", "52=20240101-00:00:00.000", "112=8=FIX.4.4"],
    ["35=5", "49=S", "56=T", "34=4", "52=20240101-00:00:00.000", "58=10=000"],
    ["35=2", "49=S", "56=T", "34=5", "7=1", "16=0"],
    ["35=4", "49=S", "56=T", "34=6", "43=Y", "123=Y", "36=9"],
    ["35=D", "49=S", "56=T", "34=7", "11=9=12", "55=8=FIX.", "54=1", "38=10=", "58=8=FIX.4.4|9=5|35=0|10=000|"],
    ["35=8", "49=S", "56=T", "34=8", "453=2", "448=a", "447=D", "448=b", "447=D", "55=X"],
]
SMALL_FRAMES = [["35=0"], ["35=0", "34=1"], ["35=1", "112=8=FIX."], ["35=D", "58=10="], ["35=A", "98=0"], ["35=5"]]


def gen_frame(rng, small=False):
    r = rng.random()
    if small:
        return K.ref_frame(rng.choice(SMALL_FRAMES))
    if r < 0.35:
        return K.ref_frame(rng.choice(SESSION_FRAMES))
    return K.gen_frames(rng, 1, with_groups=r < 0.8)[0]


def gen_stream(rng, k, junk, small=False):
    """junk: 'none' | 'free' (marker-free, the property applies) | 'marker' (tie only)"""
    frames = [gen_frame(rng, small) for _ in range(k)]
    if junk == "none":
        gs = [b""] * (k + 1)
    else:
        gs = []
        for i in range(k + 1):
            end = rng.choice(PARTIALS) if rng.random() < 0.5 else None
            g = gen_junk(rng, end)
            if small:
                g = g[-6:] if MARKER not in g[-6:] else b""
            gs.append(g)
        if junk == "marker":
            i = rng.randrange(k + 1)
            f = gen_frame(rng, small)
            bad = rng.choice([
                MARKER, b"8=FIX.4.4\x01", b"8=FIX.4.4\x019=5\x01", f[: rng.randint(7, len(f) - 1)],
                f[:-4] + bytes([48 + (f[-4] - 47) % 10]) + f[-3:],      # wrong checksum
                b"8=FIX.4.4\x0110=000\x01", b"8=FIX.4.2\x019=5\x0135=0\x0110=000\x01", b"8=FIX.4.4\x019=x\x0135=0\x0110=1\x01",
            ])
            gs[i] = gs[i] + bad + (gen_junk(rng) if rng.random() < 0.5 else b"")
    return {"frames": frames, "gs": gs, "prop": junk != "marker", "kind": f"{k}f/{junk}" + ("/small" if small else "")}


READ = 4096


def sized_frame(seq, total=None, body=None, mtype="D"):
    """a valid frame with a long Text whose total length / BodyLength is exactly the given number"""
    fixed = [f"35={mtype}", "49=S", "56=T", f"34={seq}", "11=ord"]
    blen = lambda f: int(f.split(b"\x01")[1][2:])     # noqa: E731
    for pad in ("", "a", "ab"):
        lo = K.ref_frame(fixed + ["1=" + pad, "58="])
        if body is not None:
            if body < blen(lo):
                continue
            f = K.ref_frame(fixed + ["1=" + pad, "58=" + "x" * (body - blen(lo))])
            assert blen(f) == body
            return f
        for n in range(max(0, total - len(lo) - 8), total - len(lo) + 1):
            f = K.ref_frame(fixed + ["1=" + pad, "58=" + "x" * n])
            if len(f) == total:
                return f
    raise RuntimeError("no frame of that size")


def gen_big_stream(rng, kind):
    """kinds: frame4096[-1|+1], body9999 / body10000 / body10001, body65535 / body65536 / body65537, kx4096[-1|+1]"""
    small = lambda i: K.ref_frame(rng.choice(SESSION_FRAMES[:6]))     # noqa: E731
    if kind.startswith("frame"):
        d = int(kind[5:])
        frames = [sized_frame(1, total=d)]
        if rng.random() < 0.5:
            frames = [small(0)] + frames
        if rng.random() < 0.5:
            frames.append(small(2))
    elif kind.startswith("body"):
        frames = [small(0), sized_frame(2, body=int(kind[4:])), small(3)]
    else:
        k, d = kind.split("x")
        g0 = gen_junk(rng, rng.choice(PARTIALS), allow_empty=False) if rng.random() < 0.4 else b""
        target = int(k) * READ + int(d[4:] or 0) - len(g0)
        frames, n = [], 0
        while n < target - 600:
            f = K.gen_frames(rng, 1, with_groups=True)[0] if rng.random() < 0.5 else small(0)
            if n + len(f) > target - 200:
                break
            frames.append(f)
            n += len(f)
        frames.append(sized_frame(99, total=target - n))
        return {"frames": frames, "gs": [g0] + [b""] * len(frames), "prop": True, "kind": "size/" + kind}
    gs = [b""] * (len(frames) + 1)
    if rng.random() < 0.4:
        gs[rng.randrange(len(gs))] = gen_junk(rng, rng.choice(PARTIALS), allow_empty=False)
    return {"frames": frames, "gs": gs, "prop": True, "kind": "size/" + kind}


def big_cuts(rng, st):
    """burst boundaries for a long stream: the socket slices every burst into reads of at most n bytes"""
    n = len(interleave(st["gs"], st["frames"]))
    out = [(), ]                                                      # one burst: reads n, n, …, rest
    if n > READ:
        out.append((n - READ,))                                       # … the LAST read returns exactly n bytes
        out.append((n - READ - rng.randint(1, 300), n - READ))        # a short read, a full one, silence
    if n >= READ:
        out.append((READ,))                                           # the FIRST read returns exactly n bytes
    r = rng.randint(1, min(n - 1, READ - 1))
    out.append((r,))                                                  # a short first read shifts every slice
    for d in (-1, 1):
        cs = tuple(c for c in (k * READ + d for k in range(1, n // READ + 2)) if 0 < c < n)
        if cs:
            out.append(cs)                                            # bursts of n±1 bytes
    pos, ends = 0, []
    for j, f in enumerate(st["frames"]):
        pos += len(st["gs"][j]) + len(f)
        ends.append(pos)
    out.append(tuple(e for e in ends if e < n))                       # a burst per frame
    for _ in range(2):
        m = rng.choice([1, 2, 4])
        out.append(tuple(sorted(set(rng.randrange(1, n) for _ in range(m)))))
    return [c for c in dict.fromkeys(out)]


SIZE_KINDS_Q = ["frame4095", "frame4096", "frame4097", "body9999", "body10000", "body10001", "1x4096", "2x4096", "2x4096+1", "3x4096-1"]
SIZE_KINDS_T = SIZE_KINDS_Q + ["body65535", "body65536", "body65537", "1x4096+1", "1x4096-1", "3x4096", "5x4096"]


def load_corpus():
    out = []
    for path in sorted(glob.glob(CORPUS_GLOB)):
        with open(path) as f:
            for e in json.load(f):
                out.append({
                    "frames": [bytes.fromhex(x) for x in e["frames"]], "gs": [bytes.fromhex(x) for x in e["gs"]],
                    "prop": e.get("prop", True), "kind": "corpus", "cuts": [tuple(c) for c in e.get("cuts", [])],
                    "note": e.get("note", ""),
                })
    return out


def build_jobs(ctx, rng, harder=False):
    """returns (streams, jobs) – a job is (stream index, cuts tuple)"""
    streams, jobs = [], []
    for s in load_corpus():
        streams.append(s)
        i = len(streams) - 1
        n = len(interleave(s["gs"], s["frames"]))
        jobs += [(i, tuple(c)) for c in s["cuts"]]
        jobs += [(i, (c,)) for c in range(1, n)]
        jobs.append((i, tuple(range(1, n))))
    reps = ctx.n(1, 3) * (2 if harder else 1)
    for _ in range(reps):
        for k in (1, 2, 3, 4):
            for junk in ("none", "free", "free", "marker"):
                streams.append(gen_stream(rng, k, junk))
    for i in range(len(streams)):
        if streams[i]["kind"] == "corpus":
            continue
        n = len(interleave(streams[i]["gs"], streams[i]["frames"]))
        jobs += [(i, (c,)) for c in range(1, n)]                     # every 1-cut partition
        jobs.append((i, tuple(range(1, n))))                          # 1-byte reads
    n_rand = ctx.n(300, 5000) * (3 if harder else 1)
    gen_idx = [i for i in range(len(streams)) if streams[i]["kind"] != "corpus"]
    for _ in range(n_rand):
        i = rng.choice(gen_idx)
        n = len(interleave(streams[i]["gs"], streams[i]["frames"]))
        m = rng.choice([2, 2, 3, 4, 6, 10, 25])
        cuts = sorted(set(rng.randrange(1, n) for _ in range(min(m, n - 1))))
        if rng.random() < 0.3:
            # a burst of 1-byte reads around a frame start
            st = streams[i]
            j = rng.randrange(len(st["frames"]))
            pos = len(interleave(st["gs"][: j + 1] + [b""], st["frames"][:j])) if j else len(st["gs"][0])
            cuts = sorted(set(cuts) | {c for c in range(max(1, pos - 3), min(n, pos + 9))})
        jobs.append((i, tuple(cuts)))
    # SIZE: long frames / long streams through a socket that hands out at most n bytes per read
    kinds = list(SIZE_KINDS_T if ctx.tier == "thorough" else SIZE_KINDS_Q)
    if ctx.tier != "thorough":
        kinds.append(rng.choice(["body65535", "body65536", "body65537"]))
    for kind in kinds:
        st = gen_big_stream(rng, kind)
        streams.append(st)
        i = len(streams) - 1
        cs = big_cuts(rng, st)
        if kind.startswith("body65") and ctx.tier != "thorough":
            cs = cs[:4]
        jobs += [(i, c) for c in cs]
    if ctx.tier == "thorough" or harder:
        # every 2-cut partition of small 3-frame streams
        for junk in ("none", "free", "free", "free", "marker", "free") if ctx.tier == "thorough" else ("free",):
            s = gen_stream(rng, 3, junk, small=True)
            streams.append(s)
            i = len(streams) - 1
            n = len(interleave(s["gs"], s["frames"]))
            jobs += [(i, (a, b)) for a in range(1, n) for b in range(a + 1, n)]
            jobs += [(i, (c,)) for c in range(1, n)]
    return streams, jobs


# ------------------------------------------------------------------ implementation-only clauses
def parse_reply(r):
    """'buf <hex> <flag> D mt cont raw …' -> (buf bytes, flag, [(mt, cont, raw bytes)])"""
    t = r.split(" ")
    ds = []
    i = 3
    while i < len(t):
        assert t[i] == "D", r[:200]
        ds.append((t[i + 1], t[i + 2], C.unhx(t[i + 3])))
        i += 4
    return C.unhx(t[1]), t[2], ds


def flat_fields(cont_tok):
    """fields 'tag=value' in wire order of a container token (`I,k,L,tag,val,E,tag,G,tag,n,cont…`)"""
    toks = cont_tok.split(",")
    pos = 0
    out = []

    def cont():
        nonlocal pos
        assert toks[pos] == "I"
        k = int(toks[pos + 1])
        pos += 2
        for _ in range(k):
            kind = toks[pos]
            if kind == "L":
                out.append((C.uncp(toks[pos + 1]), C.uncp(toks[pos + 2])))
                pos += 3
            elif kind == "E":
                out.append((C.uncp(toks[pos + 1]), "<RepeatingTagError>"))
                pos += 2
            else:
                n = int(toks[pos + 2])
                out.append((C.uncp(toks[pos + 1]), str(n)))
                pos += 3
                for _ in range(n):
                    cont()
    cont()
    return out


def clauses(st, reply, single):
    """property clauses on ONE implementation run (reply) of a stream whose junk is marker-free;
    `single` = the implementation's reply for the single read of the same stream.  Yields (signature, what, expected, observed)."""
    buf, flag, ds = parse_reply(reply)
    _, _, ds1 = parse_reply(single)
    frames = st["frames"]
    if flag != "-":
        yield ("C03-reader-" + flag.split(":")[0], "the reader task raised / spun on a valid stream", "-", flag)
    raws = [d[2] for d in ds]
    if raws != frames:
        if len(raws) < len(frames) and all(r in frames for r in raws):
            yield ("C03-frame-lost", "a valid frame was not handed over", [f.hex() for f in frames], [r.hex() for r in raws])
        else:
            yield ("C03-deliveries-differ-from-frames", "handed-over raw frames are not the frames sent",
                   [f.hex() for f in frames], [r.hex() for r in raws])
    if ds != ds1:
        yield ("C03-chunking-changes-delivery", "deliveries differ from those of the single read of the same stream",
               [d[2].hex() for d in ds1], [d[2].hex() for d in ds])
    k = len(buf)
    if not (k < 6 and buf == MARKER[:k] and st["gs"][-1].endswith(buf)):
        yield ("C03-residual-buffer", "after all reads the buffer is not a proper marker prefix the last junk block ends with",
               "prefix of 8=FIX. / suffix of last junk", buf.hex())


def single_clauses(st, single):
    """messages of the single read against the independent reference parse of each frame"""
    _, _, ds = parse_reply(single)
    for f, d in zip(st["frames"], ds):
        ref, why = K.ref_parse(f)
        if ref is None:
            raise RuntimeError(f"generator produced a frame the reference parser rejects: {why} {f!r}")
        got = flat_fields(d[1])
        if d[2] != f:
            continue
        ck = ("10", f[-4:-1].decode("latin-1"))
        if got != ref + [ck] or C.uncp(d[0]) != dict(ref)["35"]:
            yield ("C03-message-differs-from-reference", "the handed-over message is not the reference parse of its frame",
                   ref + [ck], got)


# ------------------------------------------------------------------ parallel runner
_STREAMS = None
_POOL = None


def get_pool():
    """one pool of worker processes for the whole check (forking is the expensive part on a loaded machine)"""
    global _POOL
    if _POOL is None:
        import atexit
        import multiprocessing as mp

        _POOL = mp.get_context("fork").Pool(max(1, min(12, os.cpu_count() or 1)))
        atexit.register(_POOL.terminate)
    return _POOL


def _work(args):
    """one batch of jobs: driver + real reader + clauses.  Returns (disagreements, failures, stats)."""
    global _STREAMS
    _STREAMS, jobs, with_model = args
    singles = {}
    dis, fails = [], []
    stats = {"in_marker": 0, "in_bodylength": 0, "in_checksum": 0, "in_junk": 0, "nontrivial": 0,
             "some_read_exactly_4096": 0, "last_read_exactly_4096": 0, "first_read_exactly_4096": 0, "reads_ge_4096_bytes_total": 0}
    lines, impl = [], []
    for (i, cuts) in jobs:
        st = _STREAMS[i]
        il, seen = run_bursts(K.split_at(st["bytes"], cuts))
        impl.append(il)
        lines.append("codec.feed " + " ".join(C.cp(x) for x in seen))
        if any(len(x) == READ for x in seen):
            stats["some_read_exactly_4096"] += 1
            stats["last_read_exactly_4096"] += len(seen[-1]) == READ
            stats["first_read_exactly_4096"] += len(seen[0]) == READ
        stats["reads_ge_4096_bytes_total"] += len(st["bytes"]) >= READ
    model = C.Driver().batch(lines) if with_model else [None] * len(jobs)
    for (i, cuts), ml, il in zip(jobs, model, impl):
        st = _STREAMS[i]
        if with_model and il != ml:
            dis.append({"input": job_input(st, cuts), "model": ml[:600], "impl": il[:600]})
        where = classify_cuts(st, cuts)
        for k2 in where:
            stats[k2] += 1
        if st["prop"]:
            if i not in singles:
                singles[i] = run_bursts([st["bytes"]])[0]
            for sig, what, exp, obs in clauses(st, il, singles[i]):
                fails.append({"signature": sig, "what": what, "input": job_input(st, cuts), "expected": exp, "observed": obs})
    return dis, fails, stats


def classify_cuts(st, cuts):
    """which framing elements the cut positions fall into (measured distribution)"""
    out = set()
    pos = 0
    spans = []
    for j, f in enumerate(st["frames"]):
        pos += len(st["gs"][j])
        a = f.index(b"\x01") + 1
        b = f.index(b"\x01", a)
        spans.append(("in_marker", pos + 1, pos + 5))
        spans.append(("in_bodylength", pos + a + 1, pos + b))
        spans.append(("in_checksum", pos + len(f) - 6, pos + len(f) - 1))
        spans.append(("nontrivial", pos + 1, pos + len(f) - 1))
        pos += len(f)
    for c in cuts:
        hit = False
        for name, lo, hi in spans:
            if lo <= c <= hi:
                out.add(name)
                hit = hit or name == "nontrivial"
        if not hit:
            out.add("in_junk")
    return out


def job_input(st, cuts):
    return {"frames": [f.hex() for f in st["frames"]], "gs": [g.hex() for g in st["gs"]], "cuts": list(cuts), "prop": st["prop"]}


def run_jobs(streams, jobs, with_model=True):
    for s in streams:
        s["bytes"] = interleave(s["gs"], s["frames"])
    nproc = max(1, min(12, os.cpu_count() or 1))
    small = [j for j in jobs if len(streams[j[0]]["bytes"]) < 3000]
    big = sorted((j for j in jobs if len(streams[j[0]]["bytes"]) >= 3000), key=lambda j: -len(streams[j[0]]["bytes"]))
    size = max(50, min(600, len(small) // (nproc * 4) + 1))
    batches = []
    a = 0
    while a < len(big):                                   # long streams: few jobs per batch (the model is O(n) per read)
        k = max(1, 150000 // len(streams[big[a][0]]["bytes"]))
        batches.append(big[a : a + k])
        a += k
    batches += [small[a : a + size] for a in range(0, len(small), size)]
    batches = [({i: streams[i] for i in {j[0] for j in b}}, b, with_model) for b in batches]
    dis, fails = [], []
    stats = {}
    if nproc == 1 or len(batches) == 1:
        results = [_work(b) for b in batches]
    else:
        results = get_pool().map(_work, batches, chunksize=1)
    for d, f, s in results:
        dis += d
        fails += f
        for k, v in s.items():
            stats[k] = stats.get(k, 0) + v
    return dis, fails, stats


# ------------------------------------------------------------------ history: several connections on one object
_HISTS = None


def build_hists(ctx, rng, harder=False):
    """[{hist, cuts:[cutlists…]}]: every (role, way the first connection ends) at least once, then random"""
    hs = []
    for role in H.ROLES:
        for e1 in H.ENDS:
            hs.append(H.gen_history(rng, role, ends=[e1] + [rng.choice(H.ENDS) for _ in range(3)],
                                    first_tail=rng.choice(["frame-prefix", "frame-head"])))
    for _ in range(ctx.n(12, 150) * (2 if harder else 1)):
        hs.append(H.gen_history(rng))
    return [{"hist": h, "cuts": H.chunkings(rng, h, ctx.n(2, 4))} for h in hs]


def _work_hist(args):
    global _HISTS
    _HISTS, jobs, with_model = args
    canon, dis, fails = {}, [], []
    stats = {}
    runs, lines = [], []
    for (h, ci) in jobs:
        hist, cl = _HISTS[h]["hist"], _HISTS[h]["cuts"][ci]
        res = H.run_with(hist, cl)
        if h not in canon:
            canon[h] = res if ci == 0 else H.run_with(hist, _HISTS[h]["cuts"][0])
        runs.append(res)
        for d, c in zip(hist["days"], cl):
            lines.append("codec.feed " + " ".join(C.cp(x) for x in H.model_chunks(d, c)))
        key = "%s/%s" % (hist["role"], ">".join(d["end"] for d in hist["days"][:-1]) + ">")
        stats[key] = stats.get(key, 0) + 1
        for k2, v in (("runs_with_refused_call_between_reads", any(H.calls_of(c) for c in cl)),
                      ("runs_with_heartbeat_task_probing_between_reads", any("clock+29.5" in a for c in cl for a in sum(H.calls_of(c).values(), []))),
                      ("runs_with_accepted_call_between_reads", any(a in ("send-app", "send-test-req") for c in cl for a in sum(H.calls_of(c).values(), []))),
                      ("runs_with_logon_numbered_too_high", any("too-high" in d.get("tail_kind", "") for d in hist["days"])),
                      ("runs_with_inbound_journal_fault", any(d.get("jfault") for d in hist["days"]))):
            stats[k2] = stats.get(k2, 0) + bool(v)
    model = C.Driver().batch(lines) if with_model and lines else [None] * len(lines)
    li = 0
    for (h, ci), res in zip(jobs, runs):
        hist, cl = _HISTS[h]["hist"], _HISTS[h]["cuts"][ci]
        inp = H.hist_input(hist, cl)
        for k, r in enumerate(res):
            ml = model[li]
            li += 1
            if ml is None:
                continue
            mt = ml.split(" ")
            mdel = " ".join(mt[3:])
            idel = H.deliveries_tok(r["delivered"]).strip()
            if mt[2] != "-" or mdel != idel:
                dis.append({"input": inp, "model": f"connection {k + 1}: " + ml[:500], "impl": f"connection {k + 1}: {r['state']} {r['flag']} " + idel[:500]})
                break
        for sig, what, exp, obs in H.clauses(hist, res, canon[h]):
            fails.append({"signature": sig, "what": what, "input": inp, "expected": exp, "observed": obs})
    return dis, fails, stats


def run_hist_jobs(hists, jobs, with_model=True):
    nproc = max(1, min(12, os.cpu_count() or 1))
    size = max(4, min(40, len(jobs) // (nproc * 2) + 1))
    # consecutive jobs are the chunkings of one history (its canonical run is computed once per batch)
    batches = [jobs[a : a + size] for a in range(0, len(jobs), size)]
    batches = [({h: hists[h] for h in {j[0] for j in b}}, b, with_model) for b in batches]
    if nproc == 1 or len(batches) <= 1:
        results = [_work_hist(b) for b in batches]
    else:
        results = get_pool().map(_work_hist, batches, chunksize=1)
    dis, fails, stats = [], [], {}
    for d, f, s in results:
        dis += d
        fails += f
        for k, v in s.items():
            stats[k] = stats.get(k, 0) + v
    return dis, fails, stats


# ------------------------------------------------------------------ one object: processing faults, abandoned transports
def gen_frame_ok(rng, small=False):
    """a frame whose processing does not raise in the one-object runner (no tag 9999)"""
    while True:
        f = gen_frame(rng, small)
        if b"\x019999=" not in f:
            return f


def build_obj_cases(ctx, rng, harder=False):
    cases = []
    for _ in range(ctx.n(6, 40) * (2 if harder else 1)):
        seg = O.gen_fault_segment(rng, gen_frame_ok, gen_junk, rng.choice([2, 3, 3, 4]))
        for cuts in O.fault_cuts(rng, seg, ctx.n(6, 30)):
            cases.append([dict(seg, cuts=cuts)])
    for _ in range(ctx.n(120, 1500) * (2 if harder else 1)):
        cases.append(O.gen_history_case(rng, gen_frame_ok, gen_junk, sized_frame))
    return cases


def _work_obj(args):
    cases, with_model = args
    dis, fails, stats = [], [], {"processing_fault_cases": 0, "object_history_cases": 0, "segments_cut_off_mid_frame": 0,
                                 "faulty_frame_not_last_in_its_read": 0}
    runs, lines = [], []
    for case in cases:
        res = O.run_segments([O.bursts_of(s) for s in case])
        runs.append(res)
        for rep, seen in res:
            lines.append("codec.feedp " + " ".join(C.cp(x) for x in seen))
    model = C.Driver().batch(lines) if with_model and lines else [None] * len(lines)
    li = 0
    for case, res in zip(cases, runs):
        inp = O.case_input(case)
        if case[0].get("faults"):
            stats["processing_fault_cases"] += 1
            seen = res[0][1]
            pos, hit = 0, False
            for c in seen:
                j = c.find(b"\x019999=")
                if j >= 0 and c.find(b"8=FIX.", j) >= 0:
                    hit = True
            stats["faulty_frame_not_last_in_its_read"] += hit
        else:
            stats["object_history_cases"] += 1
            for s in case:
                if s.get("upto") is not None and O.complete_frames(s)[1] < s["upto"]:
                    stats["segments_cut_off_mid_frame"] += 1
        bad = False
        for k, (rep, seen) in enumerate(res):
            ml = model[li]
            li += 1
            if ml is not None and ml != rep and not bad:
                bad = True
                dis.append({"input": inp, "model": f"segment {k + 1}: " + ml[:500], "impl": f"segment {k + 1}: " + rep[:500]})
        fresh = None
        if len(case) > 1:
            fresh = [O.run_segments([O.bursts_of(s)])[0][0] for s in case]
        for sig, what, exp, obs in O.clauses(case, [r[0] for r in res], fresh):
            fails.append({"signature": sig, "what": what, "input": inp, "expected": exp, "observed": obs})
    return dis, fails, stats


def run_obj_jobs(cases, with_model=True):
    nproc = max(1, min(12, os.cpu_count() or 1))
    size = max(5, min(60, len(cases) // (nproc * 2) + 1))
    batches = [(cases[a : a + size], with_model) for a in range(0, len(cases), size)]
    if nproc == 1 or len(batches) <= 1:
        results = [_work_obj(b) for b in batches]
    else:
        results = get_pool().map(_work_obj, batches, chunksize=1)
    dis, fails, stats = [], [], {}
    for d, f, s in results:
        dis += d
        fails += f
        for k, v in s.items():
            stats[k] = stats.get(k, 0) + v
    return dis, fails, stats


def hist_jobs(hists):
    return [(h, ci) for h in range(len(hists)) for ci in range(len(hists[h]["cuts"]))]


_STASH = {"fails": [], "streams": [], "jobs": 0}


def correspondence(ctx):
    rng = random.Random(f"C03/corr/{ctx.seed}")
    streams, jobs = build_jobs(ctx, rng)
    dis, fails, stats = run_jobs(streams, jobs, with_model=True)
    # single-read messages against the reference parser (implementation only; reported by the oracle)
    for st in streams:
        if st["prop"]:
            single = run_bursts([st["bytes"]])[0]
            for sig, what, exp, obs in single_clauses(st, single):
                fails.append({"signature": sig, "what": what, "input": job_input(st, ()), "expected": exp, "observed": obs})
    hists = build_hists(ctx, random.Random(f"C03/hist/{ctx.seed}"))
    hj = hist_jobs(hists)
    hdis, hfails, hstats = run_hist_jobs(hists, hj, with_model=True)
    dis += hdis
    fails += hfails
    ocases = build_obj_cases(ctx, random.Random(f"C03/obj/{ctx.seed}"))
    odis, ofails, ostats = run_obj_jobs(ocases, with_model=True)
    dis += odis
    fails += ofails
    tails, ndays = {}, {}
    for h in hists:
        ndays[len(h["hist"]["days"])] = ndays.get(len(h["hist"]["days"]), 0) + 1
        for d in h["hist"]["days"]:
            tails[d["tail_kind"]] = tails.get(d["tail_kind"], 0) + 1
    _STASH["fails"], _STASH["streams"], _STASH["jobs"] = fails, streams, len(jobs) + len(hj) + len(ocases)
    kinds = {}
    for s in streams:
        kinds[s["kind"]] = kinds.get(s["kind"], 0) + 1
    ncuts = {}
    for i, cuts in jobs:
        b = "1" if len(cuts) == 1 else "2" if len(cuts) == 2 else "3-25" if len(cuts) <= 25 else "1-byte"
        if streams[i]["kind"].startswith("size/"):
            b = "bursts-sliced-by-read-size"
        ncuts[b] = ncuts.get(b, 0) + 1
    distinct = len({(i, c) for i, c in set(jobs) if "nontrivial" in classify_cuts(streams[i], c)})
    sample = []
    for (i, cuts) in jobs[:: max(1, len(jobs) // 4)][:4]:
        sample.append({"input": job_input(streams[i], cuts), "reply": run_bursts(K.split_at(streams[i]["bytes"], cuts))[0][:300]})
    return {
        "evaluations": len(jobs) + len(hj) + len(ocases),
        "distinct_nontrivial": distinct + len(hj) + len(ocases),
        "rule": "corpus (corpus/codec/c03_*.json: historic D3 offsets, cuts in marker / BodyLength / CheckSum / before the last SOH, "
        "values containing 8=FIX.) + generated streams of 1–4 frames (session + application types, repeating groups, values with "
        "8=FIX. / 10= / 9=), junk none / marker-free (half of the blocks end in 8, 8=, 8=F, 8=FI, 8=FIX) / containing a marker "
        "(tie only); per stream every 1-cut partition and the 1-byte partition; random 2–25-cut partitions (30 % with a burst of "
        "1-byte reads around a frame start); thorough: every 2-cut partition of 6 small 3-frame streams. Compared: residual "
        "buffer, raise/stall flag, every delivered (msg type, container, raw frame). distinct = distinct (stream, cut set) pairs "
        "with at least one cut strictly inside a frame, plus the history runs. SIZE: the fake socket hands out at most the n "
        "of read(n) per read and the model is fed the reads the task really got; frames of total length 4095/4096/4097, bodies of "
        "9999/10000/10001 and 65535/65536/65537 bytes, streams of k×4096(±1) bytes; bursts: all at once, last / first read exactly n, "
        "short read then full read then silence, bursts of n±1, a burst per frame, random. HISTORY (c03_hist.py): one object, 2–4 "
        "connections, roles acceptor (_handle_accept) / initiator (connect()), ends Logout handshake / EOF / watchdog / application "
        "disconnect, trailing bytes none / partial marker / frame head / frame prefix / junk / whole frame, chunkings canonical / one "
        "read / last frame+tail in one read / cut inside the last frame / random with 1-byte reads around the last frame's end; per "
        "connection the deliveries are compared with the model run from the empty buffer up to the terminating Logout; in half of the "
        "random chunkings something else happens while the read task is parked between two reads: a public call that must be "
        "REFUSED (connect() on the live object, send of unencodable text), an ACCEPTED one (send_msg of an application message, "
        "send_test_req), or the connection's OTHER task: the virtual clock the connection module sees moves by 3 s (no probe) or "
        "29.5 s (HeartBtInt-1 passed: the real heartbeat_timer_task sends its TestRequest) and the task gets several iterations; "
        "one chunking per history puts the probing tick exactly at a read boundary inside the last frame of one connection; 35 % "
        "of the last connections start with a Logon numbered too high followed by more frames in the same read; a quarter of the non-Logout connections have the "
        "inbound journal write of one frame fail once (sqlite3.OperationalError) with a fault-free frame in a later read; tails "
        "include prefixes of frames of 150–2500 bytes. ONE OBJECT (c03_obj.py), reader level: (a) processing raises for 1–2 frames "
        "of a stream (tag 9999) cut anywhere – read per frame, one read, 1-byte reads, the faulty frame together with the head of "
        "the next, random – compared with ReaderProc.readLoopP (`codec.feedp`); (b) 2–4 transports in a row on one connection / "
        "Codec object, all but the last cut off (70 % inside their last frame, frames of 150–5000 bytes included), mostly one read "
        "each, compared per transport with the model from the empty buffer and with the same reads on a fresh object",
        "samples": sample,
        "exhaustive": False,
        "distribution": {"streams": kinds, "partitions_by_cut_count": ncuts, "partitions_with_a_cut": stats,
                         "stream_bytes": sorted(len(s["bytes"]) for s in streams),
                         "history": {"runs": len(hj), "histories": len(hists), "connections_per_history": ndays,
                                     "trailing_bytes": tails, "role/ends_of_earlier_connections": hstats},
                         "one_object": dict(ostats, cases=len(ocases))},
        "disagreements": dis,
    }


def oracle(ctx, disagreements, broken):
    """implementation only.  Reports what the clause evaluation found on the runs of the correspondence stage
    (those runs are runs of the real reader task; the clauses never look at the model), then runs a fresh sample;
    searches harder when the proof or the tie is broken (disagreeing inputs and their neighbourhood first)."""
    failures = list(_STASH["fails"])
    n_runs = _STASH["jobs"]
    rng = random.Random(f"C03/oracle/{ctx.seed}")
    extra_streams, extra_jobs = [], []
    hist_first, obj_first = [], []
    if broken:
        for d in disagreements[:200]:
            inp = d["input"]
            if not isinstance(inp, dict):
                continue
            if "segments" in inp:
                if len(obj_first) < 60:
                    obj_first.append(O.case_from_input(inp))
                continue
            if "history" in inp:
                if len(hist_first) < 40:
                    h, cl = H.hist_from_input(inp)
                    for dd in h["days"]:
                        dd["tail_kind"] = "replayed"
                    hist_first.append({"hist": h, "cuts": [H.chunkings(rng, h, 0)[0], cl]})
                continue
            st = {"frames": [bytes.fromhex(x) for x in inp["frames"]], "gs": [bytes.fromhex(x) for x in inp["gs"]],
                  "prop": inp["prop"], "kind": "disagreement"}
            if not st["prop"]:
                continue
            extra_streams.append(st)
            i = len(extra_streams) - 1
            n = len(interleave(st["gs"], st["frames"]))
            extra_jobs.append((i, tuple(inp["cuts"])))
            for c in inp["cuts"][:3]:
                extra_jobs += [(i, (x,)) for x in range(max(1, c - 8), min(n, c + 9))]
    s2, j2 = build_jobs(ctx, rng, harder=bool(broken))
    base = len(extra_streams)
    extra_streams += s2
    extra_jobs += [(i + base, c) for i, c in j2]
    # the fresh sample of an intact run is modest; a broken run gets the full set
    if not broken:
        keep = ctx.n(800, 8000)
        if len(extra_jobs) > keep:
            sized = [j for j in extra_jobs if extra_streams[j[0]]["kind"].startswith("size/")]
            rest = [j for j in extra_jobs if not extra_streams[j[0]]["kind"].startswith("size/")]
            idx = sorted(rng.sample(range(len(rest)), keep))
            extra_jobs = sized + [rest[i] for i in idx]
    _, f2, _ = run_jobs(extra_streams, extra_jobs, with_model=False)
    failures += f2
    for st in extra_streams:
        if st["prop"]:
            for sig, what, exp, obs in single_clauses(st, run_bursts([st["bytes"]])[0]):
                failures.append({"signature": sig, "what": what, "input": job_input(st, ()), "expected": exp, "observed": obs})
    n_runs += len(extra_jobs)
    hists = hist_first + build_hists(ctx, rng, harder=bool(broken))
    if not broken:
        hists = hists[: ctx.n(12, 60)]
    hj = hist_jobs(hists)
    _, f3, _ = run_hist_jobs(hists, hj, with_model=False)
    failures += f3
    n_runs += len(hj)
    ocases = obj_first + build_obj_cases(ctx, rng, harder=bool(broken))
    if not broken:
        ocases = ocases[: ctx.n(60, 600)] + ocases[-ctx.n(60, 600):]
    _, f4, _ = run_obj_jobs(ocases, with_model=False)
    failures += f4
    n_runs += len(ocases)

    # smallest witness first per signature
    def size_key(f):
        inp = f["input"]
        if "history" in inp:
            return (sum(len(x) for d in inp["history"]["days"] for x in d["frames"]), sum(len(d["cuts"]) for d in inp["history"]["days"]))
        if "segments" in inp:
            return (sum(len(x) for d in inp["segments"] for x in d["frames"]), sum(len(d["cuts"]) for d in inp["segments"]))
        return (len("".join(inp["frames"])) + len("".join(inp["gs"])), len(inp["cuts"]))
    failures.sort(key=size_key)
    ctx.oracle_stats = {"reader_runs_judged": n_runs, "fresh_runs": len(extra_jobs), "fresh_history_runs": len(hj), "fresh_one_object_cases": len(ocases), "failures": len(failures),
                        "searched_harder": bool(broken)}
    return failures


def replay(ctx, rp):
    inp = rp["input"]
    if "segments" in inp:
        case = O.case_from_input(inp)
        res = [r[0] for r in O.run_segments([O.bursts_of(s) for s in case])]
        fresh = [O.run_segments([O.bursts_of(s)])[0][0] for s in case] if len(case) > 1 else None
        sigs = [c[0] for c in O.clauses(case, res, fresh)]
        print("replay:", [(len(O.seg_stream(s)), s["cuts"]) for s in case], "->", [r[:120] for r in res], sigs)
        return rp["signature"] in sigs
    if "history" in inp:
        h, cl = H.hist_from_input(inp)
        res = H.run_with(h, cl)
        canon = H.run_with(h, H.chunkings(random.Random(0), h, 0)[0])
        sigs = [c[0] for c in H.clauses(h, res, canon)]
        print("replay:", h["role"], [(d["end"], c) for d, c in zip(h["days"], cl)], "->",
              [(r["state"], r["flag"], [x[0] for x in r["delivered"]], r["cb"]) for r in res], sigs)
        return rp["signature"] in sigs
    st = {"frames": [bytes.fromhex(x) for x in inp["frames"]], "gs": [bytes.fromhex(x) for x in inp["gs"]], "prop": True}
    st["bytes"] = interleave(st["gs"], st["frames"])
    single = run_bursts([st["bytes"]])[0]
    reply = run_bursts(K.split_at(st["bytes"], inp["cuts"]))[0]
    sigs = [c[0] for c in clauses(st, reply, single)] + [c[0] for c in single_clauses(st, single)]
    print("replay: cuts", inp["cuts"], "->", reply[:300], sigs)
    return rp["signature"] in sigs
