"""C03 – stream reassembly is independent of how the byte stream is chunked.  DESIGN.md §6 C03.

proof:  Props/C03.lean (reader_chunk_independent, reader_residual_buffer, … – all chunk lists, no bounds)
tie:    model `feedAll` (driver `codec.feed`) vs the REAL `socket_read_task` (`codec_common.run_reader`)
        on the same reads: streams of 1–4 valid frames with / without marker-free junk, every 1-cut
        partition, the 1-byte partition, random multi-cut partitions (thorough: every 2-cut partition of
        small 3-frame streams); plus streams whose junk DOES contain a marker (tie only).
oracle: implementation only – for every chunking the deliveries equal those of the single read of the
        same stream, equal the frames put in (messages compared with the independent `ref_parse`), the
        residual buffer is a proper marker prefix that the last junk block ends with.
"""
from __future__ import annotations

import glob
import json
import os
import random

from . import codec_common as K
from . import common as C

PROP = "C03"
PROPS_MODULES = ["AsyncFix.Props.C03", "AsyncFix.Props.C03Full"]
ASSUMPTIONS = [
    "the connection stays connected while the reads are processed (the state test at the top of the inner loop is outside the model)",
    "a read returns a non-empty byte string (an empty read is EOF for the real task; the model proves empty chunks harmless)",
    "every valid frame decodes on its own (hypothesis `∃ m, decode bs tbl f = .msg m …` of the theorems; discharged by the "
    "C10/C01 no-raise + round-trip theorems, composed at integration) – sampled here by the oracle on every generated frame",
]
MODELLED_NOT_VERIFIED = [
    "C03: the inner loop of socket_read_task and Codec.decode are hand-modelled (Model/Codec/Reader.lean, Decode.lean) and "
    "compared with the real reader task on every chunking this check generates (buffer, flag and every delivery)",
]

MARKER = b"8=FIX."
PARTIALS = [b"8", b"8=", b"8=F", b"8=FI", b"8=FIX"]
JUNK_PIECES = PARTIALS + [b"\x01", b"10=", b"\x0110=123\x01", b"9=12\x01", b"FIX.4.4", b"=", b"35=0\x01", b"8=FIX4", b"\x0110=",
                          b"xyz", b" ", b"\x00", b"\xff", b"8=8=", b"88=FIX"]
CORPUS_GLOB = os.path.join(C.VERIF, "corpus", "codec", "c03_*.json")


# ------------------------------------------------------------------ streams
def interleave(gs, frames):
    out = b""
    for i, f in enumerate(frames):
        out += gs[i] + f
    return out + gs[len(frames)]


def gen_junk(rng, end=None, allow_empty=True):
    """marker-free junk; `end`: partial marker it must end with"""
    for _ in range(100):
        if allow_empty and end is None and rng.random() < 0.25:
            return b""
        g = b"".join(rng.choice(JUNK_PIECES) if rng.random() < 0.7 else bytes([rng.randrange(256)])
                     for _ in range(rng.randint(1, 6)))
        if end is not None:
            g += end
        if MARKER not in g:
            return g
    return end or b"x"


SESSION_FRAMES = [
    ["35=A", "49=S", "56=T", "34=1", "52=20240101-00:00:00.000", "98=0", "108=30"],
    ["35=0", "49=S", "56=T", "34=2", "52=20240101-00:00:00.000"],
    ["35=1", "49=S", "56=T", "34=3", "52=20240101-00:00:00.000", "112=8=FIX.4.4"],
    ["35=5", "49=S", "56=T", "34=4", "52=20240101-00:00:00.000", "58=10=000"],
    ["35=2", "49=S", "56=T", "34=5", "7=1", "16=0"],
    ["35=4", "49=S", "56=T", "34=6", "43=Y", "123=Y", "36=9"],
    ["35=D", "49=S", "56=T", "34=7", "11=9=12", "55=8=FIX.", "54=1", "38=10=", "58=8=FIX.4.4|9=5|35=0|10=000|"],
    ["35=8", "49=S", "56=T", "34=8", "453=2", "448=a", "447=D", "448=b", "447=D", "55=X"],
]
SMALL_FRAMES = [["35=0"], ["35=0", "34=1"], ["35=1", "112=8=FIX."], ["35=D", "58=10="], ["35=A", "98=0"], ["35=5"]]


def gen_frame(rng, small=False):
    r = rng.random()
    if small:
        return K.ref_frame(rng.choice(SMALL_FRAMES))
    if r < 0.35:
        return K.ref_frame(rng.choice(SESSION_FRAMES))
    return K.gen_frames(rng, 1, with_groups=r < 0.8)[0]


def gen_stream(rng, k, junk, small=False):
    """junk: 'none' | 'free' (marker-free, the property applies) | 'marker' (tie only)"""
    frames = [gen_frame(rng, small) for _ in range(k)]
    if junk == "none":
        gs = [b""] * (k + 1)
    else:
        gs = []
        for i in range(k + 1):
            end = rng.choice(PARTIALS) if rng.random() < 0.5 else None
            g = gen_junk(rng, end)
            if small:
                g = g[-6:] if MARKER not in g[-6:] else b""
            gs.append(g)
        if junk == "marker":
            i = rng.randrange(k + 1)
            f = gen_frame(rng, small)
            bad = rng.choice([
                MARKER, b"8=FIX.4.4\x01", b"8=FIX.4.4\x019=5\x01", f[: rng.randint(7, len(f) - 1)],
                f[:-4] + bytes([48 + (f[-4] - 47) % 10]) + f[-3:],      # wrong checksum
                b"8=FIX.4.4\x0110=000\x01", b"8=FIX.4.2\x019=5\x0135=0\x0110=000\x01", b"8=FIX.4.4\x019=x\x0135=0\x0110=1\x01",
            ])
            gs[i] = gs[i] + bad + (gen_junk(rng) if rng.random() < 0.5 else b"")
    return {"frames": frames, "gs": gs, "prop": junk != "marker", "kind": f"{k}f/{junk}" + ("/small" if small else "")}


def load_corpus():
    out = []
    for path in sorted(glob.glob(CORPUS_GLOB)):
        with open(path) as f:
            for e in json.load(f):
                out.append({
                    "frames": [bytes.fromhex(x) for x in e["frames"]], "gs": [bytes.fromhex(x) for x in e["gs"]],
                    "prop": e.get("prop", True), "kind": "corpus", "cuts": [tuple(c) for c in e.get("cuts", [])],
                    "note": e.get("note", ""),
                })
    return out


def build_jobs(ctx, rng, harder=False):
    """returns (streams, jobs) – a job is (stream index, cuts tuple)"""
    streams, jobs = [], []
    for s in load_corpus():
        streams.append(s)
        i = len(streams) - 1
        n = len(interleave(s["gs"], s["frames"]))
        jobs += [(i, tuple(c)) for c in s["cuts"]]
        jobs += [(i, (c,)) for c in range(1, n)]
        jobs.append((i, tuple(range(1, n))))
    reps = ctx.n(2, 3) * (2 if harder else 1)
    for _ in range(reps):
        for k in (1, 2, 3, 4):
            for junk in ("none", "free", "free", "marker"):
                streams.append(gen_stream(rng, k, junk))
    for i in range(len(streams)):
        if streams[i]["kind"] == "corpus":
            continue
        n = len(interleave(streams[i]["gs"], streams[i]["frames"]))
        jobs += [(i, (c,)) for c in range(1, n)]                     # every 1-cut partition
        jobs.append((i, tuple(range(1, n))))                          # 1-byte reads
    n_rand = ctx.n(300, 5000) * (3 if harder else 1)
    gen_idx = [i for i in range(len(streams)) if streams[i]["kind"] != "corpus"]
    for _ in range(n_rand):
        i = rng.choice(gen_idx)
        n = len(interleave(streams[i]["gs"], streams[i]["frames"]))
        m = rng.choice([2, 2, 3, 4, 6, 10, 25])
        cuts = sorted(set(rng.randrange(1, n) for _ in range(min(m, n - 1))))
        if rng.random() < 0.3:
            # a burst of 1-byte reads around a frame start
            st = streams[i]
            j = rng.randrange(len(st["frames"]))
            pos = len(interleave(st["gs"][: j + 1] + [b""], st["frames"][:j])) if j else len(st["gs"][0])
            cuts = sorted(set(cuts) | {c for c in range(max(1, pos - 3), min(n, pos + 9))})
        jobs.append((i, tuple(cuts)))
    if ctx.tier == "thorough" or harder:
        # every 2-cut partition of small 3-frame streams
        for junk in ("none", "free", "free", "free", "marker", "free") if ctx.tier == "thorough" else ("free",):
            s = gen_stream(rng, 3, junk, small=True)
            streams.append(s)
            i = len(streams) - 1
            n = len(interleave(s["gs"], s["frames"]))
            jobs += [(i, (a, b)) for a in range(1, n) for b in range(a + 1, n)]
            jobs += [(i, (c,)) for c in range(1, n)]
    return streams, jobs


# ------------------------------------------------------------------ implementation-only clauses
def parse_reply(r):
    """'buf <hex> <flag> D mt cont raw …' -> (buf bytes, flag, [(mt, cont, raw bytes)])"""
    t = r.split(" ")
    ds = []
    i = 3
    while i < len(t):
        assert t[i] == "D", r[:200]
        ds.append((t[i + 1], t[i + 2], C.unhx(t[i + 3])))
        i += 4
    return C.unhx(t[1]), t[2], ds


def flat_fields(cont_tok):
    """fields 'tag=value' in wire order of a container token (`I,k,L,tag,val,E,tag,G,tag,n,cont…`)"""
    toks = cont_tok.split(",")
    pos = 0
    out = []

    def cont():
        nonlocal pos
        assert toks[pos] == "I"
        k = int(toks[pos + 1])
        pos += 2
        for _ in range(k):
            kind = toks[pos]
            if kind == "L":
                out.append((C.uncp(toks[pos + 1]), C.uncp(toks[pos + 2])))
                pos += 3
            elif kind == "E":
                out.append((C.uncp(toks[pos + 1]), "<RepeatingTagError>"))
                pos += 2
            else:
                n = int(toks[pos + 2])
                out.append((C.uncp(toks[pos + 1]), str(n)))
                pos += 3
                for _ in range(n):
                    cont()
    cont()
    return out


def clauses(st, reply, single):
    """property clauses on ONE implementation run (reply) of a stream whose junk is marker-free;
    `single` = the implementation's reply for the single read of the same stream.  Yields (signature, what, expected, observed)."""
    buf, flag, ds = parse_reply(reply)
    _, _, ds1 = parse_reply(single)
    frames = st["frames"]
    if flag != "-":
        yield ("C03-reader-" + flag.split(":")[0], "the reader task raised / spun on a valid stream", "-", flag)
    raws = [d[2] for d in ds]
    if raws != frames:
        if len(raws) < len(frames) and all(r in frames for r in raws):
            yield ("C03-frame-lost", "a valid frame was not handed over", [f.hex() for f in frames], [r.hex() for r in raws])
        else:
            yield ("C03-deliveries-differ-from-frames", "handed-over raw frames are not the frames sent",
                   [f.hex() for f in frames], [r.hex() for r in raws])
    if ds != ds1:
        yield ("C03-chunking-changes-delivery", "deliveries differ from those of the single read of the same stream",
               [d[2].hex() for d in ds1], [d[2].hex() for d in ds])
    k = len(buf)
    if not (k < 6 and buf == MARKER[:k] and st["gs"][-1].endswith(buf)):
        yield ("C03-residual-buffer", "after all reads the buffer is not a proper marker prefix the last junk block ends with",
               "prefix of 8=FIX. / suffix of last junk", buf.hex())


def single_clauses(st, single):
    """messages of the single read against the independent reference parse of each frame"""
    _, _, ds = parse_reply(single)
    for f, d in zip(st["frames"], ds):
        ref, why = K.ref_parse(f)
        if ref is None:
            raise RuntimeError(f"generator produced a frame the reference parser rejects: {why} {f!r}")
        got = flat_fields(d[1])
        if d[2] != f:
            continue
        ck = ("10", f[-4:-1].decode("latin-1"))
        if got != ref + [ck] or C.uncp(d[0]) != dict(ref)["35"]:
            yield ("C03-message-differs-from-reference", "the handed-over message is not the reference parse of its frame",
                   ref + [ck], got)


# ------------------------------------------------------------------ parallel runner
_STREAMS = None


def _work(args):
    """one batch of jobs: driver + real reader + clauses.  Returns (disagreements, failures, stats)."""
    jobs, with_model = args
    singles = {}
    dis, fails = [], []
    stats = {"in_marker": 0, "in_bodylength": 0, "in_checksum": 0, "in_junk": 0, "nontrivial": 0}
    lines = []
    for (i, cuts) in jobs:
        st = _STREAMS[i]
        chunks = K.split_at(st["bytes"], cuts)
        lines.append("codec.feed " + " ".join(C.cp(x) for x in chunks))
    model = C.Driver().batch(lines) if with_model else [None] * len(jobs)
    for (i, cuts), ml in zip(jobs, model):
        st = _STREAMS[i]
        chunks = K.split_at(st["bytes"], cuts)
        il = K.run_reader(chunks)
        if with_model and il != ml:
            dis.append({"input": job_input(st, cuts), "model": ml[:600], "impl": il[:600]})
        where = classify_cuts(st, cuts)
        for k2 in where:
            stats[k2] += 1
        if st["prop"]:
            if i not in singles:
                singles[i] = K.run_reader([st["bytes"]])
            for sig, what, exp, obs in clauses(st, il, singles[i]):
                fails.append({"signature": sig, "what": what, "input": job_input(st, cuts), "expected": exp, "observed": obs})
    return dis, fails, stats


def classify_cuts(st, cuts):
    """which framing elements the cut positions fall into (measured distribution)"""
    out = set()
    pos = 0
    spans = []
    for j, f in enumerate(st["frames"]):
        pos += len(st["gs"][j])
        a = f.index(b"\x01") + 1
        b = f.index(b"\x01", a)
        spans.append(("in_marker", pos + 1, pos + 5))
        spans.append(("in_bodylength", pos + a + 1, pos + b))
        spans.append(("in_checksum", pos + len(f) - 6, pos + len(f) - 1))
        spans.append(("nontrivial", pos + 1, pos + len(f) - 1))
        pos += len(f)
    for c in cuts:
        hit = False
        for name, lo, hi in spans:
            if lo <= c <= hi:
                out.add(name)
                hit = hit or name == "nontrivial"
        if not hit:
            out.add("in_junk")
    return out


def job_input(st, cuts):
    return {"frames": [f.hex() for f in st["frames"]], "gs": [g.hex() for g in st["gs"]], "cuts": list(cuts), "prop": st["prop"]}


def run_jobs(streams, jobs, with_model=True):
    global _STREAMS
    import multiprocessing as mp

    for s in streams:
        s["bytes"] = interleave(s["gs"], s["frames"])
    _STREAMS = streams
    nproc = max(1, min(16, os.cpu_count() or 1))
    size = max(50, min(600, len(jobs) // (nproc * 4) + 1))
    batches = [(jobs[a : a + size], with_model) for a in range(0, len(jobs), size)]
    dis, fails = [], []
    stats = {}
    if nproc == 1 or len(batches) == 1:
        results = [_work(b) for b in batches]
    else:
        with mp.get_context("fork").Pool(nproc) as pool:
            results = pool.map(_work, batches)
    for d, f, s in results:
        dis += d
        fails += f
        for k, v in s.items():
            stats[k] = stats.get(k, 0) + v
    return dis, fails, stats


_STASH = {"fails": [], "streams": [], "jobs": 0}


def correspondence(ctx):
    rng = random.Random(f"C03/corr/{ctx.seed}")
    streams, jobs = build_jobs(ctx, rng)
    dis, fails, stats = run_jobs(streams, jobs, with_model=True)
    # single-read messages against the reference parser (implementation only; reported by the oracle)
    for st in streams:
        if st["prop"]:
            single = K.run_reader([st["bytes"]])
            for sig, what, exp, obs in single_clauses(st, single):
                fails.append({"signature": sig, "what": what, "input": job_input(st, ()), "expected": exp, "observed": obs})
    _STASH["fails"], _STASH["streams"], _STASH["jobs"] = fails, streams, len(jobs)
    kinds = {}
    for s in streams:
        kinds[s["kind"]] = kinds.get(s["kind"], 0) + 1
    ncuts = {}
    for _, cuts in jobs:
        b = "1" if len(cuts) == 1 else "2" if len(cuts) == 2 else "3-25" if len(cuts) <= 25 else "1-byte"
        ncuts[b] = ncuts.get(b, 0) + 1
    distinct = len({(i, c) for i, c in set(jobs) if "nontrivial" in classify_cuts(streams[i], c)})
    sample = []
    for (i, cuts) in jobs[:: max(1, len(jobs) // 4)][:4]:
        sample.append({"input": job_input(streams[i], cuts), "reply": K.run_reader(K.split_at(streams[i]["bytes"], cuts))[:300]})
    return {
        "evaluations": len(jobs),
        "distinct_nontrivial": distinct,
        "rule": "corpus (corpus/codec/c03_*.json: historic D3 offsets, cuts in marker / BodyLength / CheckSum / before the last SOH, "
        "values containing 8=FIX.) + generated streams of 1–4 frames (session + application types, repeating groups, values with "
        "8=FIX. / 10= / 9=), junk none / marker-free (half of the blocks end in 8, 8=, 8=F, 8=FI, 8=FIX) / containing a marker "
        "(tie only); per stream every 1-cut partition and the 1-byte partition; random 2–25-cut partitions (30 % with a burst of "
        "1-byte reads around a frame start); thorough: every 2-cut partition of 6 small 3-frame streams. Compared: residual "
        "buffer, raise/stall flag, every delivered (msg type, container, raw frame). distinct = distinct (stream, cut set) pairs "
        "with at least one cut strictly inside a frame",
        "samples": sample,
        "exhaustive": False,
        "distribution": {"streams": kinds, "partitions_by_cut_count": ncuts, "partitions_with_a_cut": stats,
                         "stream_bytes": sorted(len(s["bytes"]) for s in streams)},
        "disagreements": dis,
    }


def oracle(ctx, disagreements, broken):
    """implementation only.  Reports what the clause evaluation found on the runs of the correspondence stage
    (those runs are runs of the real reader task; the clauses never look at the model), then runs a fresh sample;
    searches harder when the proof or the tie is broken (disagreeing inputs and their neighbourhood first)."""
    failures = list(_STASH["fails"])
    n_runs = _STASH["jobs"]
    rng = random.Random(f"C03/oracle/{ctx.seed}")
    extra_streams, extra_jobs = [], []
    if broken:
        for d in disagreements[:200]:
            inp = d["input"]
            st = {"frames": [bytes.fromhex(x) for x in inp["frames"]], "gs": [bytes.fromhex(x) for x in inp["gs"]],
                  "prop": inp["prop"], "kind": "disagreement"}
            if not st["prop"]:
                continue
            extra_streams.append(st)
            i = len(extra_streams) - 1
            n = len(interleave(st["gs"], st["frames"]))
            extra_jobs.append((i, tuple(inp["cuts"])))
            for c in inp["cuts"][:3]:
                extra_jobs += [(i, (x,)) for x in range(max(1, c - 8), min(n, c + 9))]
    s2, j2 = build_jobs(ctx, rng, harder=bool(broken))
    base = len(extra_streams)
    extra_streams += s2
    extra_jobs += [(i + base, c) for i, c in j2]
    # the fresh sample of an intact run is modest; a broken run gets the full set
    if not broken:
        keep = ctx.n(1500, 8000)
        if len(extra_jobs) > keep:
            idx = sorted(rng.sample(range(len(extra_jobs)), keep))
            extra_jobs = [extra_jobs[i] for i in idx]
    _, f2, _ = run_jobs(extra_streams, extra_jobs, with_model=False)
    failures += f2
    for st in extra_streams:
        if st["prop"]:
            for sig, what, exp, obs in single_clauses(st, K.run_reader([st["bytes"]])):
                failures.append({"signature": sig, "what": what, "input": job_input(st, ()), "expected": exp, "observed": obs})
    n_runs += len(extra_jobs)
    # smallest witness first per signature
    failures.sort(key=lambda f: (len("".join(f["input"]["frames"])) + len("".join(f["input"]["gs"])), len(f["input"]["cuts"])))
    ctx.oracle_stats = {"reader_runs_judged": n_runs, "fresh_runs": len(extra_jobs), "failures": len(failures),
                        "searched_harder": bool(broken)}
    return failures


def replay(ctx, rp):
    inp = rp["input"]
    st = {"frames": [bytes.fromhex(x) for x in inp["frames"]], "gs": [bytes.fromhex(x) for x in inp["gs"]], "prop": True}
    st["bytes"] = interleave(st["gs"], st["frames"])
    single = K.run_reader([st["bytes"]])
    reply = K.run_reader(K.split_at(st["bytes"], inp["cuts"]))
    sigs = [c[0] for c in clauses(st, reply, single)] + [c[0] for c in single_clauses(st, single)]
    print("replay: cuts", inp["cuts"], "->", reply[:300], sigs)
    return rp["signature"] in sigs
