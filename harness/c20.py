"""C20 – the bundled test helper fabricates valid, consistent counterparty traffic.  DESIGN.md §6 C20.

tie:    (a) fabrication: the REAL `FIXTester` methods (`fix_exec_report_msg`, `fix_cxlrep_reject_msg`,
        `fix_cxl_request`, `fix_rep_request`, `order_register_single`, `msg_*`) and the REAL order object's
        `process_execution_report` / `process_cancel_rej_report` against `tst.*` of the Lean driver on order
        states reached by driving real `FIXNewOrderSingle` objects through new / ack / fill / replace / cancel
        flows × argument combinations (accepted and refused ones); every fabricated message is also
        validated with the REAL `FIXSchema(tests/FIX44.xml)` and compared with the model's dictionary check;
        (b) wiring: clean (and a few unclean) session scripts replayed step by step against the REAL
        `FIXTester` simulated acceptor (↔ `tst.tstep`) and against a REAL `AsyncFIXDummyServer` endpoint fed
        through fake transports and its own reader task (↔ `tst.lstep`).
oracle: the clauses of the property on the implementation alone (harness/c20_wire.py holds the runners).
"""
from __future__ import annotations

import math
import os
import re
import traceback

from . import common as C
from . import sess_common as S
from . import c17_ref as R17

PROP = "C20"
PROPS_MODULES = ["AsyncFix.Props.C20", "AsyncFix.Props.C20Lock"]
FINDINGS_MODULE = "AsyncFix.Findings.C20"
ASSUMPTIONS = [
    "Python numbers are modelled on the 1/8 grid (exact floats; sums/differences exact; round(x,3)==0 iff x==0), "
    "magnitude < 10^16 (str(float) positional); nan arguments = absent; the order's own fields are never nan/inf",
    "float(str(x)) == x for Python floats (CPython repr round-trip): the order object's float(m[tag]) is modelled on "
    "the typed value the helper wrote, not on the text",
    "ExecType / OrdStatus / Side arguments are enum members or their string values (modelled by value)",
    "set_instrument / set_price_qty / set_account are the base-class ones (a subclass may write other tags)",
    "wiring: schema=None or a schema that accepts every frame of the script (validation inside the mock socket "
    "is not modelled); hooks of the initiator return normally; one clock value per script step",
    "the session model (AsyncFix.Session.*) is the model of _process_message / send_msg (tied to the code by C11/C04/C05 "
    "correspondences and re-sampled here on every script step)",
]
MODELLED_NOT_VERIFIED = [
    "C20 (round 5): REFUSED helper calls inside scripts (bad fabrication arguments, unknown order, reply() of a schema-invalid "
    "message with a schema attached) have no model step: the clause 'a refused call leaves both connections, their journals, the "
    "queue and the wire untouched, and later traffic stays in lock-step with a real endpoint that never saw the call' is checked "
    "on the implementation only; equal-but-not-identical argument objects (NaN objects other than math.nan, str objects built at "
    "run time) collapse to one model value and are enumerated by the harness with a metamorphic clause; bool arguments for "
    "numbers are outside the typed domain",
    "C20 (round 4): CONFIGURATION of the initiator under the tester is outside the Lean model's quantifier and covered by "
    "correspondence / oracle only: the model's messages are group-less field lists (a parsed repeating group is compared "
    "through its wire-order flattening; the STRUCTURE handed to on_message is compared between tester and real endpoint by the "
    "oracle), Proto.beginString is the generated FIX.4.4 constant (another BeginString: oracle only, known finding "
    "C20-acceptor-protocol-hardwired), session_message_types / heartbeat / journal history are sampled (the theorem covers any "
    "heartbeat and any journal whose rows are below the counters); tag KEY SPELLINGS (int / str / FTag) of msg_logon and the "
    "*_sent_query helpers collapse to str(tag) in the model and are enumerated by the harness",
    "C20: fix_exec_report_msg / fix_cxlrep_reject_msg / fix_cxl_request / fix_rep_request / msg_* and the lines of "
    "process_execution_report / process_cancel_rej_report are hand-modelled (Model/Tester.lean) and compared on every run",
    "C20: FIXSchema.validate restricted to the helper's messages is hand-modelled over GENERATED dictionary tables "
    "(Model/TesterDict.lean, Generated/TesterDict.lean from tests/FIX44.xml via the real parser); UTCTIMESTAMP not modelled",
    "C20: FIXTester wiring (mock sockets, nested drain, reply) is hand-modelled over the session model (Model/TesterWire.lean)",
    "tools/gen_tester.py (dictionary translator, run by tools/gen_lean.py)",
]

TRANSACT = "20240102-03:04:05.678"
_SCHEMA = None


def schema():
    global _SCHEMA
    if _SCHEMA is None:
        from asyncfix.protocol import FIXSchema

        _SCHEMA = FIXSchema(os.path.join(C.REPO, "tests", "FIX44.xml"))
    return _SCHEMA


# ---------------------------------------------------------------------------------------------
# tokens
# ---------------------------------------------------------------------------------------------
hx = C.hx


def num_tok(x):
    if x is None:
        return "nan"
    if isinstance(x, bool):
        raise ValueError(x)
    if isinstance(x, int):
        return f"i{x * 8}"
    if x != x:
        return "nan"
    e = x * 8
    assert e == int(e) and abs(e) < 10**15, x
    return f"f{int(e)}"


def ostr(s):
    return "none" if s is None else hx(s)


def enum_val(x):
    import enum

    return str(x.value) if isinstance(x, enum.Enum) else x


def view_of(o):
    """the attributes of a real FIXNewOrderSingle that the model's OrderView has (+ the ClOrdID counter)"""
    return {
        "clord": o.clord_id, "orig": o.orig_clord_id, "oid": o.order_id, "qty": o.qty, "price": o.price,
        "cum": o.cum_qty, "leaves": o.leaves_qty, "avg": o.avg_px, "status": enum_val(o.status),
        "side": enum_val(o.side), "ticker": o.ticker, "ord_type": enum_val(o.ord_type),
        "account": o.account if isinstance(o.account, str) else None, "cnt": R17._cnt_of(o),
    }


def order_tokens(v):
    return " ".join([
        hx(v["clord"]), ostr(v["orig"]), ostr(v["oid"]), num_tok(v["qty"]), num_tok(v["price"]), num_tok(v["cum"]),
        num_tok(v["leaves"]), num_tok(v["avg"]), hx(v["status"]), hx(v["side"]), hx(v["ticker"]), hx(v["ord_type"]),
        ostr(v["account"]),
    ])


def make_order(v):
    """a real order object in the state described by the view"""
    from asyncfix.protocol.common import FOrdSide, FOrdStatus, FOrdType
    from asyncfix.protocol.order_single import FIXNewOrderSingle

    def member(cls, x):
        try:
            return cls(x)
        except ValueError:
            return x

    o = FIXNewOrderSingle(v["clord"] or "tmp", v["ticker"], member(FOrdSide, v["side"]), v["price"], v["qty"],
                          ord_type=member(FOrdType, v["ord_type"]),
                          account=v["account"] if v["account"] is not None else {"acc": 1})
    o.clord_id, o.orig_clord_id, o.order_id = v["clord"], v["orig"], v["oid"]
    o.cum_qty, o.leaves_qty, o.avg_px = v["cum"], v["leaves"], v["avg"]
    o.status = member(FOrdStatus, v["status"])
    setattr(o, R17.counter_attr(), v.get("cnt", 0))
    return o


def tstate_tokens(t):
    oids = t.get("oids", {})
    return " ".join([str(t["octr"]), str(t["ectr"]), str(len(t["reg"]))] + [hx(k) for k in t["reg"]]
                    + [str(len(oids))] + [x for r, k in oids.items() for x in (hx(r), str(k))])


def args_tokens(a):
    return " ".join([
        hx(a["clord"]), hx(a["exec"]), hx(a["status"]), num_tok(a["cum"]), num_tok(a["leaves"]), num_tok(a["last"]),
        num_tok(a["price"]), num_tok(a["oqty"]), ostr(a["orig"]), num_tok(a["avg"]),
    ])


def msg_tokens(m):
    return S.msg_tok((str(enum_val(m.msg_type)), [(int(t), v) for t, v in m.tags.items()]))


def canon_tstate(text):
    """model / impl tester state with the registered keys and the OrderID map as sorted sets"""
    t = text.split(" ")
    n = int(t[2])
    reg, rest = t[3:3 + n], t[4 + n:]
    pairs = sorted(rest[i] + "=" + rest[i + 1] for i in range(0, len(rest), 2))
    return " ".join(t[:2] + sorted(set(reg)) + ["|"] + pairs)


# ---------------------------------------------------------------------------------------------
# implementation side: fabrication
# ---------------------------------------------------------------------------------------------
SITES = [
    ("order.clord_id in self.registered_orders", "unregistered"),
    ("assert order_qty > 0", "orderQtyPositive"),
    ("assert cum_qty <= order.qty", "cumLeOrderQty"),
    ("assert cum_qty >= 0", "cumNonneg"),
    ("assert leaves_qty >= 0", "leavesNonneg"),
    ("assert leaves_qty <= order_qty", "leavesLeOrderQty"),
    ("cum_qty + leaves_qty <= order_qty", "sumLeOrderQty"),
    ("exec_type == FExecType.TRADE", "lastOnlyTrade"),
    ("assert last_qty > 0", "lastPositive"),
    ("round(last_qty", "lastMatchesCum"),
    ("exec_type != FExecType.TRADE", "tradeNeedsLast"),
    ("isinstance(self.account, str)", "accountIsStr"),
    ("assert order.clord_id != order.orig_clord_id", "pcDistinct"),
    ("assert order.orig_clord_id", "pcOrig"),
    ("assert order.clord_id", "pcClord"),
    ("assert order.cum_qty == cum_qty", "pcCum"),
    ("assert order.leaves_qty == leaves_qty", "pcLeaves"),
    ("assert leaves_qty == 0", "finishedLeavesZero"),
    ("cxl_req.msg_type in", "cxlReqType"),
    ("assert o.can_cancel()", "cannotCancel"),
    ("assert o.can_replace()", "cannotReplace"),
    ("assert not self.orig_clord_id", "origSet"),
]


def assertion_site(exc):
    """which assertion fired: the source text of the failing statement ↦ the model's site name"""
    import linecache

    fr = traceback.extract_tb(exc.__traceback__)[-1]
    end = getattr(fr, "end_lineno", None) or fr.lineno
    text = " ".join(linecache.getline(fr.filename, i).strip() for i in range(fr.lineno, end + 1))
    text = re.sub(r"\s+", " ", text)
    if re.fullmatch(r"assert clord_id", text):
        return "emptyClord"
    if "exec_type == FExecType.REPLACED" in text:
        prev = linecache.getline(fr.filename, fr.lineno - 1).strip()
        return "priceOnlyReplace" if "isnan(price)" in prev else "orderQtyOnlyReplace"
    for pat, name in SITES:
        if pat in text:
            return name
    return "?" + text[:60]


def refusal_of(e):
    from asyncfix.errors import FIXError, FIXMessageError, TagNotFoundError

    if isinstance(e, AssertionError):
        return "assert:" + assertion_site(e)
    if isinstance(e, TagNotFoundError):
        return "TagNotFound"
    if isinstance(e, FIXMessageError):
        return "schema"
    if type(e) is FIXError:
        return "FIXError"
    return "exc:" + type(e).__name__


def proc_kind(e):
    from asyncfix.errors import FIXError, TagNotFoundError

    if isinstance(e, TagNotFoundError):
        return "TagNotFound"
    if type(e) is FIXError:
        return "FIXError"
    if type(e) is ValueError:
        return "Value"
    return "exc:" + type(e).__name__


NAN_KINDS = ["singleton", "float", "computed", "negated"]


def nanf(x, kind="singleton"):
    """an absent numeric argument: NaN - the math.nan singleton, or an equal-but-not-identical NaN object"""
    if x is not None:
        return x
    if kind == "float":
        return float("nan")
    if kind == "computed":
        return float("inf") - float("inf")
    if kind == "negated":
        return -math.nan
    return math.nan


def fresh(s, on):
    """the same text as a str object built at run time (not the interned literal / not the order's own object)"""
    return "".join(list(s)) if (on and isinstance(s, str)) else s


def typed(cls, x, as_member):
    """argument as an enum member (when it is one and `as_member`) or as the plain string"""
    if as_member:
        try:
            return cls(x)
        except ValueError:
            return x
    return x


def make_tester(t, o, use_schema):
    from asyncfix import FIXTester

    ft = FIXTester(schema=schema() if use_schema else None)
    ft._order_id, ft._exec_id = t["octr"], t["ectr"]
    ft._order_ids = dict(t.get("oids", {}))
    for k in t["reg"]:
        ft.registered_orders[k] = o
    return ft


def tstate_of(ft):
    return {"octr": ft._order_id, "ectr": ft._exec_id, "reg": list(ft.registered_orders.keys()),
            "oids": dict(getattr(ft, "_order_ids", {}))}


def impl_fab(case):
    """one `fix_exec_report_msg` call on real objects + `process_execution_report`; canonical reply and the raw message"""
    from asyncfix.protocol.common import FExecType, FOrdStatus

    v, t, a = case["order"], case["tester"], case["args"]
    o = make_order(v)
    ft = make_tester(t, o, case["schema"])
    mem = case.get("members", True)
    nk, fr = case.get("nan", "singleton"), case.get("fresh", False)
    msg = None
    try:
        msg = ft.fix_exec_report_msg(
            o, fresh(a["clord"], fr), typed(FExecType, fresh(a["exec"], fr), mem), typed(FOrdStatus, fresh(a["status"], fr), mem),
            cum_qty=nanf(a["cum"], nk), leaves_qty=nanf(a["leaves"], nk), last_qty=nanf(a["last"], nk), price=nanf(a["price"], nk),
            order_qty=nanf(a["oqty"], nk), orig_clord_id=fresh(a["orig"], fr), avg_price=a["avg"],
        )
        res = "ok " + msg_tokens(msg)
    except Exception as e:  # noqa
        res = "refused " + refusal_of(e)
    out = tstate_tokens(tstate_of(ft)) + " # " + res
    proc = None
    if msg is not None:
        try:
            r = o.process_execution_report(msg)
            proc = f"ok {1 if r else 0} " + order_tokens(view_of(o))
        except Exception as e:  # noqa
            proc = "raised " + proc_kind(e)
        out += " # " + proc
    return out, msg, o


def guarded(fn, case, arity):
    """run one implementation-side case; an exception nobody anticipated is an OUTCOME of that case (compared with the
    model like any other), never the end of the check"""
    try:
        return fn(case)
    except Exception as e:  # noqa
        r = "raised " + type(e).__name__ + ": " + str(e)[:80]
        return r if arity == 1 else (r,) + (None,) * (arity - 1)


def fab_line(case):
    return "tst.fab %d %s O %s A %s" % (
        1 if case["schema"] else 0, tstate_tokens(case["tester"]), order_tokens(case["order"]), args_tokens(case["args"]))


def canon_fab(text):
    parts = text.split(" # ")
    parts[0] = canon_tstate(parts[0])
    return " # ".join(parts)


def impl_cxlrej(case):
    from asyncfix import FIXMessage
    from asyncfix.protocol.common import FOrdStatus

    o = make_order(case["order"])
    ft = make_tester({"octr": 0, "ectr": 10000, "reg": [], "oids": {}}, o, case["schema"])
    mt, tags = case["req"]
    req = FIXMessage(mt, dict(tags))
    try:
        m = ft.fix_cxlrep_reject_msg(req, typed(FOrdStatus, case["status"], case.get("members", True)))
    except Exception as e:  # noqa
        return "refused " + refusal_of(e), None
    try:
        r = o.process_cancel_rej_report(m)
        proc = f"ok {1 if r else 0} " + order_tokens(view_of(o))
    except Exception as e:  # noqa
        proc = "raised " + proc_kind(e)
    return "ok " + msg_tokens(m) + " # " + proc, m


def cxlrej_line(case):
    return "tst.cxlrej %d %s %s O %s" % (
        1 if case["schema"] else 0, S.msg_tok(case["req"]), hx(case["status"]), order_tokens(case["order"]))


def patched_time():
    from asyncfix.protocol.order_single import FIXNewOrderSingle

    class _P:
        def __enter__(self):
            self.old = FIXNewOrderSingle.__dict__["current_datetime"]
            FIXNewOrderSingle.current_datetime = staticmethod(lambda: TRANSACT)

        def __exit__(self, *a):
            FIXNewOrderSingle.current_datetime = self.old

    return _P()


def next_clord(v):
    from asyncfix.protocol.order_single import FIXNewOrderSingle

    return f"{FIXNewOrderSingle.clord_root(v['clord'])}--{v['cnt'] + 1}"


def impl_request(case):
    """fix_cxl_request / fix_rep_request on real objects"""
    o = make_order(case["order"])
    ft = make_tester(case["tester"], o, case["schema"])
    with patched_time():
        try:
            if case["kind"] == "cxl":
                m = ft.fix_cxl_request(o)
            else:
                m = ft.fix_rep_request(o, nanf(case["price"], case.get("nan", "singleton")), nanf(case["qty"], case.get("nan", "singleton")))
            res = "ok " + msg_tokens(m)
        except Exception as e:  # noqa
            res = "refused " + refusal_of(e)
    return canon_tstate(tstate_tokens(tstate_of(ft))) + " # " + order_tokens(view_of(o)) + " # " + res


def request_line(case):
    head = "%d %s O %s" % (1 if case["schema"] else 0, tstate_tokens(case["tester"]), order_tokens(case["order"]))
    nc = hx(next_clord(case["order"]))
    if case["kind"] == "cxl":
        return f"tst.cxlreq {head} {nc} {hx(TRANSACT)}"
    return f"tst.repreq {head} {num_tok(case['price'])} {num_tok(case['qty'])} {nc} {hx(TRANSACT)}"


def canon_request(text):
    p = text.split(" # ")
    p[0] = canon_tstate(p[0])
    return " # ".join(p)


def spell(tag, how):
    """a tag key the way a caller may spell it: int, str or FTag member"""
    from asyncfix import FTag

    if how == "str":
        return str(tag)
    if how == "ftag":
        try:
            return FTag(str(tag))
        except ValueError:
            return str(tag)
    return int(tag)


def logon_tags(spec):
    extras = spec[1] or []
    how = spec[2] if len(spec) > 2 else "int"
    hows = ["int", "str", "ftag"]
    return {spell(t, how if how != "mixed" else hows[i % 3]): v for i, (t, v) in enumerate(extras)} if extras else None


def impl_msg(spec):
    """`msg_*` factories; returns (message tokens # validates with the real schema 0|1  |  raised <kind>, message)"""
    from asyncfix import FIXTester

    k = spec[0]
    try:
        ft = FIXTester(schema=None)
        if k == "logon":
            m = ft.msg_logon(logon_tags(spec))
        elif k == "logout":
            m = ft.msg_logout()
        elif k == "hb":
            m = ft.msg_heartbeat(spec[1])
        elif k == "testreq":
            m = ft.msg_test_request(spec[1])
        elif k == "seqreset":
            m = ft.msg_sequence_reset(spec[1], spec[2], spec[3])
        elif k == "resend":
            m = ft.msg_resend_request(spec[1], spec[2])
        else:
            raise ValueError(spec)
        return msg_tokens(m) + " # " + ("1" if validates(m) else "0"), m
    except Exception as e:  # noqa  an outcome, never a crash of the check
        return "raised " + type(e).__name__, None


def msg_line(spec):
    k = spec[0]
    if k == "logon":
        return "tst.msg logon " + " ".join(f"{t}:{hx(str(v))}" for t, v in (spec[1] or []))
    if k == "logout":
        return "tst.msg logout"
    if k == "hb":
        return "tst.msg hb " + ostr(None if spec[1] is None else str(spec[1]))
    if k == "testreq":
        return "tst.msg testreq " + hx(str(spec[1]))
    if k == "seqreset":
        return f"tst.msg seqreset {hx(str(spec[1]))} {hx(str(spec[2]))} {1 if spec[3] else 0}"
    return f"tst.msg resend {hx(str(spec[1]))} {hx(str(spec[2]))}"


def validates(m):
    from asyncfix.errors import FIXMessageError

    try:
        schema().validate(m)
        return True
    except FIXMessageError:
        return False


# ---------------------------------------------------------------------------------------------
# generators
# ---------------------------------------------------------------------------------------------
EXECS = ["0", "3", "4", "5", "6", "7", "8", "9", "A", "B", "C", "D", "E", "F", "G", "H", "I"]
STATS = ["Z", "0", "1", "2", "3", "4", "6", "7", "8", "9", "A", "B", "C", "D", "E"]


def q8(rng, lo, hi):
    """a float on the 1/8 grid in [lo, hi]"""
    return rng.randint(int(lo * 8), int(hi * 8)) / 8


def gen_flow(rng, views):
    """drive one real order through a random life using the real tester; collect every state reached"""
    from asyncfix import FIXTester
    from asyncfix.errors import FIXError
    from asyncfix.protocol.common import FExecType as X, FOrdSide, FOrdStatus as St, FOrdType
    from asyncfix.protocol.order_single import FIXNewOrderSingle

    root = rng.choice(["ord", "clordTest", "o-7", "a--b"]) + str(rng.randrange(1000))
    qty = rng.choice([10, 20, 100, 7]) if rng.random() < 0.3 else q8(rng, 1, 200)
    price = rng.choice([100, 200]) if rng.random() < 0.3 else q8(rng, 1, 500)
    o = FIXNewOrderSingle(root, rng.choice(["US.F.TICKER", "T", "AAPL"]), rng.choice(list(FOrdSide)[:4]), price, qty,
                          ord_type=rng.choice([FOrdType.LIMIT, FOrdType.MARKET, "2"]),
                          account=rng.choice(["000000", "ACC-1"]))
    ft = FIXTester(schema())

    def snap(label):
        views.append((label, view_of(o), tstate_of(ft)))

    ft.order_register_single(o)
    snap("created")
    with patched_time():
        o.new_req()
    ft.order_register_single(o)
    snap("pending-new")

    def rep(clord, ex, st, **kw):
        m = ft.fix_exec_report_msg(o, clord, ex, st, **kw)
        o.process_execution_report(m)
        snap(f"after-{enum_val(ex)}-{enum_val(st)}")

    try:
        if rng.random() < 0.7:
            rep(o.clord_id, X.PENDING_NEW, St.PENDING_NEW)
        if rng.random() < 0.08:
            rep(o.clord_id, X.REJECTED, St.REJECTED, cum_qty=0.0, leaves_qty=0.0)
            return
        rep(o.clord_id, X.NEW, St.NEW, cum_qty=0.0, leaves_qty=float(o.qty))
        for _ in range(rng.randint(0, 6)):
            if o.is_finished():
                break
            r = rng.random()
            live = o.leaves_qty
            if r < 0.35 and live > 0:
                x = min(live, q8(rng, 0.125, max(0.125, live)))
                cum, lv = o.cum_qty + x, live - x
                rep(o.clord_id, X.TRADE, St.FILLED if lv == 0 else St.PARTIALLY_FILLED, cum_qty=cum, leaves_qty=lv,
                    last_qty=x, avg_price=q8(rng, 1, 300))
            elif r < 0.55 and o.can_cancel():
                with patched_time():
                    req = ft.fix_cxl_request(o)
                snap("cancel-requested")
                k = rng.random()
                if k < 0.4:
                    rep(o.clord_id, X.PENDING_CANCEL, St.PENDING_CANCEL, orig_clord_id=o.orig_clord_id)
                if k < 0.7:
                    rep(o.clord_id, X.CANCELED, St.CANCELED, cum_qty=o.cum_qty, leaves_qty=0.0,
                        orig_clord_id=o.orig_clord_id)
                else:
                    m = ft.fix_cxlrep_reject_msg(req, St.PARTIALLY_FILLED if o.cum_qty > 0 else St.NEW)
                    o.process_cancel_rej_report(m)
                    ft.order_register_single(o)
                    snap("cancel-rejected")
            elif r < 0.8 and o.can_replace():
                nq = max(o.cum_qty + 0.125, q8(rng, 1, 200))
                npx = q8(rng, 1, 500)
                with patched_time():
                    req = ft.fix_rep_request(o, npx, nq)
                snap("replace-requested")
                k = rng.random()
                if k < 0.4:
                    rep(o.clord_id, X.PENDING_REPLACE, St.PENDING_REPLACE, orig_clord_id=o.orig_clord_id)
                if k < 0.75:
                    rep(o.clord_id, X.REPLACED, St.PARTIALLY_FILLED if o.cum_qty > 0 else St.NEW, cum_qty=o.cum_qty,
                        leaves_qty=nq - o.cum_qty, price=npx, order_qty=nq, orig_clord_id=o.orig_clord_id)
                else:
                    m = ft.fix_cxlrep_reject_msg(req, St.PARTIALLY_FILLED if o.cum_qty > 0 else St.NEW)
                    o.process_cancel_rej_report(m)
                    ft.order_register_single(o)
                    snap("replace-rejected")
            elif r < 0.86:
                rep(o.clord_id, X.SUSPENDED, St.SUSPENDED, cum_qty=o.cum_qty, leaves_qty=o.leaves_qty)
            elif r < 0.92:
                rep(o.clord_id, X.EXPIRED, St.EXPIRED, cum_qty=o.cum_qty, leaves_qty=0.0)
            else:
                rep(o.clord_id, X.NEW, St.NEW, cum_qty=o.cum_qty, leaves_qty=o.leaves_qty)
    except (AssertionError, FIXError):
        # the walk asked the helper for something it refuses (e.g. a status the order left): states so far stay
        snap("walk-refused")


def gen_args(rng, v):
    """one argument combination for an order in state `v`: natural next reports, near misses, junk"""
    qty, cum, leaves = v["qty"], v["cum"], v["leaves"]
    mode = rng.random()
    a = {"clord": v["clord"], "exec": "0", "status": "0", "cum": None, "leaves": None, "last": None, "price": None,
         "oqty": None, "orig": None, "avg": 0.0}
    if mode < 0.45:  # natural
        k = rng.choice(["pn", "new", "trade", "fill", "cancel", "pcancel", "replace", "expire", "reject", "susp", "status"])
        if k == "pn":
            a.update(exec="A", status="A")
        elif k == "new":
            a.update(exec="0", status="0", cum=0.0, leaves=float(qty))
        elif k in ("trade", "fill"):
            room = max(0.0, qty - cum)
            x = room if k == "fill" else (q8(rng, 0.125, room) if room >= 0.125 else 0.125)
            a.update(exec="F", status="2" if x == room else "1", cum=cum + x, leaves=room - x, last=x, avg=q8(rng, 1, 300))
        elif k == "cancel":
            a.update(exec="4", status="4", cum=cum, leaves=0.0, orig=v["orig"])
        elif k == "pcancel":
            a.update(exec="6", status="6", orig=v["orig"])
            r = rng.random()
            if r < 0.25:
                a["cum"] = rng.choice([cum, cum + 0.125, 0.0])
            elif r < 0.5:
                a["leaves"] = rng.choice([float(leaves), leaves + 0.125, 0.0])
        elif k == "replace":
            nq = max(cum + 0.125, q8(rng, 1, 200))
            a.update(exec="5", status="1" if cum > 0 else "0", cum=cum, leaves=nq - cum, price=q8(rng, 1, 500), oqty=nq,
                     orig=v["orig"])
        elif k == "expire":
            a.update(exec="C", status="C", cum=cum, leaves=0.0)
        elif k == "reject":
            a.update(exec="8", status="8", cum=0.0, leaves=0.0)
        elif k == "susp":
            a.update(exec="9", status="9", cum=cum, leaves=leaves)
        else:
            a.update(exec="I", status=v["status"] if v["status"] != "Z" else "A")
        if rng.random() < 0.25:  # a near miss on one argument
            f = rng.choice(["cum", "leaves", "last", "oqty", "price", "exec", "status", "clord"])
            if f in ("cum", "leaves", "last", "oqty"):
                a[f] = rng.choice([None, -0.125, 0.0, float(qty), qty + 0.125, (a[f] or 0) + 0.125, 3])
            elif f == "price":
                a[f] = rng.choice([None, 12.5, -1.0])
            elif f == "exec":
                a[f] = rng.choice(EXECS)
            elif f == "status":
                a[f] = rng.choice(STATS)
            else:
                a[f] = rng.choice([v["orig"] or v["clord"], "foreign", ""])
    else:  # free combination
        nums = [None, None, 0.0, -0.125, float(qty), qty + 0.125, cum, float(leaves), max(0.0, qty - cum), 1.0, 5, 0.125]
        a.update(
            clord=rng.choice([v["clord"]] * 6 + [v["orig"] or v["clord"], "foreign", ""]),
            exec=rng.choice(EXECS + ["F", "5", "6", "0", "4"]), status=rng.choice(STATS + ["X?", ""] if rng.random() < 0.15 else STATS),
            cum=rng.choice(nums), leaves=rng.choice(nums),
            last=rng.choice([None] * 8 + [1.0, 0.125, 0.0, -1.0, 2]),
            price=rng.choice([None] * 8 + [99.5, 100]), oqty=rng.choice([None] * 10 + [float(qty), qty + 8.0, 0.0, -1.0, 50]),
            orig=rng.choice([None, None, v["orig"], v["clord"], "", "other"]), avg=rng.choice([0.0, 0.0, 101.25, 7, -1.5]),
        )
        if a["last"] is not None and rng.random() < 0.5 and a["cum"] is not None:
            a["last"] = a["cum"] - cum if a["cum"] - cum != 0 else a["last"]
    return a


def mutate_view(rng, v):
    """states no flow reaches but a user's order object may be in (robustness of the model)"""
    v = dict(v)
    k = rng.random()
    if k < 0.2:
        v["account"] = None
    elif k < 0.4:
        v["oid"] = rng.choice([None, "X-77", "12"])
    elif k < 0.75:
        v["orig"] = rng.choice([None, "", v["clord"], "prev--1"])
    else:
        v["status"] = rng.choice(STATS)
    return v


def build_cases(ctx, n_flows, n_fab):
    rng = ctx.rng
    views = []
    for _ in range(n_flows):
        gen_flow(rng, views)
    cases = []
    # corpus first
    for c in load_corpus():
        cases.append(c)
    while len(cases) < n_fab:
        label, v, t = rng.choice(views)
        if rng.random() < 0.08:
            v = mutate_view(rng, v)
            label += "+mutated"
        t = dict(t)
        if rng.random() < 0.08:
            v = dict(v, oid=None)  # no report processed yet: the OrderID comes from the tester's map
            label += "+no-oid"
        if rng.random() < 0.05:
            t["oids"] = {}
        if rng.random() < 0.06:
            t["reg"] = []
        if rng.random() < 0.3:
            t["octr"], t["ectr"] = rng.randrange(0, 50), rng.randrange(10000, 10500)
        cases.append({"kind": "fab", "label": label, "order": v, "tester": t, "args": gen_args(rng, v),
                      "schema": rng.random() < 0.5, "members": rng.random() < 0.7,
                      "nan": rng.choice(NAN_KINDS + ["singleton"] * 2), "fresh": rng.random() < 0.5})
    return views, cases


def load_corpus():
    import glob
    import json

    out = []
    for p in sorted(glob.glob(os.path.join(C.VERIF, "corpus", "tester", "*.json"))):
        with open(p) as f:
            d = json.load(f)
        out += d if isinstance(d, list) else [d]
    return [c for c in out if c.get("kind") == "fab"]


# ---------------------------------------------------------------------------------------------
# correspondence
# ---------------------------------------------------------------------------------------------
def correspondence(ctx):
    from . import c20_wire as W

    drv = C.Driver()
    dis, branches, seen = [], {}, set()
    samples = []

    def inc(k):
        branches[k] = branches.get(k, 0) + 1

    # ---- (a1) execution reports ------------------------------------------------------------
    views, cases = build_cases(ctx, ctx.n(60, 600), ctx.n(2000, 20000))
    model = drv.batch([fab_line(c) for c in cases])
    fabricated = []
    for c, ml in zip(cases, model):
        il, msg, _o = guarded(impl_fab, c, 3)
        key = (order_tokens(c["order"]), args_tokens(c["args"]), c["schema"])
        seen.add(key)
        parts = il.split(" # ")
        if len(parts) < 2:
            inc("fab:" + il[:40])
            dis.append({"input": c, "model": ml, "impl": il})
            continue
        inc("fab:" + " ".join(parts[1].split(" ")[:2]) if parts[1].startswith("refused") else "fab:ok")
        if len(parts) > 2:
            inc("proc:" + " ".join(parts[2].split(" ")[:2]))
        inc("fab-args:nan=" + c.get("nan", "singleton") + (",fresh-str" if c.get("fresh") else ""))
        if canon_fab(il) != canon_fab(ml):
            dis.append({"input": c, "model": ml, "impl": il})
        if msg is not None:
            fabricated.append((c, msg))
        if len(samples) < 3 and msg is not None:
            samples.append({"input": c, "model": ml})
    n_eval = len(cases)

    # ---- (a2) the model's dictionary check vs the real schema on every message fabricated without a schema
    lines, idx = [], []
    for c, msg in fabricated:
        if not c["schema"]:
            lines.append("tst.dict " + msg_tokens(msg))
            idx.append((c, msg))
    for (c, msg), ml in zip(idx, drv.batch(lines) if lines else []):
        il = "1" if validates(msg) else "0"
        inc("dict:" + il)
        if il != ml:
            dis.append({"input": {"dict": msg_tokens(msg), "case": c}, "model": ml, "impl": il})
    n_eval += len(lines)

    # ---- (a3) cancel rejects, cancel / replace requests ---------------------------------------
    rng = ctx.rng
    rcases, rlines = [], []
    for label, v, t in views:
        for kind in ("cxl", "rep"):
            if rng.random() < 0.5:
                continue
            c = {"kind": kind, "order": v, "tester": t, "schema": rng.random() < 0.5, "nan": rng.choice(NAN_KINDS),
                 "price": rng.choice([None, v["price"], q8(rng, 1, 500), 77]),
                 "qty": rng.choice([None, v["qty"], 0.0, q8(rng, 1, 300), 15])}
            rcases.append(c)
            rlines.append(request_line(c))
    for c, ml in zip(rcases, drv.batch(rlines) if rlines else []):
        il = guarded(impl_request, c, 1)
        seen.add(("req", c["kind"], order_tokens(c["order"]), num_tok(c["price"]), num_tok(c["qty"])))
        res = il.split(" # ")[2] if il.count(" # ") >= 2 else il[:40]
        inc("req:" + c["kind"] + ":" + ("ok" if res.startswith("ok") else res))
        if il != canon_request(ml):
            dis.append({"input": c, "model": ml, "impl": il})
    n_eval += len(rcases)

    jcases, jlines = [], []
    for label, v, t in views:
        if v["orig"] is None and rng.random() < 0.8:
            continue
        for _ in range(2):
            mt = rng.choice(["F", "G", "F", "G", "D"])
            tags = [(11, v["clord"]), (41, v["orig"] or "prev")]
            if rng.random() < 0.08:
                tags = tags[:1]
            c = {"kind": "cxlrej", "order": v, "req": (mt, tags + [(55, v["ticker"])]),
                 "status": rng.choice(STATS + ["X?"] if rng.random() < 0.1 else STATS), "schema": rng.random() < 0.5,
                 "members": rng.random() < 0.7}
            jcases.append(c)
            jlines.append(cxlrej_line(c))
    for c, ml in zip(jcases, drv.batch(jlines) if jlines else []):
        il, _m = guarded(impl_cxlrej, c, 2)
        seen.add(("cxlrej", order_tokens(c["order"]), c["status"], c["req"][0]))
        inc("cxlrej:" + ("ok" if il.startswith("ok") else il))
        if " # " in il:
            inc("cxlrej-proc:" + " ".join(il.split(" # ")[1].split(" ")[:2]))
        if il != ml:
            dis.append({"input": c, "model": ml, "impl": il})
    n_eval += len(jcases)

    # ---- (a4) session message factories ---------------------------------------------------------
    specs = session_specs(rng, ctx.n(60, 400))
    for sp, ml in zip(specs, drv.batch([msg_line(s) for s in specs])):
        il, _m = impl_msg(sp)
        seen.add(("msg",) + tuple(map(str, sp)))
        inc("msg:" + sp[0] + ":" + (il[-1] if not il.startswith("raised") else il))
        if sp[0] == "logon" and sp[1]:
            inc("msg:logon-keys:" + (sp[2] if len(sp) > 2 else "int"))
        if il != ml:
            dis.append({"input": {"kind": "msg", "spec": [list(x) if isinstance(x, tuple) else x for x in sp]}, "model": ml, "impl": il})
    n_eval += len(specs)

    # ---- (b) wiring ------------------------------------------------------------------------------
    w = W.correspondence(ctx, drv)
    dis += w["disagreements"]
    for k, n in w["branches"].items():
        branches[k] = branches.get(k, 0) + n
    n_eval += w["evaluations"]

    return {
        "evaluations": n_eval,
        "distinct_nontrivial": len(seen) + w["distinct"],
        "rule": "fabrication: order states = every state reached by %d random lives of real FIXNewOrderSingle objects driven "
        "with the real tester (new, pending-new, ack, partial fills, fill, cancel/replace request, pending, done, reject of the "
        "request, suspend, expire) plus 8%% hand-mutated states; × argument combinations (45%% natural next reports with 25%% "
        "near misses, 55%% free combinations over boundary values, foreign / empty ClOrdID, int and float numbers, enum members "
        "and plain strings), with and without the real schema; compared: tester counters, refusal site (source text of the "
        "failing assert), complete message, result of process_execution_report and the order afterwards; every message fabricated "
        "without schema also validated by the real FIXSchema vs the model's dictionary check; cancel rejects, cancel/replace "
        "requests and msg_* likewise; distinct = distinct (state, arguments, schema) tuples. wiring: %s"
        % (ctx.n(60, 600), w["rule"]),
        "samples": samples + w["samples"],
        "exhaustive": False,
        "branches": branches,
        "disagreements": dis,
    }


def session_specs(rng, n):
    out = [("logon", None), ("logout",), ("hb", None), ("hb", "TEST1"), ("testreq", "1700000000"), ("seqreset", 1, 12, False),
           ("seqreset", 5, 9, True), ("resend", 1, "0"), ("resend", 3, 7), ("logon", [(98, 0), (108, 5)]),
           ("logon", [(141, "Y")]), ("logon", [(108, "x")]), ("testreq", "a=b"), ("seqreset", 0, 5, False),
           ("seqreset", 1, 0, True), ("resend", 0, 0), ("hb", ""), ("logon", [(98, 9)])]
    for how in ("int", "str", "ftag", "mixed"):  # every key spelling × defaulted / not defaulted tags
        out += [("logon", [(108, 60)], how), ("logon", [(98, 0)], how), ("logon", [(98, 0), (108, 5), (553, "user")], how),
                ("logon", [(553, "user")], how), ("logon", [(141, "Y"), (108, 1)], how)]
    while len(out) < n:
        k = rng.choice(["logon", "hb", "testreq", "seqreset", "resend"])
        if k == "logon":
            ex = []
            if rng.random() < 0.5:
                ex.append((108, rng.choice([1, 30, 60, "5", "-3"])))
            if rng.random() < 0.4:
                ex.append((98, rng.choice([0, 1, "0", 7])))
            if rng.random() < 0.3:
                ex.append((141, rng.choice(["Y", "N", "X"])))
            if rng.random() < 0.3:
                ex.append((553, rng.choice(["user", "u=1"])))
            if rng.random() < 0.15:
                ex.append((554, "secret"))
            out.append(("logon", ex or None, rng.choice(["int", "str", "ftag", "mixed"])))
        elif k == "hb":
            out.append(("hb", rng.choice([None, "T", str(rng.randrange(10**9)), rng.randrange(10**6)])))
        elif k == "testreq":
            out.append(("testreq", rng.choice(["T1", rng.randrange(10**9), "x y"])))
        elif k == "seqreset":
            out.append(("seqreset", rng.choice([1, 5, 0, -1, 2**33]), rng.choice([1, 9, 0, "7", 2**40]), rng.random() < 0.5))
        else:
            out.append(("resend", rng.choice([1, 4, 0, -2]), rng.choice(["0", 0, 9, "x"])))
    return out


# ---------------------------------------------------------------------------------------------
# oracle (implementation only)
# ---------------------------------------------------------------------------------------------
FINISHED = {"2", "4", "8", "C"}
DICT_EXEC = set(EXECS)
DICT_STAT = set(STATS) - {"Z"}


def documented_tags(a):
    t = [11, 37, 17]
    if a["orig"]:
        t.append(41)
    t += [150, 39, 54, 14, 151]
    if a["last"] is not None:
        t.append(32)
    return t + [55, 44, 38, 6, 1]


def fab_clauses(case, out, msg, order_before):
    """clauses of the property on one accepted fabrication (implementation results only)"""
    a, v = case["args"], case["order"]
    tags = [(int(t), x) for t, x in msg.tags.items()]
    d = dict(tags)
    try:
        cum, lv, oq = float(d[14]), float(d[151]), float(d[38])
        if cum + lv > oq:
            yield ("C20-sum-exceeds-orderqty", f"CumQty {cum} + LeavesQty {lv} > OrderQty {oq}")
        if d[39] in FINISHED and lv != 0:
            yield ("C20-finished-leaves-nonzero", f"OrdStatus {d[39]} with LeavesQty {lv}")
    except (KeyError, ValueError) as e:
        yield ("C20-quantity-tags-unusable", repr(e))
    if [t for t, _ in tags] != documented_tags(a):
        yield ("C20-tags-not-the-documented-set", f"{[t for t, _ in tags]} vs {documented_tags(a)}")
    if d.get(17) != str(case["tester"]["ectr"] + 1):
        yield ("C20-execid-not-fresh", f"ExecID {d.get(17)} after counter {case['tester']['ectr']}")
    if v["oid"] is not None and d.get(37) != v["oid"]:
        yield ("C20-orderid-not-the-orders", f"order has OrderID {v['oid']}, report carries {d.get(37)}")
    typed_ok = a["exec"] in DICT_EXEC and a["status"] in DICT_STAT
    if typed_ok and not validates(msg):
        yield ("C20-fabricated-report-invalid", "accepted by the helper, refused by FIXSchema(FIX44.xml)")
    proc = out.split(" # ")[2]
    if proc.startswith("raised") and a["status"] in STATS:
        if a["clord"] not in (v["clord"], v["orig"]):
            yield ("C20-foreign-clordid-accepted",
                   "the helper fabricates a report with a ClOrdID that is neither the order's ClOrdID nor its OrigClOrdID; "
                   "process_execution_report raises FIXError on it")
        else:
            yield ("C20-process-raises:" + proc.split(" ")[1], "process_execution_report raised on a report fabricated for the order")


def oracle_fab(ctx, cases, failures, stats):
    for c in cases:
        out, msg, o = guarded(impl_fab, dict(c, schema=False), 3)
        stats["fabrications"] += 1
        if msg is None and out.startswith("raised"):
            failures.append({"signature": "C20-helper-foreign-exception:" + out.split(":")[0].split(" ")[-1], "what": "the helper or the "
                             "order object raised something unanticipated", "input": c, "observed": out})
            continue
        if msg is None and (c.get("nan", "singleton") != "singleton" or c.get("fresh")):
            out0, m0, _o0 = guarded(impl_fab, dict(c, schema=False, nan="singleton", fresh=False), 3)
            if out0 != out:
                failures.append({"signature": "C20-equal-arguments-differ", "what": "the same call with an equal but not identical "
                                 "argument object gives another result", "input": c, "expected": out0, "observed": out})
        if msg is None:
            if out.split(" # ")[1].startswith("refused exc:"):
                failures.append({"signature": "C20-helper-foreign-exception:" + out.split(" ")[-1], "what": "the helper raised something "
                                 "other than its assertions", "input": c, "observed": out})
            continue
        stats["accepted"] += 1
        if c.get("nan", "singleton") != "singleton" or c.get("fresh"):
            out0, _m0, _o0 = guarded(impl_fab, dict(c, schema=False, nan="singleton", fresh=False), 3)
            if out0 != out:
                failures.append({"signature": "C20-equal-arguments-differ", "what": "the same call with an equal but not identical "
                                 "argument object (another NaN object / a str built at run time) gives another result",
                                 "input": c, "expected": out0, "observed": out})
        for sig, what in fab_clauses(c, out, msg, o):
            failures.append({"signature": sig, "what": what, "input": c, "observed": out})
        # with the schema attached the helper must accept exactly the same dictionary-typed combinations
        a = c["args"]
        if a["exec"] in DICT_EXEC and a["status"] in DICT_STAT:
            out2, msg2, _ = guarded(impl_fab, dict(c, schema=True), 3)
            if msg2 is None:
                failures.append({"signature": "C20-fabricated-report-invalid", "what": "refused by the helper's own schema validation "
                                 "although every assertion passed", "input": dict(c, schema=True), "observed": out2})


def oracle_sequences(ctx, failures, stats, n):
    """ExecID freshness and OrderID stability over call sequences on ONE tester (refused calls included)"""
    from asyncfix import FIXTester
    from asyncfix.protocol.common import FExecType as X, FOrdStatus as St

    rng = ctx.rng
    for _ in range(n):
        views = []
        gen_flow(rng, views)
        orders = [make_order(v) for _, v, _ in rng.sample(views, min(3, len(views)))]
        ft = FIXTester(schema() if rng.random() < 0.5 else None)
        for o in orders:
            ft.order_register_single(o)
        last, ids = 0, {}
        script = []
        for _ in range(rng.randint(2, 10)):
            i = rng.randrange(len(orders))
            o = orders[i]
            a = gen_args(rng, view_of(o))
            had_oid = o.order_id is not None
            step = {"order": i, "args": a, "process": False}
            script.append(step)
            try:
                m = ft.fix_exec_report_msg(o, a["clord"], a["exec"], a["status"], cum_qty=nanf(a["cum"]),
                                           leaves_qty=nanf(a["leaves"]), last_qty=nanf(a["last"]), price=nanf(a["price"]),
                                           order_qty=nanf(a["oqty"]), orig_clord_id=a["orig"], avg_price=a["avg"])
            except Exception:  # noqa
                continue
            stats["sequence_reports"] += 1
            eid = int(m[17])
            if eid <= last:
                failures.append({"signature": "C20-execid-not-fresh", "what": f"ExecID {eid} after {last}",
                                 "input": {"kind": "seq", "views": [view_of(x) for x in orders], "script": script}, "observed": eid})
            last = eid
            if i in ids and ids[i][0] != m[37]:
                sig = "C20-orderid-unstable"
                failures.append({"signature": sig, "what": f"two reports for one order carry OrderID {ids[i][0]} and {m[37]}",
                                 "input": {"kind": "seq", "views": [view_of(x) for x in orders], "script": script},
                                 "observed": [ids[i][0], m[37]]})
            ids[i] = (m[37], had_oid)
            if rng.random() < 0.4:
                step["process"] = True
                try:
                    o.process_execution_report(m)
                except Exception:  # noqa
                    pass


WITNESS_ORDERID = {"kind": "orderid-witness"}
WITNESS_FOREIGN = {
    "kind": "fab", "label": "witness", "schema": False, "members": True,
    "order": {"clord": "c1--1", "orig": None, "oid": None, "qty": 10.0, "price": 100.0, "cum": 0.0, "leaves": 0.0,
              "avg": None, "status": "A", "side": "1", "ticker": "T", "ord_type": "2", "account": "000000", "cnt": 1},
    "tester": {"octr": 0, "ectr": 10000, "reg": ["c1--1"], "oids": {}},
    "args": {"clord": "zzz", "exec": "0", "status": "0", "cum": 0.0, "leaves": 10.0, "last": None, "price": None,
             "oqty": None, "orig": None, "avg": 0.0},
}


def run_orderid_witness():
    """D27 (repaired by e62ed38): two reports fabricated before the first is processed"""
    from asyncfix import FIXTester
    from asyncfix.protocol.common import FExecType as X, FOrdSide, FOrdStatus as St
    from asyncfix.protocol.order_single import FIXNewOrderSingle

    o = FIXNewOrderSingle("c1", "T", FOrdSide.BUY, 100.0, 10.0)
    ft = FIXTester()
    ft.order_register_single(o)
    m1 = ft.fix_exec_report_msg(o, o.clord_id, X.PENDING_NEW, St.PENDING_NEW)
    m2 = ft.fix_exec_report_msg(o, o.clord_id, X.NEW, St.NEW, cum_qty=0.0, leaves_qty=10.0)
    return m1[37], m2[37]


def run_orderid_witness2():
    """the same order before and after its ClOrdID changed (new_req), nothing processed in between"""
    from asyncfix import FIXTester
    from asyncfix.protocol.common import FExecType as X, FOrdSide, FOrdStatus as St
    from asyncfix.protocol.order_single import FIXNewOrderSingle

    o = FIXNewOrderSingle("c1", "T", FOrdSide.BUY, 100.0, 10.0)
    ft = FIXTester()
    ft.order_register_single(o)
    m1 = ft.fix_exec_report_msg(o, o.clord_id, X.PENDING_NEW, St.PENDING_NEW)
    with patched_time():
        o.new_req()
    ft.order_register_single(o)
    m2 = ft.fix_exec_report_msg(o, o.clord_id, X.NEW, St.NEW, cum_qty=0.0, leaves_qty=10.0)
    return m1[37], m2[37]


def oracle(ctx, disagreements, broken):
    from . import c20_wire as W

    failures = []
    stats = {"fabrications": 0, "accepted": 0, "sequence_reports": 0, "cxlrej": 0, "session_msgs": 0}
    # witnesses of the open findings, always
    a, b = run_orderid_witness()
    if a != b:
        failures.append({"signature": "C20-orderid-unstable",
                         "what": f"two reports fabricated before the first is processed carry OrderID {a} and {b}",
                         "input": WITNESS_ORDERID, "observed": [a, b]})
    a, b = run_orderid_witness2()
    if a != b:
        failures.append({"signature": "C20-orderid-unstable",
                         "what": f"reports for one order before and after new_req() carry OrderID {a} and {b}",
                         "input": {"kind": "orderid-witness2"}, "observed": [a, b]})
    oracle_fab(ctx, [WITNESS_FOREIGN], failures, stats)
    # disagreeing inputs first
    first = [d["input"] for d in disagreements if isinstance(d.get("input"), dict) and d["input"].get("kind") == "fab"]
    oracle_fab(ctx, first[:200], failures, stats)
    mult = 4 if broken else 1
    _views, cases = build_cases(ctx, ctx.n(30, 200) * mult, ctx.n(800, 6000) * mult)
    oracle_fab(ctx, cases, failures, stats)
    oracle_sequences(ctx, failures, stats, ctx.n(60, 600) * mult)
    oracle_cxlrej(ctx, failures, stats, ctx.n(40, 300) * mult)
    first_msgs = [d["input"]["spec"] for d in disagreements if isinstance(d.get("input"), dict) and d["input"].get("kind") == "msg"]
    oracle_session(ctx, failures, stats, [s for s in first_msgs if spec_is_valid(s)][:50])
    W.oracle(ctx, failures, stats, disagreements, broken)
    ctx.oracle_stats = dict(stats, failures=len(failures))
    return failures


def oracle_cxlrej(ctx, failures, stats, n):
    rng = ctx.rng
    views = []
    for _ in range(n):
        gen_flow(rng, views)
    for label, v, t in views:
        if v["orig"] is None:
            continue
        for st in DICT_STAT:
            mt = "F" if v["status"] == "6" else "G"
            c = {"kind": "cxlrej", "order": v, "req": (mt, [(11, v["clord"]), (41, v["orig"])]), "status": st, "schema": False}
            out, m = guarded(impl_cxlrej, c, 2)
            stats["cxlrej"] += 1
            if m is None:
                failures.append({"signature": "C20-cxlrej-refused", "what": "cancel reject for a valid request refused", "input": c,
                                 "observed": out})
                continue
            tags = [int(x) for x in m.tags]
            if tags != [37, 11, 41, 39, 434]:
                failures.append({"signature": "C20-cxlrej-tags", "what": f"tags {tags}", "input": c, "observed": out})
            d = dict((int(t), x) for t, x in m.tags.items())
            if d.get(434) != ("1" if mt == "F" else "2") or d.get(11) != v["clord"] or d.get(41) != v["orig"]:
                failures.append({"signature": "C20-cxlrej-inconsistent", "what": "CxlRejResponseTo / ClOrdID / OrigClOrdID do not "
                                 f"name the request: {d}", "input": c, "observed": out})
            if not validates(m):
                failures.append({"signature": "C20-cxlrej-invalid", "what": "cancel reject refused by FIXSchema(FIX44.xml)", "input": c,
                                 "observed": out})
            if " # raised" in out:
                failures.append({"signature": "C20-cxlrej-process-raises", "what": "process_cancel_rej_report raised", "input": c,
                                 "observed": out})


def spec_is_valid(sp):
    """arguments every dictionary field accepts (the oracle only judges these)"""
    k = sp[0]
    if k == "logon":
        ok = {98: {"0", "1", "2", "3", "4", "5", "6"}, 141: {"Y", "N"}}
        for t, v in (sp[1] or []):
            v = str(v)
            if t in ok and v not in ok[t]:
                return False
            if t == 108 and not re.fullmatch(r"-?[0-9]+", v):
                return False
            if t in (553, 554) and (not v or "=" in v):
                return False
            if t not in (98, 108, 141, 553, 554):
                return False
        return True
    if k == "hb":
        return sp[1] is None or (str(sp[1]) != "" and "=" not in str(sp[1]))
    if k == "testreq":
        return str(sp[1]) != "" and "=" not in str(sp[1])
    if k == "seqreset":
        return all(re.fullmatch(r"[0-9]+", str(x)) and int(x) > 0 for x in sp[1:3])
    if k == "resend":
        return re.fullmatch(r"[0-9]+", str(sp[1])) and int(sp[1]) > 0 and re.fullmatch(r"[0-9]+", str(sp[2]))
    return k == "logout"


GOOD_SPECS = [("logout",), ("hb", None), ("hb", "TEST"), ("hb", 1700000000), ("testreq", "T1"), ("testreq", 1700000000),
              ("seqreset", 1, 12, False), ("seqreset", 7, 9, True), ("seqreset", "3", "4", True), ("resend", 1, "0"), ("resend", 3, 7),
              ("resend", "2", 0), ("logon", None)] + [
    ("logon", ex, how) for how in ("int", "str", "ftag", "mixed")
    for ex in ([(108, 5)], [(98, 0)], [(98, 0), (108, 60)], [(553, "user")], [(108, 60), (553, "user"), (554, "pw")], [(141, "Y")])]


def session_clauses(sp):
    """a valid specification must give a message that validates and carries the caller's values"""
    out, m = impl_msg(tuple(sp))
    if m is None:
        yield ("C20-session-msg-raises:" + sp[0] + ":" + out.split(" ")[-1], "msg_* raised on valid arguments", out)
        return
    if out.endswith("0"):
        yield ("C20-session-msg-invalid:" + sp[0], "msg_* result refused by FIXSchema(FIX44.xml)", out)
    if sp[0] == "logon":
        d = {int(t): v for t, v in m.tags.items()}
        want = dict([(98, "0"), (108, "30")] + [(t, str(v)) for t, v in (sp[1] or [])])
        if d != want:
            yield ("C20-session-msg-values:logon", f"Logon carries {d}, expected {want}", out)


def oracle_session(ctx, failures, stats, first=()):
    for sp in list(first) + GOOD_SPECS:
        stats["session_msgs"] += 1
        for sig, what, out in session_clauses(sp):
            failures.append({"signature": sig, "what": what, "input": {"kind": "msg", "spec": [list(x) if isinstance(x, tuple) else x for x in sp]},
                             "observed": out})
    oracle_queries(failures, stats)


def oracle_queries(failures, stats):
    """acceptor_sent_query / initiator_sent_query with every spelling of the tags"""
    from asyncfix import FIXMessage, FIXTester

    ft = FIXTester()
    m = FIXMessage("8", {35: "8", 34: 7, 11: "c1", 58: "text"})
    ft.acceptor_sent.append(m)
    ft.initiator_sent.append(m)
    for how in ("int", "str", "ftag"):
        for q in (ft.acceptor_sent_query, ft.initiator_sent_query):
            stats["session_msgs"] += 1
            try:
                r = q(tuple(spell(t, how) for t in (35, 34, 58)))
                got = sorted(str(v) for v in r.values())
            except Exception as e:  # noqa
                got = "raised " + type(e).__name__
            if got != ["7", "8", "text"]:
                failures.append({"signature": "C20-sent-query:" + how, "what": f"query with {how} keys returned {got}",
                                 "input": {"kind": "query", "how": how}, "observed": got})


def replay(ctx, rp):
    from . import c20_wire as W

    inp = rp["input"]
    sig = rp["signature"]
    fails, stats = [], {"fabrications": 0, "accepted": 0, "sequence_reports": 0, "cxlrej": 0, "session_msgs": 0}
    kind = inp.get("kind") if isinstance(inp, dict) else None
    if kind == "fab":
        oracle_fab(ctx, [inp], fails, stats)
    elif kind == "orderid-witness":
        a, b = run_orderid_witness()
        print("replay: OrderIDs", a, b)
        return a != b
    elif kind == "orderid-witness2":
        a, b = run_orderid_witness2()
        print("replay: OrderIDs", a, b)
        return a != b
    elif kind == "cxlrej":
        out, m = impl_cxlrej(inp)
        print("replay:", out)
        d = dict((int(t), x) for t, x in m.tags.items()) if m is not None else {}
        bad_echo = m is not None and (d.get(434) != ("1" if inp["req"][0] == "F" else "2"))
        return m is None or " # raised" in out or not validates(m) or bad_echo
    elif kind == "msg":
        sp = [tuple(x) if isinstance(x, list) and x and not isinstance(x[0], list) else x for x in inp["spec"]]
        if sp[0] == "logon" and sp[1]:
            sp[1] = [tuple(x) for x in sp[1]]
        sigs = [s_ for s_, _w, _o in session_clauses(sp)]
        print("replay:", sigs)
        return sig in sigs
    elif kind == "query":
        oracle_queries(fails, stats)
    elif kind == "seq":
        return replay_seq(inp, sig)
    elif kind == "script":
        return W.replay(ctx, inp, sig)
    sigs = [f["signature"] for f in fails]
    print("replay:", sigs)
    return sig in sigs


def replay_seq(inp, sig):
    from asyncfix import FIXTester

    orders = [make_order(v) for v in inp["views"]]
    ft = FIXTester()
    for o in orders:
        ft.order_register_single(o)
    last, ids, bad = 0, {}, False
    for st in inp["script"]:
        o, a = orders[st["order"]], st["args"]
        try:
            m = ft.fix_exec_report_msg(o, a["clord"], a["exec"], a["status"], cum_qty=nanf(a["cum"]), leaves_qty=nanf(a["leaves"]),
                                       last_qty=nanf(a["last"]), price=nanf(a["price"]), order_qty=nanf(a["oqty"]),
                                       orig_clord_id=a["orig"], avg_price=a["avg"])
        except Exception:  # noqa
            continue
        if int(m[17]) <= last or (st["order"] in ids and ids[st["order"]] != m[37]):
            bad = True
        last = int(m[17])
        ids[st["order"]] = m[37]
        if st.get("process"):
            try:
                o.process_execution_report(m)
            except Exception:  # noqa
                pass
    print("replay: sequence", "fails" if bad else "passes")
    return bad
