"""C16 – order status transition function.  DESIGN.md §6 C16.

tie:    translator (AST of change_status -> Generated/OrderTable.lean) + complete extensional
        comparison of change_status with the Lean interpreter over the finite domain
oracle: the property's clauses evaluated on the implementation alone over the same domain
"""
from __future__ import annotations

import itertools

from . import common as C

PROP = "C16"
PROPS_MODULES = ["AsyncFix.Props.C16"]
FINDINGS_MODULE = "AsyncFix.Findings.C16"
ASSUMPTIONS = [
    "enum members and other Python objects are modelled by strings: members by their value (they hash and "
    "compare by value), every other object (the int 0 'omitted' marker, None, unknown strings) by a string that is no table key",
]
MODELLED_NOT_VERIFIED = [
    "C16: the last 25 lines of change_status (dict.get with default, the exec_type sub-table, the raise_on_err switch) "
    "are hand-modelled as Model/OrderTable.lean and compared extensionally on the whole domain every run",
]


def domain():
    from asyncfix import FMsg
    from asyncfix.protocol.common import FExecType, FOrdStatus

    statuses = list(FOrdStatus) + ["X?"]
    kinds = [FMsg.EXECUTIONREPORT, FMsg.ORDERCANCELREJECT, FMsg.ORDERCANCELREQUEST,
             FMsg.ORDERCANCELREPLACEREQUEST, FMsg.NEWORDERSINGLE]
    execs = list(FExecType) + [0]
    reps = list(FOrdStatus) + ["X?"]
    return statuses, kinds, execs, reps


def mstr(o, as_str):
    """model string of a Python argument"""
    import enum

    if isinstance(o, enum.Enum):
        return str(o.value)
    if isinstance(o, str):
        return o
    return f"<{type(o).__name__}:{o!r}>"


def call_impl(status, kind, ex, rep, mode):
    from asyncfix.errors import FIXError
    from asyncfix.protocol.order_single import FIXNewOrderSingle

    try:
        if mode == "default":
            r = FIXNewOrderSingle.change_status(status, kind, ex, rep)        # the documented default: raise
        elif mode == "positional":
            r = FIXNewOrderSingle.change_status(status, kind, ex, rep, True)
        else:
            r = FIXNewOrderSingle.change_status(status, kind, ex, rep, raise_on_err=mode)
    except FIXError:
        return "raised"
    except Exception as e:  # noqa
        return f"exc:{type(e).__name__}"
    if r is None:
        return "none"
    return "to " + C.hx(mstr(r, False))


def cases():
    import enum

    statuses, kinds, execs, reps = domain()
    for as_str in (False, True):
        def v(o):
            return str(o.value) if (as_str and isinstance(o, enum.Enum)) else o
        for s, k, e, r, m in itertools.product(statuses, kinds, execs, reps, (True, False)):
            yield (v(s), v(k), v(e), v(r), m)
        # the same table reached through the other calling conventions of the flag (omitted = raise; positional)
        for s, k, e, r in itertools.product(statuses, kinds, execs[:3] + execs[-1:], reps):
            yield (v(s), v(k), v(e), v(r), "default")
            yield (v(s), v(k), v(e), v(r), "positional")


def correspondence(ctx):
    drv = C.Driver()
    cs = list(cases())
    lines = [
        "ord.cs %s %s %s %s %d" % (C.hx(mstr(s, 0)), C.hx(mstr(k, 0)), C.hx(mstr(e, 0)), C.hx(mstr(r, 0)), 1 if m else 0)   # "default" / "positional" are truthy: raise mode
        for (s, k, e, r, m) in cs
    ]
    model = drv.batch(lines)
    dis, seen, branches = [], set(), {}
    for c, ml in zip(cs, model):
        il = call_impl(*c)
        key = (mstr(c[0], 0), mstr(c[1], 0), mstr(c[2], 0), mstr(c[3], 0), c[4])
        seen.add(key)
        b = il.split(" ")[0]
        branches[b] = branches.get(b, 0) + 1
        if il != ml:
            dis.append({"input": [repr(x) for x in c], "model": ml, "impl": il})
    return {
        "evaluations": len(cs),
        "distinct_nontrivial": len(seen),
        "rule": "complete product of 15 FOrdStatus members + one unknown string, kinds 8/9/F/G + unsupported D, "
        "17 FExecType members + the int 0 'omitted' marker, 15 reported statuses + unknown, both raise_on_err modes; "
        "once with enum members and once with their plain string values; distinct = distinct model-level tuples "
        "(every tuple is non-trivial: each selects a table cell)",
        "samples": [{"input": [repr(x) for x in cs[i]], "model": model[i]} for i in (0, 777, 20011, len(cs) - 1)],
        "exhaustive": True,
        "branches": branches,
        "disagreements": dis,
    }


FINISHED = {"2", "4", "8", "C"}
LIVE = {"0", "1", "9"}
PENDING_REQ = {"6", "E"}


def clauses(c, res):
    """property clauses on one implementation result; yields (signature, what)"""
    s, k, e, r, m = (mstr(c[0], 0), mstr(c[1], 0), mstr(c[2], 0), mstr(c[3], 0), c[4])
    to = C.unhx(res[3:]).decode() if res.startswith("to ") else None
    supported = k in ("8", "9", "F", "G")
    if res.startswith("exc:"):
        yield (f"C16-foreign-exception:{res}", "an exception other than the library's order error")
        return
    if to is not None and to != r:
        yield ("C16-result-not-reported-status", "returned a status that is not the reported one")
    if res == "raised" and not m:
        if not supported:
            yield ("C16-unsupported-kind-raises", "unsupported message kind raises although raise_on_err=False")
        else:
            yield (f"C16-raises-in-silent-mode:{k}", "raises although raise_on_err=False")
    if s in FINISHED and to is not None:
        yield (f"C16-finished-not-absorbing:{s}:{k}", f"finished status {s} left by kind {k}")
    if k in ("8", "9") and to == "Z":
        yield (f"C16-back-to-created:{k}", "report moved the order back to CREATED")
    if k in ("8", "9") and to == "A" and s != "Z" and s not in FINISHED:
        if k == "9":
            yield ("C16-kind9-pending-new", "OrderCancelReject reporting PENDING_NEW moves an acknowledged order to PENDING_NEW")
        else:
            yield (f"C16-ack-to-pending-new:{s}", "execution report moved an acknowledged order to PENDING_NEW")
    if s == "Z" and to is not None and to not in ("A", "8"):
        yield (f"C16-created-accepts:{k}:{to}", "created order accepted something other than PENDING_NEW / REJECTED")
    if k in ("F", "G"):
        if s in LIVE:
            want = "to " + C.hx(r)
        elif s in PENDING_REQ:
            want = "none"
        else:
            want = "raised" if m else "none"
        if res != want:
            yield (f"C16-request-gate:{s}:{k}", f"cancel/replace gate: expected {want}")


def object_cases():
    """every public entry point of the order OBJECT that applies the transition function, from every status"""
    from asyncfix.protocol.common import FExecType, FOrdStatus

    for s in FOrdStatus:
        for orig in (False, True):
            for r in FOrdStatus:
                for e in FExecType:
                    yield (s.value, orig, "exec", e.value, r.value)
                yield (s.value, orig, "cxlrej", "0", r.value)
            for entry in ("cancel_req", "replace_req", "can_cancel", "can_replace", "is_finished"):
                if orig and entry.endswith("_req"):
                    continue        # a request while another is in flight is outside the builders' precondition (C17)
                yield (s.value, orig, entry, "0", "0")
                # the same entry points for every kind of order the constructor accepts (OrdType member / its plain
                # string, other sides): the transition function does not look at them, so neither may the object
                for j, ot in enumerate(ORD_TYPES()):
                    yield (s.value, orig, entry, "0", "0", ot, ("1", "2", "5")[j % 3])


def ORD_TYPES():
    from asyncfix.protocol.common import FOrdType

    return list(FOrdType) + [m.value for m in FOrdType]


def object_call(c):
    """(status after, outcome) of one entry point on a fresh order object put into status s"""
    from asyncfix import FIXMessage, FMsg
    from asyncfix.errors import FIXError
    from asyncfix.protocol.common import FOrdStatus
    from asyncfix.protocol.order_single import FIXNewOrderSingle

    s, orig, entry, e, r = c[:5]
    if len(c) > 5:
        o = FIXNewOrderSingle("root", "TICK", c[6], 10.0, 5.0, ord_type=c[5])
    else:
        o = FIXNewOrderSingle("root", "TICK", "1", 10.0, 5.0)
    o.status = FOrdStatus(s)
    if orig:
        o.clord_id, o.orig_clord_id = "root--2", "root--1"
    try:
        if entry == "exec":
            m = FIXMessage(FMsg.EXECUTIONREPORT, {11: o.clord_id, 14: "0", 39: r, 150: e, 151: "5", 37: "X1", 6: "0"})
            out = o.process_execution_report(m)
        elif entry == "cxlrej":
            m = FIXMessage(FMsg.ORDERCANCELREJECT, {11: o.clord_id, 41: o.orig_clord_id or "root", 39: r, 37: "X1", 434: "1"})
            out = o.process_cancel_rej_report(m)
        elif entry == "cancel_req":
            out = o.cancel_req() is not None
        elif entry == "replace_req":
            out = o.replace_req(price=11.0) is not None
        else:
            out = getattr(o, entry)()
    except FIXError:
        out = "FIXError"
    except Exception as ex:  # noqa: BLE001
        out = "exc:" + type(ex).__name__
    st = o.status
    return (str(st.value) if isinstance(st, FOrdStatus) else repr(st)), out


def object_clauses(c, after, out):
    from asyncfix import FMsg
    from asyncfix.protocol.order_single import FIXNewOrderSingle

    s, orig, entry, e, r = c[:5]
    if isinstance(out, str) and out.startswith("exc:"):
        yield (f"C16-object-foreign-exception:{entry}:{out[4:]}", "an entry point of the order object raised something other than the order error")
        return
    if s in FINISHED and after != s:
        yield (f"C16-object-finished-left:{entry}", f"finished status {s} left through {entry} (now {after})")
    if after == "Z" and s != "Z":
        yield (f"C16-object-back-to-created:{entry}", f"{entry} moved the order back to CREATED from {s}")
    kind = {"exec": FMsg.EXECUTIONREPORT, "cxlrej": FMsg.ORDERCANCELREJECT, "cancel_req": FMsg.ORDERCANCELREQUEST,
            "replace_req": FMsg.ORDERCANCELREPLACEREQUEST}.get(entry)
    if kind is None:
        if after != s:
            yield (f"C16-object-query-changes-status:{entry}", f"{entry}() changed the status {s} -> {after}")
        if entry in ("can_cancel", "can_replace"):
            # the object's answer is the transition function's gate for its status - nothing else (not whether an
            # OrigClOrdID happens to be set, not the history)
            k2, rep2 = (FMsg.ORDERCANCELREQUEST, "6") if entry == "can_cancel" else (FMsg.ORDERCANCELREPLACEREQUEST, "E")
            try:
                gate = FIXNewOrderSingle.change_status(s, k2, 0, rep2, raise_on_err=False) is not None
            except Exception:  # noqa: BLE001
                return
            if out is not gate:
                yield (f"C16-object-gate-differs-from-transition:{entry}",
                       f"{entry}() = {out!r} for status {s} (OrigClOrdID {'set' if orig else 'unset'}), the transition function says {gate}")
        return
    if entry in ("exec", "cxlrej"):
        rep, ex = r, (e if entry == "exec" else 0)
    else:
        rep, ex = ("6" if entry == "cancel_req" else "E"), 0
    try:
        t = FIXNewOrderSingle.change_status(s, kind, ex, rep, raise_on_err=False)
    except Exception:  # noqa: BLE001
        return
    want = s if t is None else mstr(t, 0)
    if out == "FIXError":
        want = s
    if after != want:
        yield (f"C16-object-status-differs-from-transition:{entry}", f"from {s} via {entry}({e},{r}): transition function gives {want}, object is {after}")


def oracle(ctx, disagreements, broken):
    failures, n = [], 0
    nobj = 0
    for c in object_cases():
        after, out = object_call(c)
        nobj += 1
        for sig, what in object_clauses(c, after, out):
            failures.append({"signature": sig, "what": what, "input": ["object"] + list(c), "observed": [after, str(out)]})
    for c in cases():
        res = call_impl(*c)
        n += 1
        for sig, what in clauses(c, res):
            failures.append({"signature": sig, "what": what, "input": [mstr(x, 0) if not isinstance(x, bool) else x for x in c],
                             "observed": res})
    ctx.oracle_stats = {"evaluations": n, "object_level_calls": nobj, "failures": len(failures), "exhaustive": True}
    return failures


def replay(ctx, rp):
    import enum
    if rp["input"] and rp["input"][0] == "object":
        c = tuple(rp["input"][1:])
        after, out = object_call(c)
        sigs = [sig for sig, _ in object_clauses(c, after, out)]
        print("replay:", rp["input"], "->", after, out, sigs)
        return rp["signature"] in sigs
    s, k, e, r, m = rp["input"]
    # model strings of non-string markers are mapped back
    def back(x):
        return 0 if x == "<int:0>" else x
    res = call_impl(back(s), back(k), back(e), back(r), m)
    sigs = [sig for sig, _ in clauses((back(s), back(k), back(e), back(r), m), res)]
    print("replay:", rp["input"], "->", res, sigs)
    return rp["signature"] in sigs
