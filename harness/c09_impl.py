"""C09 implementation side: the REAL AsyncFIXConnection over a SQLite FILE journal, really discarded and
rebuilt (`restart`), with kill points inside handlers.

A kill is a BaseException raised from a hooked call site (journal persist / commit / set_seq_num, transport
write / drain, on_message callback).  Once raised, EVERY later hooked call raises it again before doing
anything, so code that still runs while the exception propagates (`finally: _finalize_message`) can have no
durable or observable effect – as after a real process death.  Then the journal connection is rolled back
and closed without commit and a new Journaler + connection object are built over the same file.

Site labels (in the order they occur within one event):
  PO- POc PO+   persist_msg(OUTBOUND): before the call / at its commit (not committed) / after it
  PI- PIc PI+   persist_msg(INBOUND)
  Q-  Qc  Q+    set_seq_num
  W-  W+        transport write (W+ = bytes handed to the transport)
  N-  N+        transport drain
  M-  M+        on_message callback (M+ = callback returned)
Nothing here calls the Lean model.
"""
from __future__ import annotations

import os

from . import sess_common as S


class Kill(BaseException):
    pass


class _ConnProxy:
    """stands in for Journaler.conn: commit() is a kill site"""

    def __init__(self, real, impl):
        self._real, self._impl = real, impl

    def commit(self):
        op = self._impl.cur_op
        if op is not None:
            self._impl.site(op + "c")
        return self._real.commit()

    def __getattr__(self, name):
        return getattr(self._real, name)


class _KWriter:
    def __init__(self, impl):
        self.impl = impl

    def write(self, b):
        self.impl.site("W-")
        self.impl.eff.append(("W", bytes(b)))
        self.impl.wire.append((self.impl.incarnation, bytes(b)))
        self.impl.site("W+")

    async def drain(self):
        self.impl.site("N-")
        self.impl.site("N+")

    def close(self):
        if self.impl.killed:
            raise Kill()
        self.impl.eff.append(("CS",))

    async def wait_closed(self):
        pass

    def get_extra_info(self, *_):
        return None


class RImpl(S.Impl):
    """S.Impl over a file journal; `restart()` rebuilds journaler and connection from the file."""

    def __init__(self, tmpdir):
        super().__init__()
        from asyncfix.journaler import Journaler
        from asyncfix.protocol import FIXProtocol44

        class FileJournaler(Journaler):
            def __del__(self):
                try:
                    Journaler.__del__(self)
                except Exception:
                    pass

        self.FileJournaler, self.Proto = FileJournaler, FIXProtocol44
        self.tmpdir, self.nfile = tmpdir, 0
        self.wire = []          # every transport write of every incarnation: (incarnation, bytes)
        self.incarnation = 0
        self.plan, self.nsite, self.sites, self.killed, self.cur_op = None, 0, [], False, None
        self.kill_label = None
        self.writer = _KWriter(self)
        self.new_file()

    # ---- kill sites -------------------------------------------------------------------------
    def site(self, label):
        if self.killed:
            raise Kill()
        i = self.nsite
        self.nsite += 1
        self.sites.append(label)
        if self.plan is not None and i == self.plan:
            self.killed, self.kill_label, self.kill_eff = True, label, len(self.eff)
            raise Kill()

    def arm(self, plan=None):
        self.plan, self.nsite, self.sites, self.killed, self.cur_op, self.kill_label = plan, 0, [], False, None, None

    def _hook(self):
        """wrap the journal / callback entry points of the CURRENT journaler and connection"""
        impl, j, c = self, self.journal, self.conn
        inbound = self.MD.INBOUND
        persist, setseq = j.persist_msg, j.set_seq_num

        def persist_msg(msg, session, direction):
            lab = "PI" if direction == inbound else "PO"
            impl.site(lab + "-")
            impl.cur_op = lab
            try:
                persist(msg, session, direction)
            finally:
                impl.cur_op = None
            impl.site(lab + "+")

        def set_seq_num(session, next_num_out=None, next_num_in=None):
            impl.site("Q-")
            impl.cur_op = "Q"
            try:
                setseq(session, next_num_out=next_num_out, next_num_in=next_num_in)
            finally:
                impl.cur_op = None
            impl.site("Q+")

        j.persist_msg, j.set_seq_num = persist_msg, set_seq_num
        j.conn = _ConnProxy(j.conn, self)
        eff = self.eff

        async def on_message(msg):
            impl.site("M-")
            eff.append(("D", msg))
            impl.site("M+")

        c.on_message = on_message

    # ---- journal file life cycle ---------------------------------------------------------------
    def _drop(self):
        """what a process death leaves: the open transaction is lost, nothing else of the object survives"""
        j = getattr(self, "journal", None)
        if j is None:
            return
        if not isinstance(j, self.FileJournaler):  # the in-memory journal S.Impl starts with
            self.journal = None
            self.conn = None
            return
        real = j.conn._real if isinstance(j.conn, _ConnProxy) else j.conn
        try:
            real.rollback()
            j.cursor.close()
            real.close()
        except Exception:
            pass
        self.journal = None
        self.conn = None

    def new_file(self):
        """fresh journal file + fresh object (start of a new history)"""
        self._drop()
        if self.nfile:
            try:
                os.unlink(self.path)
            except OSError:
                pass
        self.nfile += 1
        self.path = os.path.join(self.tmpdir, f"journal{self.nfile}.db")
        self.journal = self.FileJournaler(self.path)
        self.conn = self.Conn(self.Proto(), "S", "T", self.journal, "h", 1, 30, logger=self.log)
        self.key = self.conn._session.key
        self.incarnation += 1
        self._hook()
        self.arm(None)

    def restart(self, role):
        """discard the object, rebuild journaler + connection over the same file.
        role 1 = AsyncFIXClient, 2 = AsyncFIXDummyServer, 0 = bare AsyncFIXConnection (constructors really run)."""
        old = self.conn
        s = old._session
        sender, target, hb = s.sender_comp_id, s.target_comp_id, old._heartbeat_period
        self._drop()
        self.journal = self.FileJournaler(self.path)
        cls = {1: self.ClientConn, 2: self.ServerConn}.get(role, self.Conn)
        c = cls(self.Proto(), sender, target, self.journal, "h", 1, hb, logger=self.log)
        c.__class__ = self.Conn
        self.conn = c
        assert c._session.key == self.key, "session row changed"
        self.incarnation += 1
        self._hook()
        self.arm(None)
        del self.eff[:]
        return self.dump()

    def close(self):
        self._drop()
        super().close()

    # ---- events with kills ------------------------------------------------------------------------
    def run_event(self, sr, ev, plan=None):
        """apply one event; returns (effects, killed?).  With `plan` = site index the event is killed there."""
        del self.eff[:]
        self.arm(plan)
        try:
            self.apply(sr, ev)
        except Kill:
            pass
        if self.killed:
            # callbacks that still ran while the kill propagated (`finally: _finalize_message`) saw a dead process
            del self.eff[self.kill_eff:]
        eff = self.effects()
        return eff, self.killed

    def effects(self):
        return super().effects()
