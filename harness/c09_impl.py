"""C09 implementation side: the REAL AsyncFIXConnection over a SQLite FILE journal, really discarded and
rebuilt (`restart`), with kill points inside handlers.

A kill is a BaseException raised from a hooked call site (journal persist / commit / set_seq_num, transport
write / drain, on_message callback).  Once raised, EVERY later hooked call raises it again before doing
anything, so code that still runs while the exception propagates (`finally: _finalize_message`) can have no
durable or observable effect – as after a real process death.  Then the journal connection is rolled back
and closed without commit and a new Journaler + connection object are built over the same file.

Site labels (in the order they occur within one event):
  PO- POc PO+   persist_msg(OUTBOUND): before the call / at its commit (not committed) / after it
  PI- PIc PI+   persist_msg(INBOUND)
  Q-  Qc  Q+    set_seq_num
  W-  W+        transport write (W+ = bytes handed to the transport)
  N-  N+        transport drain
  M-  M+        on_message callback (M+ = callback returned)
Further dimensions (round 4):
  * MULTIPLICITY – `new_file(others=[…])` puts further sessions (their own CompIDs, counters and rows:
    ahead of / behind / interleaved with the endpoint's) into the SAME journal file, before or after the
    endpoint's own session row; `others_snapshot()` reads them back (they must never change);
  * CONFIG – `restart(role, mode)`: mode "file" = journaler closed without commit and reopened from the file
    (process death), mode "object" = only the connection object is rebuilt over the SAME live Journaler
    (file or in-memory); role 1 / 2 / 0 = AsyncFIXClient / AsyncFIXDummyServer / base constructor;
  * BYTES – `feed_bytes(chunks)` hands raw chunks to the library's own `socket_read_task` (receive buffer,
    decoder, `_process_message`), a final `b""` is the peer's death.
  * FAULTS (round 5) – `arm_fault(site, k, exc)`: the k-th call (from now) of a collaborator raises ONCE and then
    works again: site "M" on_message (the delivery is recorded first: the callback WAS called), "S" on_state_change,
    "L" on_logon, "N" transport drain, "W" transport write; exc "exception" (RuntimeError), "reset"
    (ConnectionResetError), "cancel" (asyncio.CancelledError – BaseException), "interrupt" (a KeyboardInterrupt-like
    BaseException).  Unlike a kill the process lives on: `finally` clauses run and the journal keeps working.
Nothing here calls the Lean model.
"""
from __future__ import annotations

import os

from . import sess_common as S


class Kill(BaseException):
    pass


class Interrupt(BaseException):
    """a KeyboardInterrupt-like error raised by a collaborator"""


class _ConnProxy:
    """stands in for Journaler.conn: commit() is a kill site"""

    def __init__(self, real, impl):
        self._real, self._impl = real, impl

    def commit(self):
        op = self._impl.cur_op
        if op is not None:
            self._impl.site(op + "c")
        return self._real.commit()

    def __getattr__(self, name):
        return getattr(self._real, name)


class _KWriter:
    def __init__(self, impl):
        self.impl = impl

    def write(self, b):
        self.impl.fault_point("W")
        self.impl.site("W-")
        self.impl.eff.append(("W", bytes(b)))
        self.impl.wire.append((self.impl.incarnation, bytes(b)))
        self.impl.site("W+")

    async def drain(self):
        self.impl.site("N-")
        self.impl.fault_point("N")
        self.impl.site("N+")

    def close(self):
        if self.impl.killed:
            raise Kill()
        self.impl.eff.append(("CS",))

    async def wait_closed(self):
        pass

    def get_extra_info(self, *_):
        return None


class RImpl(S.Impl):
    """S.Impl over a file journal; `restart()` rebuilds journaler and connection from the file."""

    def __init__(self, tmpdir):
        super().__init__()
        from asyncfix.journaler import Journaler
        from asyncfix.protocol import FIXProtocol44

        class FileJournaler(Journaler):
            def __del__(self):
                try:
                    Journaler.__del__(self)
                except Exception:
                    pass

        self.FileJournaler, self.Proto = FileJournaler, FIXProtocol44
        self.tmpdir, self.nfile = tmpdir, 0
        self.wire = []          # every transport write of every incarnation: (incarnation, bytes)
        self.incarnation = 0
        self.plan, self.nsite, self.sites, self.killed, self.cur_op = None, 0, [], False, None
        self.kill_label = None
        self.fault, self.fault_fired = None, False
        self.writer = _KWriter(self)
        self.new_file()

    # ---- kill sites -------------------------------------------------------------------------
    def site(self, label):
        if self.killed:
            raise Kill()
        i = self.nsite
        self.nsite += 1
        self.sites.append(label)
        if self.plan is not None and i == self.plan:
            self.killed, self.kill_label, self.kill_eff = True, label, len(self.eff)
            raise Kill()

    def arm_fault(self, site=None, k=0, exc="exception"):
        """the k-th call from now of collaborator `site` raises once (None = disarm)"""
        self.fault = None if site is None else {"site": site, "k": k, "exc": exc, "seen": 0}
        self.fault_fired = False

    def fault_point(self, site):
        f = getattr(self, "fault", None)
        if not f or f["site"] != site:
            return
        f["seen"] += 1
        if f["seen"] - 1 == f["k"]:
            self.fault = None
            self.fault_fired = True
            import asyncio
            raise {"exception": RuntimeError("collaborator failed"), "reset": ConnectionResetError("reset by peer"),
                   "cancel": asyncio.CancelledError(), "interrupt": Interrupt()}[f["exc"]]

    def arm(self, plan=None):
        self.plan, self.nsite, self.sites, self.killed, self.cur_op, self.kill_label = plan, 0, [], False, None, None

    def _hook(self):
        """wrap the journal / callback entry points of the CURRENT journaler and connection"""
        impl, j, c = self, self.journal, self.conn
        inbound = self.MD.INBOUND
        persist, setseq = j.persist_msg, j.set_seq_num
        self._orig_persist, self._orig_setseq = persist, setseq

        def persist_msg(msg, session, direction):
            lab = "PI" if direction == inbound else "PO"
            impl.site(lab + "-")
            impl.cur_op = lab
            try:
                persist(msg, session, direction)
            finally:
                impl.cur_op = None
            impl.site(lab + "+")

        def set_seq_num(session, next_num_out=None, next_num_in=None):
            impl.site("Q-")
            impl.cur_op = "Q"
            try:
                setseq(session, next_num_out=next_num_out, next_num_in=next_num_in)
            finally:
                impl.cur_op = None
            impl.site("Q+")

        j.persist_msg, j.set_seq_num = persist_msg, set_seq_num
        j.conn = _ConnProxy(j.conn, self)
        eff = self.eff

        async def on_message(msg):
            impl.site("M-")
            eff.append(("D", msg))
            impl.fault_point("M")
            impl.site("M+")

        async def on_state_change(state):
            eff.append(("S", int(state)))
            impl.fault_point("S")

        async def on_logon(healthy):
            eff.append(("L", bool(healthy)))
            impl.fault_point("L")

        c.on_message, c.on_state_change, c.on_logon = on_message, on_state_change, on_logon

    # ---- journal file life cycle ---------------------------------------------------------------
    def _drop(self):
        """what a process death leaves: the open transaction is lost, nothing else of the object survives"""
        j = getattr(self, "journal", None)
        if j is None:
            return
        if not isinstance(j, self.FileJournaler):  # the in-memory journal S.Impl starts with
            self.journal = None
            self.conn = None
            return
        real = j.conn._real if isinstance(j.conn, _ConnProxy) else j.conn
        try:
            real.rollback()
            j.cursor.close()
            real.close()
        except Exception:
            pass
        self.journal = None
        self.conn = None

    def new_file(self, others=None, others_first=False, memory=False):
        """fresh journal (file, or in-memory) + fresh object (start of a new history).
        others: [{"sender","target","out","inb","out_rows":[(seq,(mtype,fields))],"in_rows":[…]}] – further
        sessions living in the same journal; others_first: their session rows are created before ours."""
        self._drop()
        if self.nfile:
            try:
                os.unlink(self.path)
            except OSError:
                pass
        self.nfile += 1
        self.memory = memory
        self.path = os.path.join(self.tmpdir, f"journal{self.nfile}.db")
        self.journal = self.FileJournaler(None if memory else self.path)
        self.others = list(others or [])
        if others_first:
            self._insert_other_sessions()
        self.conn = self.Conn(self.Proto(), "S", "T", self.journal, "h", 1, 30, logger=self.log)
        self.key = self.conn._session.key
        if not others_first:
            self._insert_other_sessions()
        self._insert_other_rows()
        self.incarnation += 1
        self._hook()
        self.arm(None)

    # ---- other sessions in the same journal -------------------------------------------------------
    def _insert_other_sessions(self):
        j = self.journal
        for o in self.others:
            sess = j.create_or_load(o["target"], o["sender"])
            o["key"] = sess.key
            j.cursor.execute("UPDATE session SET outboundSeqNo=?, inboundSeqNo=? WHERE sessionId=?",
                             (o["out"], o["inb"], sess.key))
        real = j.conn._real if isinstance(j.conn, _ConnProxy) else j.conn
        real.commit()

    def _insert_other_rows(self):
        j = self.journal
        for o in self.others:
            for rows, d in ((o["out_rows"], self.MD.OUTBOUND), (o["in_rows"], self.MD.INBOUND)):
                for seq, (_, fs) in rows:
                    j.cursor.execute("INSERT OR REPLACE INTO message VALUES(?, ?, ?, ?)",
                                     (seq, o["key"], d.value, S.fields_to_bytes(fs)))
        real = j.conn._real if isinstance(j.conn, _ConnProxy) else j.conn
        real.commit()

    def load(self, a):
        """S.Impl.load empties the whole message table: the other sessions' rows are put back"""
        super().load(a)
        if self.others:
            self._insert_other_rows()

    def others_snapshot(self):
        """(key, target, sender, outboundSeqNo, inboundSeqNo, rows) of every session but ours"""
        cur = self.journal.cursor
        cur.execute("SELECT sessionId, targetCompId, senderCompId, outboundSeqNo, inboundSeqNo FROM session "
                    "WHERE sessionId != ? ORDER BY sessionId", (self.key,))
        out = []
        for row in list(cur):
            cur.execute("SELECT seqNo, direction, msg FROM message WHERE session=? ORDER BY direction, seqNo", (row[0],))
            out.append((tuple(row), tuple((r[0], r[1], bytes(r[2])) for r in cur)))
        return out

    def restart(self, role, mode="file"):
        """discard the object, rebuild it over the same journal.
        mode "file": the journaler dies with the process (open transaction lost), a new one opens the file;
        mode "object": only the connection object is rebuilt, over the SAME live Journaler (quiescent points
        only; the only possible mode for an in-memory journal).
        role 1 = AsyncFIXClient, 2 = AsyncFIXDummyServer, 0 = bare AsyncFIXConnection (constructors really run)."""
        old = self.conn
        s = old._session
        sender, target, hb = s.sender_comp_id, s.target_comp_id, old._heartbeat_period
        if self.memory or mode == "object":
            assert not self.killed, "an object-only restart is defined at quiescent points"
            j = self.journal
            j.persist_msg, j.set_seq_num = self._orig_persist, self._orig_setseq
            if isinstance(j.conn, _ConnProxy):
                j.conn = j.conn._real
            self.conn = None
        else:
            self._drop()
            self.journal = self.FileJournaler(self.path)
        cls = {1: self.ClientConn, 2: self.ServerConn}.get(role, self.Conn)
        c = cls(self.Proto(), sender, target, self.journal, "h", 1, hb, logger=self.log)
        c.__class__ = self.Conn
        self.conn = c
        assert c._session.key == self.key, "session row changed"
        self.incarnation += 1
        self._hook()
        self.arm(None)
        del self.eff[:]
        return self.dump()

    def close(self):
        self._drop()
        super().close()

    # ---- events with kills ------------------------------------------------------------------------
    def run_event(self, sr, ev, plan=None):
        """apply one event; returns (effects, killed?).  With `plan` = site index the event is killed there."""
        del self.eff[:]
        self.arm(plan)
        import asyncio
        try:
            self.apply(sr, ev)
        except Kill:
            pass
        except asyncio.CancelledError:
            self.eff.append(("R", "Cancelled"))     # escaped the entry point (the reader task would end here)
        except Interrupt:
            self.eff.append(("R", "Interrupt"))
        if self.killed:
            # callbacks that still ran while the kill propagated (`finally: _finalize_message`) saw a dead process
            del self.eff[self.kill_eff:]
        eff = self.effects()
        return eff, self.killed

    def feed_bytes(self, chunks, now_ms=None):
        """raw chunks through the library's own reader task (receive buffer + decoder + _process_message);
        a chunk b"" is the end of the stream (the peer died): the task disconnects"""
        c = self.conn
        del self.eff[:]
        self.arm(None)
        if now_ms is not None:
            self.now_ms = now_ms
        self.declined = None
        self.log.mode = "task"
        had = c._socket_reader is not None
        if had:
            c._socket_reader = S._Reader(list(chunks))
        try:
            S.run_coro(c.socket_read_task())
        except S._Done:
            pass
        except S._Abort as a:
            self.eff.append(("R", a.kind))
        except Interrupt:
            self.eff.append(("R", "Interrupt"))
        finally:
            self.log.mode = "msg"
        if c._socket_reader is not None:
            c._socket_reader = object()
        return self.effects()

    def effects(self):
        return super().effects()
