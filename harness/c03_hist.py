"""C03, history dimension: ONE connection object, several connections in a row.

Each connection ("day") receives Logon + application frames (+ Logout) followed by trailing bytes (nothing, a
partial marker, the beginning of another frame, junk, a complete frame behind the Logout) cut into reads in
some way, and ends in some way: Logout handshake (graceful), EOF, the watchdog's / an application's
disconnect() while the peer is silent.  Roles: ACCEPTOR (AsyncFIXDummyServer, connections arrive through
_handle_accept, base connect() runs once) and INITIATOR (AsyncFIXClient.connect() per connection, patched
asyncio.open_connection).  The real socket_read_task, the real session layer and a real (in-memory) journal
run; transports are in-process fakes whose writer.close() makes the pending read return EOF like a socket.
`asyncio.sleep` is compressed (1 s -> 2 ms) so that the read task's idle poll does not dominate.

Observed per day: what the read task hands to `_process_message` (msg type, container, raw frame), the
application callbacks and the final state.  Property (C03 across connections): a connection hands over exactly
the frames sent on IT up to its terminating message, whatever the chunking of this and of earlier connections.
Model side: every connection starts from the empty buffer (`feedAll … [] …`) and stops at the terminating frame.
"""
from __future__ import annotations

import asyncio
import logging
import time
from unittest.mock import patch

from . import codec_common as K
from . import common as C

REAL_SLEEP = asyncio.sleep
REFUSED_ACTIONS = ("connect", "send-unencodable")


class VClock:
    """the clock the connection module sees (`time.time()`): real time + an offset that actions advance"""

    def __init__(self):
        self.offset = 0.0

    def time(self):
        return time.time() + self.offset

ENDS = ["logout", "eof", "watchdog", "app"]
ROLES = ["acceptor", "initiator"]


def peer_frame(mtype, seq, fields=()):
    return K.ref_frame([f"35={mtype}", "49=PEER", "56=ME", f"34={seq}", "52=20240102-10:00:00.000", *fields])


class FakeReader:
    def __init__(self, chunks, eof, calls=None, conn=None, clock=None):
        self.chunks = list(chunks)
        self.eof = eof
        self.drained = asyncio.Event()
        self.closed = asyncio.Event()
        self.parked = asyncio.Event()
        self.calls = {int(k): v for k, v in (calls or {}).items()}
        self.conn = conn
        self.clock = clock
        self.nread = 0
        self.call_log = []

    async def _between(self, actions):
        """a second coroutine runs while the read task is parked in read(): public calls that must be REFUSED"""
        from asyncfix import FIXMessage
        for a in actions:
            try:
                if a == "connect":
                    await self.conn.connect()
                elif a == "send-unencodable":
                    m = FIXMessage("D")
                    m[58] = "\u20ac"
                    await self.conn.send_msg(m)
                elif a == "send-app":
                    m = FIXMessage("D")
                    m[11] = "x"
                    m[55] = "Y"
                    await self.conn.send_msg(m)
                elif a == "send-test-req":
                    await self.conn.send_test_req()
                elif a.startswith("clock+"):
                    # the OTHER task of the connection runs between two reads: the clock moves, the real
                    # heartbeat_timer_task (its sleep is compressed) gets several iterations
                    self.clock.offset += float(a[6:])
                    for _ in range(6):
                        await REAL_SLEEP(0.003)
                self.call_log.append(a + ":accepted")
            except Exception as e:  # noqa: BLE001
                self.call_log.append(a + ":" + type(e).__name__)

    async def read(self, n):
        i, self.nread = self.nread, self.nread + 1
        if i in self.calls and self.chunks and not self.closed.is_set():
            await self._between(self.calls[i])
        if self.chunks and not self.closed.is_set():
            c = self.chunks[0]
            if len(c) <= n:
                self.chunks.pop(0)
                return c
            self.chunks[0] = c[n:]
            return c[:n]
        self.drained.set()
        if self.eof:
            return b""
        self.parked.set()          # the read task is idle: nothing more will happen unless somebody closes the socket
        await self.closed.wait()
        return b""


class FakeWriter:
    def __init__(self, reader):
        self.reader = reader

    def write(self, b):
        pass

    async def drain(self):
        pass

    def close(self):
        self.reader.closed.set()

    async def wait_closed(self):
        pass

    def get_extra_info(self, *a, **k):
        return ("peer", 1)

    def is_closing(self):
        return self.reader.closed.is_set()


def make_conn(role):
    from asyncfix import AsyncFIXClient, AsyncFIXDummyServer, FIXMessage, Journaler
    from asyncfix.protocol import FIXProtocol44

    base = AsyncFIXDummyServer if role == "acceptor" else AsyncFIXClient

    class Conn(base):
        def __init__(self):
            super().__init__(FIXProtocol44(), "ME", "PEER", Journaler(), "localhost", 64444,
                             logger=logging.getLogger("c03hist"))
            self.delivered = []
            self.cb = []

        async def _process_message(self, msg, raw):
            self.delivered.append((str(msg.msg_type), K.tok_tree(K.tree_of(msg)), raw))
            await super()._process_message(msg, raw)

        async def on_connect(self):
            self.cb.append("connect")
            if role == "initiator":
                m = FIXMessage("A")
                m[98] = 0
                m[108] = 30
                await self.send_msg(m)

        async def on_logon(self, is_healthy):
            self.cb.append("logon:%s" % is_healthy)

        async def on_logout(self, msg):
            self.cb.append("logout")

        async def on_message(self, msg):
            self.cb.append("msg:%s" % msg[34])

        async def on_disconnect(self):
            self.cb.append("disconnect")

        async def on_state_change(self, s):
            pass

    return Conn()


async def _fast_sleep(t, *a, **k):
    await REAL_SLEEP(0 if t <= 0 else 0.002)


def day_stream(d):
    return b"".join(d["frames"]) + d["tail"]


def cuts_of(c):
    return c["cuts"] if isinstance(c, dict) else c


def calls_of(c):
    return c.get("calls", {}) if isinstance(c, dict) else {}


async def _no_network(*a, **k):
    raise ConnectionRefusedError("the harness has no network")


async def _run(role, days):
    from asyncfix import ConnectionState
    from asyncfix.connection import AsyncFIXConnection

    dead = ConnectionState.DISCONNECTED_BROKEN_CONN
    conn = make_conn(role)
    out = []
    clock = VClock()
    with patch("asyncio.sleep", _fast_sleep), patch("asyncio.open_connection", _no_network), \
            patch("asyncio.start_server", _no_network), \
            patch("asyncfix.connection.time", C.clock_patch(__import__("asyncfix.connection").connection, clock.time)):
        if role == "acceptor":
            # what AsyncFIXDummyServer.connect() does once before it starts serving
            await AsyncFIXConnection.connect(conn)
        for d in days:
            chunks = K.split_at(day_stream(d), sorted(set(cuts_of(d["cuts"])) | set(d.get("forced", []))))
            reader = FakeReader(chunks, d["end"] == "eof", calls_of(d["cuts"]), conn, clock)
            writer = FakeWriter(reader)
            n0, c0 = len(conn.delivered), len(conn.cb)
            jf = {"n": 0, "k": d.get("jfault")}
            real_persist = type(conn._journaler).persist_msg

            def persist(msg, session, direction, _jf=jf):
                from asyncfix.message import MessageDirection
                if direction == MessageDirection.INBOUND and _jf["k"] is not None:
                    _jf["n"] += 1
                    if _jf["n"] == _jf["k"]:
                        import sqlite3
                        raise sqlite3.OperationalError("database is locked")
                return real_persist(conn._journaler, msg, session, direction)
            conn._journaler.persist_msg = persist
            if role == "acceptor":
                await conn._handle_accept(reader, writer)
            else:
                async def oc(*a, **k):
                    return reader, writer
                with patch("asyncio.open_connection", oc):
                    await conn.connect()
            flag = "-"
            t0 = time.time()
            while not reader.drained.is_set() and conn.connection_state > dead:
                await REAL_SLEEP(0.001)
                if time.time() - t0 > 30:       # safety net only (an overloaded machine is not a hang)
                    flag = "hang"
                    break
            if conn.connection_state > dead:
                if d["end"] == "watchdog":
                    await conn.disconnect(ConnectionState.DISCONNECTED_BROKEN_CONN)   # what heartbeat_timer_task does
                elif d["end"] == "app":
                    await conn.disconnect(ConnectionState.DISCONNECTED_WCONN_TODAY, logout_message="bye")
            t0, idle = time.time(), 0
            while conn.connection_state > dead:
                await REAL_SLEEP(0.001)
                # decided logically, not by the clock: the read task is parked in read() on a silent socket and the
                # connection is still up although its terminating message was sent / its end action was taken
                idle = idle + 1 if reader.parked.is_set() else 0
                if idle > 25 or time.time() - t0 > 30:
                    flag = "hang-end"
                    reader.closed.set()
                    break
            for _ in range(4):      # let the read task see the closed socket
                await REAL_SLEEP(0.001)
            out.append({"state": conn.connection_state.name, "flag": flag,
                        "delivered": conn.delivered[n0:], "cb": conn.cb[c0:], "calls": reader.call_log})
        tasks = [t for t in (conn._aio_task_socket_read, conn._aio_task_heartbeat) if t]
        for t in tasks:
            t.cancel()
        await asyncio.gather(*tasks, return_exceptions=True)
    return out


def run_history(role, days):
    """days: [{frames:[bytes], tail:bytes, cuts:[int], end:str}] -> per day {state, flag, delivered, cb}"""
    logging.disable(logging.CRITICAL)
    return asyncio.run(_run(role, days))


# ------------------------------------------------------------------ generator
APP_FIELDS = [["11=a", "55=X", "54=1", "38=1"], ["11=8=FIX.", "55=Y", "54=2", "38=10="], ["58=9=12"],
              ["11=b", "453=2", "448=p", "447=D", "448=q", "447=D", "55=Z"]]
TAIL_KINDS = ["none", "partial-marker", "frame-head", "frame-prefix", "junk", "whole-frame"]


def gen_history(rng, role=None, ends=None, first_tail=None):
    """{role, days:[{frames, tail, end, expect}]} without cuts; the peer numbers its frames the way the library counts
    them (a received Logout is not counted, an incomplete frame was never received)"""
    role = role or rng.choice(ROLES)
    ndays = rng.choice([2, 2, 3, 4])
    seq = 1
    days = []
    for k in range(ndays):
        end = ends[k] if ends else rng.choice(ENDS)
        gap = 0
        if k == ndays - 1 and rng.random() < 0.35:
            # the LAST connection starts with a Logon numbered too high (messages were lost on the way): the session asks
            # for a resend, the reader must still hand over every frame that follows in the same / later reads
            gap = rng.choice([1, 3, 7])
            seq += gap
        frames = [peer_frame("A", seq, ["98=0", "108=30"])]
        seq += 1
        for _ in range(rng.choice([0, 1, 1, 2, 3])):
            frames.append(peer_frame("D", seq, rng.choice(APP_FIELDS)))
            seq += 1
        if end == "logout":
            frames.append(peer_frame("5", seq, rng.choice([[], ["58=bye"]])))
        kind = first_tail if (first_tail and k == 0) else rng.choice(TAIL_KINDS)
        nxt = peer_frame(rng.choice(["0", "D", "1"]), seq + 1, rng.choice([[], ["112=t"], ["58=8=FIX.4.4"],
                                                                          ["58=" + "z" * rng.choice([150, 600, 2500])]]))
        tail = {"none": b"", "partial-marker": nxt[: rng.randint(1, 5)], "frame-head": nxt[: rng.randint(6, 16)],
                "frame-prefix": nxt[: rng.randint(17, len(nxt) - 1)], "junk": rng.choice([b"\x0110=", b"xyz", b"9=12\x01", b"8=8"]),
                "whole-frame": nxt}[kind]
        if kind == "whole-frame" and end != "logout":
            frames.append(nxt)          # a complete frame in front of EOF / disconnect is a frame of this connection
            seq += 1
            tail = b""
        day = {"frames": frames, "tail": tail, "end": end, "tail_kind": kind + ("+logon-too-high" if gap else "")}
        if end != "logout" and len(frames) >= 2 and rng.random() < 0.25:
            # E: the inbound journal write of the j-th frame fails once ('database is locked'); a fault-free frame follows in
            # its own read so that the reader gets the read it needs to drain what the fault left in its buffer
            day["jfault"] = rng.randint(1, len(frames))
            day["forced"] = [sum(len(f) for f in frames)]
            frames.append(peer_frame("0", seq))
            seq += 1
            day["tail_kind"] = kind + "+journal-fault"
        days.append(day)
    return {"role": role, "days": days}


def chunkings(rng, hist, n_random):
    """cut lists (one per day) to try on a history; the first is the canonical one (a read per frame)"""
    def canon(d):
        pos, cuts = 0, []
        for f in d["frames"]:
            pos += len(f)
            cuts.append(pos)
        return cuts
    days = hist["days"]
    out = [[canon(d) for d in days]]
    out.append([[] for _ in days])                                           # everything in one read
    out.append([canon(d)[:-1] for d in days])                                # last frame + tail in one read
    out.append([[c for c in canon(d)[:-2]] + ([canon(d)[-1] - rng.randint(1, 20)] if len(d["frames"]) else []) for d in days])
    for _ in range(n_random):
        cs = []
        probed = False        # at most one probing tick per run: the virtual clock must stay below the initiator's 1.5×HeartBtInt
        for d in days:        # reconnect timer, which would (legitimately) change what happens between two connections
            n = len(day_stream(d))
            m = rng.choice([1, 2, 3, 6])
            cuts = set(rng.randrange(1, n) for _ in range(min(m, n - 1)))
            if rng.random() < 0.4:
                e = canon(d)[-1]
                cuts |= {c for c in range(max(1, e - 3), min(n, e + 8))}        # 1-byte reads around the last frame's end
            cuts = sorted(cuts)
            if rng.random() < 0.5:
                # a refused public call while the read task is parked between two reads
                nreads = len(cuts) + 1
                # accepted calls whose effect on the session depends on WHERE in the stream they happen (send_test_req
                # leaves a TestRequest outstanding) are not drawn at random positions: the comparison across chunkings
                # would then compare different histories; they appear only in the designated last chunking below
                act = rng.choice(["connect", "send-unencodable", "clock+3"])     # the probing tick (clock+29.5) only in the designated chunking
                if d.get("jfault"):
                    # a connection with an injected inbound-journal fault gets refused calls only: fault x other-task
                    # combinations are outside the property's quantifier and outside what the oracle models
                    act = rng.choice(["connect", "send-unencodable"])
                if act == "clock+29.5":
                    act, probed = ("clock+3" if probed else act), True
                cs.append({"cuts": cuts, "calls": {str(rng.randrange(1, nreads)) if nreads > 1 else "0": [act]}})
            else:
                cs.append(cuts)
        out.append(cs)
    # … exactly where a read ends inside the last frame: a refused call / the heartbeat task probing the quiet line
    out.append([{"cuts": cuts_of(c), "calls": {str(len(cuts_of(c))): ["connect"]}} for c in out[3]])
    probe_day = rng.randrange(len(days))
    out.append([{"cuts": cuts_of(c), "calls": {str(len(cuts_of(c))): ["connect" if days[k].get("jfault") else
                                                                      "clock+29.5" if k == probe_day else "clock+3"]}}
                for k, c in enumerate(out[3])])
    return out


def expected(d):
    return list(d["frames"])


def model_chunks(d, cuts):
    """reads the model is fed for this connection: the stream up to the end of the terminating Logout"""
    s = day_stream(d)
    if d["end"] == "logout":
        s = b"".join(d["frames"])
    return K.split_at(s, sorted({c for c in cuts_of(cuts) if c < len(s)} | {c for c in d.get("forced", []) if c < len(s)}))


def hist_input(hist, cutlists):
    return {"history": {"role": hist["role"], "days": [
        {"frames": [f.hex() for f in d["frames"]], "tail": d["tail"].hex(), "end": d["end"], "cuts": list(cuts_of(c)),
         "calls": calls_of(c), "jfault": d.get("jfault"), "forced": d.get("forced", [])}
        for d, c in zip(hist["days"], cutlists)]}}


def hist_from_input(inp):
    h = inp["history"]
    days = [{"frames": [bytes.fromhex(x) for x in d["frames"]], "tail": bytes.fromhex(d["tail"]), "end": d["end"],
             "jfault": d.get("jfault"), "forced": d.get("forced", [])} for d in h["days"]]
    return {"role": h["role"], "days": days}, [{"cuts": d["cuts"], "calls": d.get("calls", {})} for d in h["days"]]


def run_with(hist, cutlists):
    days = [dict(d, cuts=c) for d, c in zip(hist["days"], cutlists)]
    return run_history(hist["role"], days)


def deliveries_tok(dels):
    return "".join(" D %s %s %s" % (C.cp(mt), ct, C.cp(raw)) for mt, ct, raw in dels)


def clauses(hist, res, canon_res):
    """implementation only: yields (signature, what, expected, observed)"""
    for k, (d, r) in enumerate(zip(hist["days"], res)):
        raws = [x[2] for x in r["delivered"]]
        for a in r.get("calls", []):
            if a.endswith(":accepted") and a.split(":")[0] in REFUSED_ACTIONS:
                yield ("C03-history-refused-call-accepted", f"connection {k + 1}: a public call that must be refused on a live connection was accepted", "refused", a)
        if r["flag"] != "-":
            yield ("C03-history-hang", f"connection {k + 1} of the same object neither consumed its reads nor ended", "-", r["flag"])
        if raws != expected(d):
            yield ("C03-history-frame-lost",
                   f"connection {k + 1} of one connection object did not hand over exactly the frames sent on it "
                   f"(role {hist['role']}, previous connection ended by {hist['days'][k - 1]['end'] if k else '-'})",
                   [f.hex() for f in expected(d)], [x.hex() for x in raws])
        if canon_res is not None:
            c = canon_res[k]
            if (r["delivered"], r["cb"], r["state"]) != (c["delivered"], c["cb"], c["state"]):
                yield ("C03-history-chunking-changes-delivery",
                       f"connection {k + 1}: deliveries / callbacks / final state depend on how this or an earlier connection was cut into reads",
                       {"cb": c["cb"], "state": c["state"], "frames": [x[2].hex() for x in c["delivered"]]},
                       {"cb": r["cb"], "state": r["state"], "frames": [x[2].hex() for x in r["delivered"]]})
