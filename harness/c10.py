"""C10 – the decoder is total, makes progress and never accepts a frame whose CheckSum does not
match its bytes.  DESIGN.md §6 C10.

proof:  Props/C10.lean (decode_no_raise, decode_bounds, decode_msg_progress, readLoop_never_stalls,
        checksum_sound, C10_corruption_partial, same_shape_corruption_rejected, no_permanent_stall,
        closed_frame_wait_bounded, following_frame_unblocks, …)
tie:    model `decode` vs Codec.decode (canonical replies), model `feed` vs the REAL socket_read_task
        (harness.codec_common.run_reader) on arbitrary byte strings, grammar-aware malformed frames and every
        single-byte edit of corpus frames, each also followed by valid traffic
oracle: written against the implementation only: never raises, 0 <= consumed <= len, a live reader delivers
        later valid frames, returned raw frames are re-checked by an independent CheckSum / BodyLength
        computation and classified
"""
from __future__ import annotations

import json
import logging
import os

from . import codec_common as K
from . import common as C

PROP = "C10"
PROPS_MODULES = ["AsyncFix.Props.C10"]
FINDINGS_MODULE = "AsyncFix.Findings.C10"
ASSUMPTIONS = [
    "byte strings are lists of code points < 256 (`rawmsg.decode('latin-1')` is the identity on them)",
    "CPython `int(str)` on latin-1 text is the function `pyInt` of Model/Codec/Bytes.lean (whitespace by str.isspace "
    "when the text is non-ASCII, C isspace otherwise; sign; underscores; 4300 digit limit) – compared on every input "
    "that reaches a BodyLength / CheckSum / tag conversion, plus a direct `codec.pyint` sample",
    "the connection stays in a connected state while one read is processed (the state test at the top of the "
    "inner loop of socket_read_task is outside the model)",
]
MODELLED_NOT_VERIFIED = [
    "C10: the Lean reader model (readLoop / readLoopP) covers ONE connected stretch of a connection; what happens to the "
    "receive buffer across disconnect / reconnect of the same connection object (disconnect() empties it, the long-lived "
    "socket_read_task carries no bytes over), the real _process_message / _validate_integrity and frames longer than one "
    "read are covered by the implementation-only oracle (live-connection and history scenarios), not by a theorem",
    "C10: Codec.decode and the inner loop of socket_read_task are hand-modelled (Model/Codec/Decode.lean, Reader.lean) "
    "and compared with the implementation on every run (canonical result incl. consumed length, raw bytes, container tree)",
]

SOH = b"\x01"
# a real reader that is handed the same message again and again (consumed <= 0) spins for ever; the runner
# cuts it off after this many deliveries and reports `stalled` (no legitimate case delivers that many)
MAX_DELIVERIES = 200
CORPUS = os.path.join(C.VERIF, "corpus", "codec", "c10_corpus.json")


# ------------------------------------------------------------------ corpus
def load_corpus():
    with open(CORPUS) as f:
        d = json.load(f)
    frames = [bytes.fromhex(h) for h in d["frames"]]
    cases = [(c["label"], bytes.fromhex(c["raw"])) for c in d["cases"]]
    return frames, cases


def valid_frame(i: int, extra=()) -> bytes:
    return K.ref_frame(["35=0", "49=SND", "56=TGT", "34=%d" % i] + list(extra))


# ------------------------------------------------------------------ generators
TOKENS = [
    b"8=FIX.", b"8=FIX.4.4", b"8=FIX.4.4\x01", b"8=FIX.4.4\x019=", b"8=FIX.4.2\x01", b"8=FI", b"8=", b"8",
    b"\x01", b"\x01", b"\x01", b"9=", b"\x019=", b"10=", b"\x0110=", b"\x0110=000\x01", b"=", b"35=", b"\x0135=0\x01",
    b"0", b"1", b"5", b"7", b"12", b"20", b"000", b"255", b"+", b"-", b" ", b"_", b"\t", b"\n",
    b"\x85", b"\xa0", b"\x1c", b"\x1f", b"\x00", b"\xb2", b"\xff", b"268=", b"269=", b"453=", b"448=", b"802=", b"523=",
    b"55=", b"A", b"x",
]


def gen_arbitrary(rng) -> bytes:
    r = rng.random()
    out = []
    if r < 0.35:
        # a plausible head so that the later branches of decode are reached
        out.append(b"8=FIX.4.4\x01")
        if rng.random() < 0.8:
            out.append(b"9=")
            out.append(rng.choice([b"0", b"5", b"12", b"20", b"+7", b" 9", b"1_0", b"-3", b"\xa05", b"x", b"", b"007"]))
            out.append(b"\x01")
    for _ in range(rng.randint(0, 12)):
        q = rng.random()
        if q < 0.7:
            out.append(rng.choice(TOKENS))
        elif q < 0.85:
            out.append(bytes([rng.randrange(256)]))
        else:
            out.append(("%d" % rng.randrange(0, 400)).encode())
    raw = b"".join(out)
    if r < 0.35 and rng.random() < 0.5:
        # close with a CheckSum field, often the right one
        i = raw.find(b"8=FIX.")
        body = raw if raw.endswith(SOH) else raw + SOH
        ck = sum(body[i:]) % 256 if i >= 0 else 0
        if rng.random() < 0.3:
            ck = (ck + rng.randint(1, 255)) % 256
        fmt = rng.choice(["%03d", "%03d", "%03d", "%d", "+%d", " %d", "%d ", "0%03d"])
        raw = body + b"10=" + (fmt % ck).encode() + (SOH if rng.random() < 0.85 else b"")
    return raw


def serialize(pairs, fix_len=True, fix_ck=True, trailing=True) -> bytes:
    """pairs: list of [tag, value] or raw field strings (latin-1 str); value None for 9 / 10 = compute here"""
    def fld(p):
        return p if isinstance(p, str) else "%s=%s" % (p[0], p[1])
    # BodyLength: bytes after the 9= field up to and including the SOH before the last "10" pair
    idx9 = next((i for i, p in enumerate(pairs) if not isinstance(p, str) and p[0] == "9" and p[1] is None), None)
    idx10 = next((i for i in range(len(pairs) - 1, -1, -1)
                  if not isinstance(pairs[i], str) and pairs[i][0] == "10" and pairs[i][1] is None), None)
    ps = [list(p) if not isinstance(p, str) else p for p in pairs]
    if idx9 is not None:
        end = idx10 if idx10 is not None and idx10 > idx9 else len(ps)
        body = "".join(fld(p) + "\x01" for p in ps[idx9 + 1:end])
        ps[idx9][1] = str(len(body.encode("latin-1"))) if fix_len else "17"
    if idx10 is not None:
        pre = "".join(fld(p) + "\x01" for p in ps[:idx10])
        ck = sum(pre.encode("latin-1")) % 256
        ps[idx10][1] = "%03d" % (ck if fix_ck else (ck + 1) % 256)
    s = "\x01".join(fld(p) for p in ps) + ("\x01" if trailing else "")
    return s.encode("latin-1")


def base_pairs(rng):
    mtype, tree = K.gen_wf_msg(rng)
    body = [f.split("=", 1) for f in K.flatten(tree)]
    return [["8", "FIX.4.4"], ["9", None], ["35", mtype], ["49", "SND"], ["56", "TGT"],
            ["34", str(rng.randint(1, 999))]] + body + [["10", None]]


BL_NONNUM = ["abc", "", "1x", "\xb2", "1 2", "--1", "+", "_1", "1_", "1__0", "0x10", "1e3", "1.0", "½"]
CK_NONNUM = ["abc", "", "1x2", "12\xb2", "-", "++1", "1_", "0x1"]
TAG_BAD = ["ab", "", " 55", "5 5", "+55", "5_5", "55 ", "\xb2", "-1", "0", "00055", "5.5", "\xa055", "1e2"]
BEGINS = ["FIX.4.2", "FIX.4.4 ", "FIX.5.0", "", "FIX.4.4=8", "FIX.", "fix.4.4", "FIX.4.4\x00"]


def pad_variants(n: int):
    s = str(n)
    out = [" " + s, "+" + s, "0" + s, s + " ", "\t" + s + "\n", "\xa0" + s, "\x1c" + s, s + "\x85", "000" + s]
    if len(s) >= 2:
        out.append(s[0] + "_" + s[1:])
    return out


LONG_DIGITS = [4299, 4300, 4301, 10000]


def long_digits(n: int, value: str | None) -> str:
    """n characters: `value` padded with leading zeros, or n sevens"""
    return value.rjust(n, "0") if value is not None else "7" * n


MUTATIONS = [
    "bl_nonnumeric", "bl_negative", "bl_huge", "bl_padded", "bl_offby", "ck_nonnumeric", "ck_lenient", "ck_wrong",
    "tag_nonnumeric", "missing_eq", "empty_field", "wrong_order", "truncated", "wrong_begin", "repeated_tag",
    "group_odd", "top_repeat_after_group", "two_heads", "no_trailing_soh", "junk_prefix", "short_head_closed",
    "long_digits",
]


def gen_malformed(rng, force=None):
    """(label, bytes): a valid frame with 1-2 grammar-aware defects"""
    pairs = base_pairs(rng)
    labels = []
    fix_len = fix_ck = trailing = True
    prefix = b""
    cut = None
    post = None
    for mut in ([force] if force else rng.sample(MUTATIONS, rng.choice([1, 1, 1, 2]))):
        labels.append(mut)
        tbl = K.table()
        nb = len(pairs)
        if mut == "bl_nonnumeric":
            pairs[1] = ["9", rng.choice(BL_NONNUM)]
        elif mut == "bl_negative":
            pairs[1] = ["9", rng.choice(["-5", "-0", "-1", "-999999", " -3"])]
        elif mut == "bl_huge":
            pairs[1] = ["9", rng.choice(["99999999999", "1" + "0" * 30, "5000", "7" * 4301 if rng.random() < 0.1 else "4096"])]
        elif mut == "bl_padded":
            true_len = len(serialize(pairs)) - len(serialize(pairs[:2])) - 1 - 7
            pairs[1] = ["9", rng.choice(pad_variants(true_len))]
        elif mut == "bl_offby":
            true_len = len(serialize(pairs)) - len(serialize(pairs[:2])) - 1 - 7
            pairs[1] = ["9", str(max(0, true_len + rng.choice([-2, -1, 1, 2, 7, 40, 60])))]
        elif mut == "ck_nonnumeric":
            pairs[-1] = ["10", rng.choice(CK_NONNUM)]
        elif mut == "ck_lenient":
            post = ("ck_lenient", rng.choice(["+%d", " %d", "%d ", "0%03d", "%d", "%03d\t", "\xa0%03d", "%02d"]))
        elif mut == "ck_wrong":
            fix_ck = False
        elif mut == "tag_nonnumeric":
            i = rng.randrange(2, nb)
            if not isinstance(pairs[i], str):
                pairs[i] = [rng.choice(TAG_BAD), pairs[i][1] or "0"]
        elif mut == "missing_eq":
            i = rng.randrange(0, nb)
            p = pairs[i]
            pairs[i] = (p[0] + (p[1] or "")) if not isinstance(p, str) else p.replace("=", "")
        elif mut == "empty_field":
            pairs.insert(rng.randrange(0, nb + 1), "")
        elif mut == "wrong_order":
            i, j = rng.randrange(nb), rng.randrange(nb)
            pairs[i], pairs[j] = pairs[j], pairs[i]
        elif mut == "truncated":
            cut = rng.random()
        elif mut == "wrong_begin":
            pairs[0] = ["8", rng.choice(BEGINS)]
        elif mut == "repeated_tag":
            i = rng.choice([0, 1, 2, nb - 1, rng.randrange(nb)])
            pairs.insert(rng.randrange(i, nb + 1), list(pairs[i]) if not isinstance(pairs[i], str) else pairs[i])
        elif mut == "group_odd":
            g = rng.choice(sorted(tbl))
            kind = rng.randrange(5)
            at = rng.randrange(3, nb)
            if kind == 0:
                pairs.insert(at, [g, "1"])                       # count tag without members
            elif kind == 1:
                pairs.insert(at, [rng.choice(tbl[g]), "x"])      # member outside its group
            elif kind == 2:
                pairs[at:at] = [[g, "2"], [g, "1"], [tbl[g][0], "a"]]  # count tag twice
            elif kind == 3:
                pairs[at:at] = [[g, "1"], [tbl[g][0], "a"], [tbl[g][0], "b"], [g, "1"], [tbl[g][0], "c"]]
            else:
                pairs[at:at] = [["453", "1"], ["448", "p"], ["802", "1"], ["523", "s"], ["802", "1"], ["448", "q"], ["453", "x"]]
        elif mut == "top_repeat_after_group":
            pairs[nb - 1:nb - 1] = [["55", "X"], ["453", "1"], ["448", "p"], ["447", "D"], ["55", "Y"]]
        elif mut == "two_heads":
            prefix += rng.choice([b"8=FIX.4.4\x019=", b"8=FIX.4.4\x01", b"8=FIX.", b"8=FIX.4.4\x019=5\x0135=0",
                                  b"8=FIX.4.4\x019=50\x0135=0\x01", b"8=FIX.4.4\x019=5\x0158=8=FIX.4.4\x01"])
        elif mut == "no_trailing_soh":
            trailing = False
        elif mut == "junk_prefix":
            prefix += bytes(rng.randrange(256) for _ in range(rng.randint(1, 9)))
        elif mut == "long_digits":
            # very long digit strings at an int() site: CPython refuses more than 4300 digits
            n = rng.choice(LONG_DIGITS)
            site = rng.choice(["tag", "tag", "bodylength", "checksum", "seqnum", "groupcount", "value"])
            zeros = rng.random() < 0.5
            labels[-1] = "long_digits:%s:%d%s" % (site, n, "z" if zeros else "")
            if site == "tag":
                pairs.insert(rng.randrange(3, nb), [long_digits(n, "55" if zeros else None), "x"])
            elif site == "bodylength":
                true_len = len(serialize(pairs)) - len(serialize(pairs[:2])) - 1 - 7
                pairs[1] = ["9", long_digits(n, str(true_len) if zeros else None)]
            elif site == "checksum":
                post = ("ck_long", n if zeros else -n)
            elif site == "seqnum":
                pairs[5] = ["34", long_digits(n, "7" if zeros else None)]
            elif site == "groupcount":
                pairs[nb - 1:nb - 1] = [["453", long_digits(n, "1" if zeros else None)], ["448", "p"], ["447", "D"]]
            else:
                pairs.insert(rng.randrange(3, nb), ["58", long_digits(n, None)])
        elif mut == "short_head_closed":
            prefix += rng.choice([b"8=FIX.4.4\x0110=000\x01", b"8=FIX.4.4\x0110=000", b"8=FIX.\x0110=\x01"])
    try:
        raw = serialize(pairs, fix_len=fix_len, fix_ck=fix_ck, trailing=trailing)
    except UnicodeEncodeError:
        raw = serialize([p for p in pairs if "½" not in str(p)], fix_len, fix_ck, trailing)
    if post and post[0] == "ck_long":
        i = raw.rfind(b"\x0110=")
        if i >= 0 and raw[i + 4:i + 7].isdigit():
            n = post[1]
            v = raw[i + 4:i + 7].decode().rjust(n, "0") if n > 0 else "7" * (-n)
            raw = raw[:i + 4] + v.encode() + raw[i + 7:]
    if post and post[0] == "ck_lenient":
        i = raw.rfind(b"\x0110=")
        if i >= 0 and raw[i + 4:i + 7].isdigit():
            ck = int(raw[i + 4:i + 7])
            raw = raw[:i + 4] + (post[1] % ck).encode("latin-1") + raw[i + 7:]
    if cut is not None:
        raw = raw[:int(len(raw) * cut)]
    return "+".join(labels), prefix + raw


SUBST = [0, 1, 61, 48, 49, 32, 43, 0x80, 0xa0, 255]
INSERT = [0, 1, 48, 32, 61, 56, 0x85, 95]


def gen_edits(frame: bytes, thorough: bool):
    """every single-byte substitution (a few replacement bytes), deletion and insertion"""
    n = len(frame)
    for i in range(n):
        x = frame[i]
        reps = set(SUBST + [x ^ 1, x ^ 0x20, (x + 1) % 256])
        if thorough:
            reps = set(range(256))
        for y in sorted(reps):
            if y != x:
                yield ("sub", i, y), frame[:i] + bytes([y]) + frame[i + 1:]
        yield ("del", i, x), frame[:i] + frame[i + 1:]
    for i in range(n + 1):
        for y in (INSERT + ([9, 43, 45, 49, 57, 0xa0, 255] if thorough else [])):
            yield ("ins", i, y), frame[:i] + bytes([y]) + frame[i:]


def structural_regions(frame: bytes):
    """positions of the structural bytes of a frame: the BeginString field, the BodyLength field
    (each with its SOH) and the trailer  x SOH 1 0 = d d d SOH  (one byte of the last value included)"""
    a = frame.find(SOH)
    b = frame.find(SOH, a + 1)
    t = frame.rfind(b"\x0110=")
    pos = set(range(0, b + 1)) | set(range(max(t - 1, 0), len(frame)))
    return sorted(pos)


def gen_structural_edits(frame: bytes):
    """EVERY single-byte insertion / substitution (all 256 byte values) and deletion at every structural position
    (and insertion behind the last byte)"""
    pos = structural_regions(frame)
    for i in pos:
        x = frame[i]
        for y in range(256):
            yield ("ins", i, y), frame[:i] + bytes([y]) + frame[i:]
            if y != x:
                yield ("sub", i, y), frame[:i] + bytes([y]) + frame[i + 1:]
        yield ("del", i, x), frame[:i] + frame[i + 1:]
    n = len(frame)
    for y in range(256):
        yield ("ins", n, y), frame + bytes([y])


def chunkings(rng, stream: bytes, k: int):
    """k partitions of the stream into non-empty reads"""
    out = [[stream]]
    n = len(stream)
    for _ in range(k - 1):
        if n < 2:
            break
        style = rng.random()
        if style < 0.3:
            cuts = sorted(set(rng.randrange(1, n) for _ in range(rng.randint(1, 4))))
        elif style < 0.5:
            step = rng.randint(1, 7)
            cuts = list(range(step, n, step))
        else:
            # around interesting places: markers / SOH / the end
            places = [i for i in range(1, n) if stream[i - 1:i] == SOH or stream[i:i + 2] == b"8="]
            cuts = sorted(set(rng.sample(places, min(len(places), rng.randint(1, 3))))) if places else [n // 2]
        out.append(K.split_at(stream, cuts))
    return out


# ------------------------------------------------------------------ independent frame consistency (oracle side)
def frame_problems(enc: bytes):
    """Independent re-computation on the raw bytes of a returned message.  Returns a set of problem names."""
    probs = set()
    if not enc.startswith(b"8="):
        probs.add("no-beginstring")
    i = enc.rfind(b"\x0110=")
    if i < 0:
        return probs | {"no-checksum-field"}
    tail = enc[i + 4:]
    if tail.endswith(SOH):
        v = tail[:-1]
    else:
        v = tail
        probs.add("no-trailing-soh")
    if SOH in v:
        probs.add("checksum-not-last")
    want = sum(enc[:i + 1]) % 256
    if not (len(v) == 3 and all(48 <= b <= 57 for b in v)):
        probs.add("checksum-not-3-digits")
        try:
            got = int(v.decode("latin-1")) if len(v) < 100 else None
        except ValueError:
            got = None
    else:
        got = int(v)
    if got != want:
        probs.add("checksum-mismatch")
    # BodyLength: second field, canonical decimal, = bytes after its SOH up to and incl. the SOH before 10=
    a = enc.find(SOH)
    b = enc.find(SOH, a + 1) if a >= 0 else -1
    if a < 0 or b < 0 or not enc[a + 1:b].startswith(b"9="):
        probs.add("bodylength-missing")
    else:
        bl = enc[a + 3:b]
        if not bl or not all(48 <= c <= 57 for c in bl) or (len(bl) > 1 and bl[0] == 48):
            probs.add("bodylength-not-canonical")
        else:
            if len(bl) > 18 or int(bl) != (i + 1) - (b + 1):
                probs.add("bodylength-mismatch")
    return probs


SIG_BODYLEN = "C10-bodylength-not-verified"


def classify_returned(enc: bytes):
    """signatures for a returned raw frame; [] when CheckSum and BodyLength are consistent with the bytes"""
    probs = frame_problems(enc)
    sigs = []
    hard = probs & {"no-beginstring", "no-checksum-field", "checksum-not-last", "checksum-mismatch", "checksum-not-3-digits"}
    for p in sorted(hard):
        sigs.append(("C10-returned-frame:" + p, "returned frame fails the independent check: " + p))
    if probs & {"bodylength-mismatch", "bodylength-not-canonical", "bodylength-missing"}:
        sigs.append((SIG_BODYLEN, "a frame whose BodyLength(9) disagrees with its bytes is returned as a message "
                     "(BodyLength is never compared with the bytes)"))
    if "no-trailing-soh" in probs:
        sigs.append(("C10-returned-frame:no-trailing-soh", "a frame whose CheckSum field is not terminated by SOH was returned"))
    return sigs, probs


def parse_reply(rep: str):
    p = rep.split(" ")
    if p[0] == "msg":
        return "msg", int(p[1]), C.unhx(p[2])
    if p[0] == "none":
        return "none", int(p[1]), None
    return "raised", p[1] if len(p) > 1 else "?", None


def check_decode(impl, raw: bytes):
    """property clauses on ONE decode call of the implementation; yields failure dicts"""
    rep = impl.decode(raw)
    kind, n, enc = parse_reply(rep)
    inp = {"kind": "decode", "raw": raw.hex()}
    if kind == "raised":
        yield {"signature": "C10-decode-raises:" + str(n), "what": "decode(silent=True) raised " + str(n),
               "input": inp, "expected": "(None, n, None) or a message", "observed": rep}
        return
    if not (0 <= n <= len(raw)):
        yield {"signature": "C10-consumed-out-of-range", "what": "consumed length outside 0..len(buffer)",
               "input": inp, "expected": "0 <= n <= %d" % len(raw), "observed": rep[:80]}
    if kind == "msg":
        if n <= 0:
            yield {"signature": "C10-message-without-progress", "what": "a message was returned with consumed <= 0",
                   "input": inp, "expected": "n > 0", "observed": rep[:80]}
        if enc not in raw:
            yield {"signature": "C10-returned-frame:not-in-buffer", "what": "raw bytes of the message are not a piece of the buffer",
                   "input": inp, "expected": "substring", "observed": rep[:80]}
        sigs, probs = classify_returned(enc)
        for sig, what in sigs:
            yield {"signature": sig, "what": what, "input": inp, "expected": "no message (CheckSum and BodyLength consistent)",
                   "observed": "msg %d raw=%s problems=%s" % (n, enc.hex(), sorted(probs))}


DECL_CAP = 3000


def declared_bound(m: bytes) -> int | None:
    """upper bound for the bytes a malformed prefix may legitimately swallow: its own length plus the largest
    BodyLength any head in it declares (None: larger than DECL_CAP – not checked)"""
    best = 0
    i = 0
    while True:
        i = m.find(b"9=", i)
        if i < 0:
            break
        j = i + 2
        k = j
        while k < len(m) and m[k:k + 1] not in (SOH,) and k - j < 40:
            k += 1
        txt = m[j:k].decode("latin-1")
        try:
            v = int(txt)
        except ValueError:
            v = 0
        if len(txt) >= 40:
            return None
        best = max(best, v)
        i = j
    if best > DECL_CAP:
        return None
    return len(m) + best + 64


def reader_stream(m: bytes):
    """reads: the malformed bytes glued to a first valid frame, then further valid frames one per read,
    enough of them to cover whatever length the malformed part declares"""
    bound = declared_bound(m)
    if bound is None:
        return None, None
    frames = [valid_frame(1)]
    total = 0
    i = 2
    while total < bound or len(frames) < 4:
        f = valid_frame(i)
        frames.append(f)
        total += len(f)
        i += 1
    return [m + frames[0]] + frames[1:], frames


def check_reader(m: bytes):
    """a live reader that has received the malformed bytes still delivers later valid frames (exactly once)"""
    chunks, frames = reader_stream(m)
    if chunks is None:
        return "huge-declared-length", []
    rep = K.run_reader(chunks, max_steps=MAX_DELIVERIES + 2 * len(frames))
    inp = {"kind": "reader", "malformed": m.hex(), "chunks": [c.hex() for c in chunks]}
    parts = rep.split(" D ")
    head = parts[0].split(" ")
    flag = head[2] if len(head) > 2 else "?"
    raws = [C.unhx(p.split(" ")[2]) for p in parts[1:]]
    fails = []
    if flag != "-":
        fails.append({"signature": "C10-reader-" + flag.split(":")[0] + (":" + flag.split(":")[1] if ":" in flag else ""),
                      "what": "the reader task hit '%s' after a malformed input" % flag, "input": inp,
                      "expected": "no exception, no spin", "observed": rep[:120]})
    last = frames[-1]
    if last not in raws:
        buf = C.unhx(head[1]) if len(head) > 1 else b""
        fails.append({"signature": "C10-reader-blocked", "what": "valid frames that follow a malformed input are never delivered "
                      "(%d valid frames, %d bytes sent after it; %d bytes left in the buffer)" % (len(frames), sum(map(len, frames)), len(buf)),
                      "input": inp, "expected": "the last valid frame is delivered", "observed": rep[:160]})
    whole = b"".join(chunks)
    for f in frames:
        if raws.count(f) > whole.count(f):
            fails.append({"signature": "C10-duplicate-delivery", "what": "a valid frame was delivered more than once",
                          "input": inp, "expected": "as often as it was sent (%d)" % whole.count(f), "observed": "count=%d" % raws.count(f)})
            break
    lost = sum(1 for f in frames if f not in raws)
    return ("ok" if not fails else "fail") + (":lost%d" % min(lost, 3) if lost else ""), fails


# ------------------------------------------------------------------ reader with a processing step that raises
def run_reader_p(chunks, max_steps=MAX_DELIVERIES):
    """the REAL socket_read_task with a `_process_message` that records the delivery and then raises for messages
    carrying tag 9999 (as `_validate_integrity` does for a duplicated header tag).  Reply comparable with the
    driver's `codec.feedp`:  buf <hex> <flag> E<exceptions logged> D …"""
    import asyncio

    from asyncfix.connection import AsyncFIXConnection, ConnectionState
    from asyncfix.journaler import Journaler

    logging.disable(logging.CRITICAL)
    delivered, flag, exc = [], ["-"], [0]

    class _Rd:
        def __init__(self):
            self.chunks = list(chunks)

        async def read(self, n):
            if not self.chunks:
                raise asyncio.CancelledError()
            return self.chunks.pop(0)

    class ProcError(Exception):
        pass

    class Conn(AsyncFIXConnection):
        async def _process_message(self, msg, raw):
            delivered.append((str(msg.msg_type), K.tok_tree(K.tree_of(msg)), raw))
            if len(delivered) > max_steps:
                flag[0] = "stalled"
                raise asyncio.CancelledError()
            if "9999" in msg:
                # exceptions of several classes leave the processing step
                try:
                    v = msg["9999"]
                except Exception:  # noqa: BLE001  (the generated body carried the marker tag itself: it occurs twice)
                    v = ""
                if v.startswith("F"):
                    from asyncfix.errors import FIXMessageError
                    raise FIXMessageError("refused by the session layer")
                if v.startswith("S"):
                    import sqlite3
                    raise sqlite3.OperationalError("database is locked")
                raise ProcError("processing failed")

    conn = Conn(K.proto(), "S", "T", Journaler(), "h", 1, 30)
    conn._connection_state = ConnectionState.ACTIVE
    conn._socket_reader = _Rd()

    class _Lg(C.LogBase):
        def exception(self, *a, **k):
            import sys
            e = sys.exc_info()[1]
            if type(e).__name__ in ("ProcError", "FIXMessageError", "OperationalError"):
                exc[0] += 1
            else:
                if flag[0] == "-":
                    flag[0] = "raised:" + type(e).__name__
                conn._socket_reader.chunks.clear()

        def debug(self, *a, **k):
            pass
        info = warning = error = debug

    conn.log = _Lg()
    asyncio.run(conn.socket_read_task())
    ds = "".join(" D %s %s %s" % (C.cp(mt), ct, C.cp(raw)) for mt, ct, raw in delivered)
    return "buf %s %s E%d%s" % (C.cp(conn._msg_buffer), flag[0], exc[0], ds)


def check_reader_p(chunks):
    """implementation-only clauses for the reader whose processing step raises: a frame is handed over as often as it
    was sent, later valid frames still arrive, the buffer is drained"""
    stream = b"".join(chunks)
    bound = declared_bound(stream)          # bytes a malformed head may legitimately wait for / swallow
    nflush = stream.count(b"8=FIX.") + 2
    if bound is not None:
        nflush += bound // 40
    flush = [valid_frame(900 + j) for j in range(nflush)]
    all_chunks = list(chunks) + flush
    rep = run_reader_p(all_chunks, max_steps=MAX_DELIVERIES + 2 * len(all_chunks))
    inp = {"kind": "readerp", "chunks": [c.hex() for c in chunks]}
    parts = rep.split(" D ")
    head = parts[0].split(" ")
    raws = [C.unhx(p.split(" ")[2]) for p in parts[1:]]
    whole = b"".join(all_chunks)
    fails = []
    for f in set(raws):
        if raws.count(f) > whole.count(f):
            fails.append({"signature": "C10-frame-processed-twice", "what": "a frame whose processing raised stays in the "
                          "receive buffer and is handed to processing again on the next read", "input": inp,
                          "expected": "handed over %d time(s)" % whole.count(f), "observed": "%d times: %s" % (raws.count(f), f[:80])})
            break
    if head[2] != "-":
        fails.append({"signature": "C10-reader-" + head[2].split(":")[0], "what": "the reader task hit '%s'" % head[2],
                      "input": inp, "expected": "-", "observed": rep[:120]})
    if bound is None:
        return fails
    if flush[-1] not in raws:
        fails.append({"signature": "C10-reader-blocked", "what": "valid frames sent after a frame whose processing raised are "
                      "never delivered", "input": inp, "expected": "the last valid frame is delivered", "observed": rep[:160]})
    if C.unhx(head[1]) != b"":
        fails.append({"signature": "C10-live-buffer-not-drained", "what": "bytes of handled frames stay in the receive buffer",
                      "input": inp, "expected": "empty buffer", "observed": "%d bytes" % len(C.unhx(head[1]))})
    return fails


def gen_proc_stream(rng):
    """valid frames, some of which make processing raise (9999=…), corrupted and malformed ones, chunked"""
    parts = []
    for i in range(rng.randint(1, 7)):
        r = rng.random()
        if r < 0.45:
            parts.append(valid_frame(i + 1))
        elif r < 0.75:
            parts.append(valid_frame(i + 1, ["9999=%s%d" % (rng.choice(["", "F", "S"]), i)] + (["58=x"] if rng.random() < 0.5 else [])))
        elif r < 0.9:
            parts.append(corrupt_safely(rng, valid_frame(i + 1, ["9999=1"] if rng.random() < 0.5 else [])))
        else:
            parts.append(gen_malformed(rng)[1][:200])
    stream = b"".join(parts)
    n = len(stream)
    cuts = sorted(set(rng.randrange(1, n) for _ in range(rng.choice([0, 0, 1, 2, 4, 9])))) if n > 1 else []
    chunks = K.split_at(stream, cuts)
    for j in range(rng.randint(0, 3)):
        chunks.append(valid_frame(100 + j))
    return [c for c in chunks if c]


# ------------------------------------------------------------------ live connection (real _process_message)
LIVE_TIME = "52=20240101-00:00:00.000"


def live_frame(seq, fields, sender="INITIATOR", target="ACCEPTOR", mtype="D") -> bytes:
    head = ([] if mtype is None else ["35=" + mtype]) + ["49=" + sender, "56=" + target, "34=%s" % seq, LIVE_TIME]
    return K.ref_frame(head + list(fields))


def live_run(chunks, faults=None):
    """Feed the reads to a REAL logged-on-able acceptor connection: real socket_read_task, real decode, real
    _process_message / _validate_integrity / journal; only the transport and the application hooks are stubs.
    Returns {"state", "delivered": [ClOrdID…], "buf": bytes left, "max_buf", "exceptions": n, "sent": n}"""
    import asyncio

    from asyncfix import FTag
    from asyncfix.connection import AsyncFIXConnection, ConnectionState
    from asyncfix.journaler import Journaler

    logging.disable(logging.CRITICAL)
    out = {"delivered": [], "exceptions": 0, "sent": 0, "max_buf": 0, "disconnected": False}

    class _Rd:
        def __init__(self, conn):
            self.chunks = list(chunks)
            self.conn = conn

        async def read(self, n):
            out["max_buf"] = max(out["max_buf"], len(self.conn._msg_buffer))
            if not self.chunks:
                raise asyncio.CancelledError()
            return self.chunks.pop(0)

    class _Wr:
        def write(self, b):
            out["sent"] += 1

        async def drain(self):
            pass

        def close(self):
            pass

        async def wait_closed(self):
            pass

        def get_extra_info(self, *_):
            return None

    class _Lg(C.LogBase):
        def exception(self, *a, **k):
            out["exceptions"] += 1

        def debug(self, *a, **k):
            pass
        info = warning = error = debug

    class App(AsyncFIXConnection):
        async def on_connect(self):
            pass

        async def on_message(self, msg):
            out["delivered"].append(msg.get(FTag.ClOrdID, "?"))
            k = len(out["delivered"]) - 1
            if faults.get("hook") and faults["hook"]["k"] == k:
                import sqlite3

                from asyncfix.errors import FIXMessageError
                out["faults_fired"] += 1
                raise {"RuntimeError": RuntimeError("hook failed"), "FIXMessageError": FIXMessageError("hook refused"),
                       "OperationalError": sqlite3.OperationalError("database is locked"),
                       "CancelledError": asyncio.CancelledError()}[faults["hook"]["exc"]]

        async def on_disconnect(self):
            out["disconnected"] = True
            raise asyncio.CancelledError()

    faults = faults or {}
    out["faults_fired"] = 0
    journal = Journaler()
    real_persist = journal.persist_msg
    pcount = [0]

    def persist_msg(raw, session, direction):
        from asyncfix.message import MessageDirection
        if direction == MessageDirection.INBOUND:
            k = pcount[0]
            pcount[0] += 1
            if k in faults.get("persist", ()):
                import sqlite3
                out["faults_fired"] += 1
                raise sqlite3.OperationalError("database is locked")     # once; the next call works again
        return real_persist(raw, session, direction)

    journal.persist_msg = persist_msg
    conn = App(K.proto(), "ACCEPTOR", "INITIATOR", journal, "h", 1, 30)
    conn.log = _Lg()
    conn._socket_reader = _Rd(conn)
    conn._socket_writer = _Wr()
    conn._connection_state = ConnectionState.NETWORK_CONN_ESTABLISHED

    async def main():
        try:
            await conn.socket_read_task()
        except asyncio.CancelledError:
            pass

    asyncio.run(main())
    out["state"] = conn._connection_state.name
    out["buf"] = bytes(conn._msg_buffer)
    return out


SAFE_INSERT = [y for y in range(256) if y not in (0, 1)]


def corrupt_safely(rng, frame: bytes) -> bytes:
    """one-byte corruption that cannot disturb the FRAMING of what follows: a substitution inside a field value or
    the CheckSum digits, or an insertion of a non-NUL, non-SOH byte inside a value / among or behind the CheckSum
    digits (BodyLength then covers the frame minus its last byte: the stray SOH is skipped as garbage)"""
    b2 = frame.find(SOH, frame.find(SOH) + 1)
    pos = []          # positions of value bytes after the BodyLength field
    i = b2 + 1
    while i < len(frame):
        j = frame.find(SOH, i)
        eq = frame.find(b"=", i, j)
        pos += list(range(eq + 1, j))
        i = j + 1
    if rng.random() < 0.5:
        k = rng.choice(pos)
        y = rng.choice([c for c in range(256) if c not in (1, frame[k])])
        return frame[:k] + bytes([y]) + frame[k + 1:]
    k = rng.choice(pos + [len(frame) - 1] * 3)   # also right in front of the final SOH
    return frame[:k] + bytes([rng.choice(SAFE_INSERT)]) + frame[k:]


LIVE_KINDS = ["valid", "valid", "valid", "corrupt", "corrupt", "dup49", "dup56", "dup34", "dup8", "no35",
              "seq_nonnumeric", "no49", "bad_compid", "seq_low", "long_tag", "long_seq"]
HOOK_FAULTS = ["RuntimeError", "FIXMessageError", "OperationalError", "CancelledError"]


def gen_live(rng):
    """a stream for the live connection: Logon, then valid / corrupted / decoder-valid-but-unprocessable frames,
    arbitrary chunking, then flush reads of valid frames.  Returns (chunks, expected deliveries, description)"""
    seq = 1
    frames = [live_frame(seq, ["98=0", "108=30"], mtype="A")]
    seq += 1
    expected, kinds = [], []
    raising = 0
    alive = True
    forced = []          # offsets at which a read must end (the decoder drops the whole buffer at such a frame)
    off = len(frames[0])
    n_items = rng.randint(2, 8)
    burst = rng.random() < 0.04
    if burst:
        n_items = rng.randint(40, 120)          # many frames in few reads
    for i in range(n_items):
        kind = rng.choice(LIVE_KINDS)
        if i == 0 and rng.random() < 0.12:
            kind = "long_tag"
        if burst and kind not in ("valid", "corrupt"):
            kind = "valid"
        if kind in ("seq_nonnumeric", "no49", "bad_compid", "seq_low") and rng.random() < 0.8:
            kind = "valid"
        kinds.append(kind)
        tag = "%s%d" % (kind[0].upper(), i)
        body = ["11=" + tag, "55=VOD.L", "54=1", "38=100"]
        if rng.random() < 0.03:
            body.append("58=" + "t" * rng.randint(3000, 9000))      # longer than one read(4096)
        if kind == "valid":
            frames.append(live_frame(seq, body))
            if alive:
                expected.append(tag)
            seq += 1
        elif kind == "corrupt":
            frames.append(corrupt_safely(rng, live_frame(seq, ["11=X%d" % i] + body[1:])))
            raising += 1        # the read loop stops at a rejected frame until the next read
        elif kind in ("dup49", "dup56", "dup34", "dup8"):
            extra = {"dup49": "49=INITIATOR", "dup56": "56=ACCEPTOR", "dup34": "34=%d" % seq, "dup8": "8=FIX.4.4"}[kind]
            body.insert(rng.randint(0, len(body)), extra)
            frames.append(live_frame(seq, body))
            raising += 1
        elif kind == "no35":
            frames.append(live_frame(seq, body, mtype=None))
            if alive:
                expected.append(tag)
            seq += 1
        elif kind == "long_tag":
            # a tag of 4299 … 10000 digits: int() accepts at most 4300
            n = rng.choice(LONG_DIGITS)
            if i != 0 and n > 4300:
                # the decoder answers a non-numeric tag by dropping EVERYTHING that is buffered, and frames pile up
                # behind rejected ones until the next read: only as the first frame is nothing valid lost with it
                n = rng.choice([4299, 4300])
            body.insert(rng.randint(1, len(body)), long_digits(n, "5001" if rng.random() < 0.5 else None) + "=v")
            kinds[-1] = "long_tag:%d" % n
            if n <= 4300:
                frames.append(live_frame(seq, body))
                if alive:
                    expected.append(tag)
                seq += 1
            else:
                frames.append(live_frame(seq, ["11=X%d" % i] + body[1:]))
                raising += 1
                forced.append(off + len(frames[-1]))     # "non-numeric tag" drops everything that is buffered
        elif kind == "long_seq":
            n = rng.choice(LONG_DIGITS)
            kinds[-1] = "long_seq:%d" % n
            frames.append(live_frame(str(seq).rjust(n, "0"), body))
            if n <= 4300:
                if alive:
                    expected.append(tag)
                seq += 1
            else:
                alive = False                            # "MsgSeqNum(34) is not a number": Logout + disconnect
        else:
            # the connection answers these by disconnecting: nothing after them is expected
            if kind == "seq_nonnumeric":
                frames.append(live_frame("x%d" % seq, body))
            elif kind == "no49":
                frames.append(K.ref_frame(["35=D", "56=ACCEPTOR", "34=%d" % seq, LIVE_TIME] + body))
            elif kind == "bad_compid":
                frames.append(live_frame(seq, body, sender="SOMEONE"))
            else:
                frames.append(live_frame(1, body))
            alive = False
        off = sum(map(len, frames))
    # faults of collaborators while frames are processed
    faults = {}
    if rng.random() < 0.35:
        faults["persist"] = sorted(set(rng.randrange(0, len(expected) + 2) for _ in range(rng.choice([1, 1, 2]))))
        raising += len(faults["persist"])
    if rng.random() < 0.25 and expected:
        faults["hook"] = {"k": rng.randrange(0, len(expected) + 1), "exc": rng.choice(HOOK_FAULTS)}
        if faults["hook"]["exc"] == "CancelledError" and "persist" in faults:
            # (a journal error raised in the `finally` of _process_message would replace the cancellation)
            raising -= len(faults.pop("persist"))
    if forced and 0 in faults.get("persist", ()):
        faults["persist"].remove(0)          # nothing may be pending in front of a frame that drops the whole buffer
        raising -= 1
    stream = b"".join(frames)
    n = len(stream)
    cuts = set(rng.randrange(1, n) for _ in range(rng.choice([0, 1, 2, 3, 6, 12])))
    if n > 4096 and rng.random() < 0.7:
        cuts = set(range(4096, n, 4096))       # as a StreamReader.read(4096) would deliver it
    cuts = sorted(c for c in (cuts | set(forced)) if 0 < c < n)
    chunks = K.split_at(stream, cuts)
    # the inner loop of socket_read_task leaves at every rejected frame and at every processing exception, what is
    # buffered behind it is looked at on the next read: one flush read per such frame, plus two
    for j in range(raising + 2):
        tag = "F%d" % j
        chunks.append(live_frame(seq, ["11=" + tag, "55=VOD.L"]))
        if alive:
            expected.append(tag)
        seq += 1
    cancelled = None
    if faults.get("hook", {}).get("exc") == "CancelledError" and faults["hook"]["k"] < len(expected):
        # the reader task is cancelled inside the hook: it ends there, by design
        expected = expected[: faults["hook"]["k"] + 1]
        cancelled = expected[-1]
    return chunks, expected, {"kinds": kinds, "disconnecting": not alive, "faults": faults, "cancelled": cancelled}


def live_clauses(res, expected, disconnecting, cancelled=None):
    """oracle clauses of one live run; yields (signature, what, observed)"""
    got = res["delivered"]
    if cancelled is not None:
        if got != expected:
            yield ("C10-live-valid-frame-not-delivered", "frames before a cancellation were not delivered exactly once",
                   "expected %s got %s" % (expected, got))
        if ("11=%s\x01" % cancelled).encode() in res["buf"]:
            yield ("C10-live-buffer-not-drained", "the frame that was being processed when the task was cancelled is "
                   "still in the receive buffer", "%d bytes left" % len(res["buf"]))
        return
    if any(t.startswith("X") for t in got):
        yield ("C10-live-corrupted-frame-delivered", "a corrupted frame was delivered to the application", got)
    if any(got.count(t) > 1 for t in got):
        yield ("C10-live-duplicate-delivery", "a frame was delivered more than once", got)
    if not disconnecting and res["state"] != "ACTIVE":
        yield ("C10-live-unexpected-disconnect", "the connection did not stay ACTIVE although no frame called for a disconnect",
               res["state"])
    clean = [t for t in got if not t.startswith("X")]
    if clean != expected and not (disconnecting and res["state"] == "ACTIVE"):
        yield ("C10-live-valid-frame-not-delivered", "valid frames that follow a malformed / unprocessable frame were not "
               "delivered exactly once, in order", "expected %s got %s (state %s, %d bytes buffered, %d exceptions)"
               % (expected, got, res["state"], len(res["buf"]), res["exceptions"]))
    if len(res["buf"]) != 0:
        yield ("C10-live-buffer-not-drained", "bytes of already handled frames stay in the receive buffer (it grows with "
               "every read)", "%d bytes left, max %d" % (len(res["buf"]), res["max_buf"]))


def check_live(chunks, expected, disconnecting, desc=None, faults=None, cancelled=None):
    res = live_run(chunks, faults)
    hexes = [c.hex() if len(c) < 3000 else "LONG:%d:%s" % (len(c), c.hex()) for c in chunks]
    inp = {"kind": "live", "chunks": hexes, "expected": expected, "disconnecting": disconnecting,
           "frames": desc, "faults": faults, "cancelled": cancelled}
    return res, [{"signature": sig, "what": what, "input": inp, "expected": "delivered == %s, buffer empty" % expected,
                  "observed": str(obs)[:300]}
                 for sig, what, obs in live_clauses(res, expected, disconnecting, cancelled)]


# ------------------------------------------------------------------ history: several connections on ONE connection object
HIST_ENDINGS = ["logout_in_chunk", "integrity_in_chunk", "eof_mid_frame", "broken_transport", "heartbeat_timeout",
                "own_disconnect", "own_logout", "clean_logout", "eof_clean"]


def gen_history(rng):
    """role + a list of episodes; every episode = (number of valid frames, how the connection ends, what the dead
    connection leaves behind: a fraction of a frame and/or a whole frame, chunking seed)"""
    role = rng.choice(["initiator", "acceptor"])
    eps = []
    for _ in range(rng.randint(2, 4)):
        eps.append({"n_valid": rng.randint(0, 3), "ending": rng.choice(HIST_ENDINGS),
                    "half": rng.choice([0.15, 0.4, 0.7, 0.97]), "whole_too": rng.random() < 0.3,
                    "split": rng.random() < 0.4})
    eps[-1]["ending"] = "none"          # the last connection stays up
    eps[-1]["n_valid"] = rng.randint(1, 3)
    return {"role": role, "episodes": eps}


def history_run(hist):
    """Play a history against ONE AsyncFIXClient / AsyncFIXServer object with its own long-lived socket_read_task and
    heartbeat_timer_task (real code; transport, clock and sleep are stubs).  Returns per-episode observations."""
    import asyncio
    from unittest.mock import patch

    from asyncfix import FTag
    from asyncfix.connection import ConnectionState
    from asyncfix.connection_client import AsyncFIXClient
    from asyncfix.connection_server import AsyncFIXDummyServer as AsyncFIXServer
    from asyncfix.journaler import Journaler
    from asyncfix.message import FIXMessage

    logging.disable(logging.CRITICAL)
    real_sleep = asyncio.sleep
    clock = [1000.0]
    obs = {"episodes": [], "exceptions": 0, "error": None}
    cur = {"delivered": [], "logons": 0}

    async def fast_sleep(_d=0, *a, **k):
        await real_sleep(0)

    class _Rd:
        def __init__(self):
            self.q = asyncio.Queue()
            self.waiting = False

        def feed(self, b):
            self.q.put_nowait(b)

        async def read(self, n):
            self.waiting = self.q.empty()
            item = await self.q.get()
            self.waiting = False
            if isinstance(item, Exception):
                raise item
            return item

    class _Wr:
        def __init__(self, rd):
            self.rd = rd
            self.sent = []
            self.closed = False

        def write(self, b):
            self.sent.append(bytes(b))

        async def drain(self):
            pass

        def close(self):
            if not self.closed:
                self.closed = True
                self.rd.feed(b"")           # EOF for whoever still reads this transport

        async def wait_closed(self):
            pass

        def get_extra_info(self, *_):
            return ("127.0.0.1", 1)

    class _Lg(C.LogBase):
        def exception(self, *a, **k):
            obs["exceptions"] += 1

        def debug(self, *a, **k):
            pass
        info = warning = error = debug

    def mk(base):
        class App(base):
            async def on_connect(self):
                if hist["role"] == "initiator":
                    await self.send_msg(FIXMessage("A", {FTag.EncryptMethod: 0, FTag.HeartBtInt: 30}))

            async def on_logon(self, healthy):
                cur["logons"] += 1

            async def on_message(self, msg):
                cur["delivered"].append(msg.get(FTag.ClOrdID, "?"))

            async def on_disconnect(self):
                pass

            async def on_logout(self, msg):
                pass

            async def on_state_change(self, st):
                pass
        return App

    transports = []

    async def open_connection(host, port):
        r = _Rd()
        w = _Wr(r)
        transports.append((r, w))
        return r, w

    async def main():
        base = AsyncFIXClient if hist["role"] == "initiator" else AsyncFIXServer
        conn = mk(base)(K.proto(), "CLI", "SRV", Journaler(), "localhost", 64444, 30)
        conn.log = _Lg()

        async def settle(rd=None, rounds=60):
            for _ in range(rounds):
                await real_sleep(0)
                if rd is not None and rd.waiting and rd.q.empty() and _ > 3:
                    break

        def peer(mtype, fields, tag=None):
            seq = conn._session.next_num_in      # the counterparty numbers its frames as this side expects them
            return K.ref_frame(["35=" + mtype, "49=SRV", "56=CLI", "34=%d" % seq, LIVE_TIME] + list(fields))

        try:
            for ei, ep in enumerate(hist["episodes"]):
                cur["delivered"], cur["logons"] = [], 0
                # ---- connect
                if hist["role"] == "initiator":
                    if not conn._socket_reader:      # (the reader task reconnects by itself after 1.5 heartbeat periods)
                        await conn.connect()
                else:
                    from asyncfix.connection import AsyncFIXConnection
                    await AsyncFIXConnection.connect(conn)          # starts the reader / heartbeat tasks once
                    r, w = await open_connection("", 0)
                    await conn._handle_accept(r, w)
                rd, wr = transports[-1]
                await settle(rd)
                rd.feed(peer("A", ["98=0", "108=30"]))
                await settle(rd)
                e = {"ending": ep["ending"], "state_after_logon": conn._connection_state.name, "expected": [], "old": []}
                # ---- valid traffic of this connection
                for i in range(ep["n_valid"]):
                    tag = "N%d_%d" % (ei, i)
                    f = peer("D", ["11=" + tag, "55=VOD.L", "54=1", "38=100"])
                    e["expected"].append(tag)
                    if ep["split"] and len(f) > 20:
                        k = 7 + (ei * 13 + i * 29) % (len(f) - 14)
                        rd.feed(f[:k])
                        await settle(rd)
                        rd.feed(f[k:])
                    else:
                        rd.feed(f)
                    await settle(rd)
                # ---- what the dying connection leaves in the pipe
                old_tag = "OLD%d" % ei
                nxt = peer("D", ["11=" + old_tag, "55=VOD.L", "54=1", "38=1"])
                leftover = (nxt if ep["whole_too"] else b"") + nxt[: max(6, int(len(nxt) * ep["half"]))]
                end = ep["ending"]
                if end == "logout_in_chunk":
                    rd.feed(peer("5", []) + leftover)
                elif end == "integrity_in_chunk":
                    bad = K.ref_frame(["35=D", "49=SOMEONE", "56=CLI", "34=%d" % conn._session.next_num_in, LIVE_TIME, "11=BAD"])
                    rd.feed(bad + leftover)
                elif end == "clean_logout":
                    rd.feed(peer("5", []))
                elif end == "eof_clean":
                    rd.feed(b"")
                elif end == "eof_mid_frame":
                    rd.feed(leftover[-max(6, int(len(nxt) * ep["half"])):])
                    await settle(rd)
                    rd.feed(b"")
                elif end == "broken_transport":
                    rd.feed(leftover[-max(6, int(len(nxt) * ep["half"])):])
                    await settle(rd)
                    rd.feed(ConnectionResetError("reset by peer"))
                elif end == "heartbeat_timeout":
                    rd.feed(leftover[-max(6, int(len(nxt) * ep["half"])):])
                    await settle(rd)
                    clock[0] += 100.0
                    await settle(None, 20)
                elif end in ("own_disconnect", "own_logout"):
                    rd.feed(leftover[-max(6, int(len(nxt) * ep["half"])):])
                    await settle(rd)
                    await conn.disconnect(ConnectionState.DISCONNECTED_WCONN_TODAY,
                                          logout_message=("bye" if end == "own_logout" else None))
                if end != "none":
                    e["whole_old_frame_in_pipe"] = bool(ep["whole_too"]) and end in ("logout_in_chunk", "integrity_in_chunk")
                    await settle(None, 25)
                    if not wr.closed:
                        wr.close()
                    await settle(None, 10)
                else:
                    await settle(rd)
                e.update({"state": conn._connection_state.name, "delivered": list(cur["delivered"]),
                          "logons": cur["logons"], "buf": len(conn._msg_buffer)})
                obs["episodes"].append(e)
                clock[0] += 5.0
        finally:
            for t in (conn._aio_task_socket_read, conn._aio_task_heartbeat):
                if t:
                    t.cancel()
            await real_sleep(0)

    class _Clk:
        @staticmethod
        def time():
            return clock[0]

    with patch("asyncio.open_connection", open_connection), \
            patch("asyncfix.connection.time", C.clock_patch(__import__("asyncfix.connection").connection, _Clk.time)), \
            patch("asyncio.sleep", fast_sleep):
        asyncio.run(main())
    return obs


def history_clauses(hist, obs):
    """'nothing from an earlier connection is ever delivered or prepended; every valid frame of the new connection is
    delivered once'; yields (signature, what, observed)"""
    for ei, e in enumerate(obs["episodes"]):
        where = "connection #%d of an %s (previous one ended by %s)" % (
            ei + 1, hist["role"], obs["episodes"][ei - 1]["ending"] if ei else "-")
        if e["state_after_logon"] != "ACTIVE" or e["logons"] != 1:
            yield ("C10-history-logon-not-delivered", "the counterparty's Logon on a new connection was not delivered "
                   "(state %s, on_logon calls %d): %s" % (e["state_after_logon"], e["logons"], where), e)
        if any(t.startswith("OLD") or t == "BAD" for t in e["delivered"]):
            yield ("C10-history-stale-frame-delivered", "bytes that belong to a connection that is gone were delivered: " + where, e)
        elif e["delivered"] != e["expected"]:
            yield ("C10-history-valid-frame-not-delivered", "valid frames of the connection were not delivered exactly once: " + where, e)
        if e["ending"] != "none" and e["state"] not in ("DISCONNECTED_BROKEN_CONN", "DISCONNECTED_WCONN_TODAY",
                                                         "DISCONNECTED_NOCONN_TODAY"):
            yield ("C10-history-not-disconnected", "the connection did not end (%s): %s" % (e["state"], where), e)
        if e["ending"] != "none" and e["buf"] != 0:
            yield ("C10-history-buffer-survives-disconnect", "bytes of the dead connection stay in the receive buffer: " + where, e)
        if e["ending"] == "none" and e["buf"] != 0:
            yield ("C10-history-buffer-not-drained", "receive buffer not empty after complete valid frames: " + where, e)


def check_history(hist):
    obs = history_run(hist)
    fails = [{"signature": sig, "what": what, "input": {"kind": "history", "history": hist},
              "expected": "every connection: Logon delivered, its valid frames once, nothing of the previous connection",
              "observed": json.dumps(o)[:400]} for sig, what, o in history_clauses(hist, obs)]
    return obs, fails


# ------------------------------------------------------------------ branch classification (distribution)
BRANCH_OF_ASSERT = [
    ("no fix header", "no-marker"), ("Minimum message", "lt3-fields"), ("protocol beginstring mismatch", "beginstring"),
    ("BodyLength split error", "bodylength-split"), ("2nd tag must be BodyLength", "bodylength-not-2nd"),
    ("BodyLength must be a non-negative number", "bodylength-int"), ("incomplete message", "incomplete"),
    ("incomplete CheckSum field", "checksum-field-open"),
    ("incomplete tag", "field-without-eq"), ("non-numeric tag", "tag-int"), ("invalid checksum", "checksum-invalid"),
    ("Checksum probably missing", "checksum-missing"),
]


def branch_of(impl, raw: bytes, reply: str) -> str:
    """which return statement of Codec.decode the input reaches (uses the assertion texts of silent=False)"""
    if reply.startswith("msg"):
        return "message"
    if reply.startswith("raised"):
        return "raised"
    try:
        impl.codec.decode(raw, silent=False)
    except AssertionError as e:
        t = str(e)
        for key, name in BRANCH_OF_ASSERT:
            if t.startswith(key):
                if name == "lt3-fields":
                    return "lt3-fields-wait" if reply == "none 0" else "lt3-fields-closed-skip"
                if name == "no-marker":
                    return "no-marker-keep-tail" if reply != "none %d" % len(raw) else "no-marker-drop-all"
                return name
        return "assert-other"
    except Exception as e:  # noqa
        return "exc-" + type(e).__name__
    return "none-unclassified"


# ------------------------------------------------------------------ correspondence
def build_inputs(ctx, rng, n_arb, n_mal, n_frames_edit, thorough):
    frames, cases = load_corpus()
    items = [("corpus:" + lab, raw) for lab, raw in cases]
    items += [("corpus-frame", f) for f in frames]
    for i in range(n_arb):
        items.append(("arbitrary", gen_arbitrary(rng)))
    for i in range(n_mal):
        force = MUTATIONS[i % len(MUTATIONS)] if i < 6 * len(MUTATIONS) else None
        lab, raw = gen_malformed(rng, force)
        items.append(("malformed:" + lab, raw))
    nxt = valid_frame(77)
    for fi, f in enumerate(frames[:n_frames_edit]):
        for (op, pos, y), e in gen_edits(f, thorough and fi < 2):
            items.append(("edit:%s" % op, e))
            if op == "del" or pos >= len(f) - 8:
                items.append(("edit:%s+next" % op, e + nxt))
            if pos >= len(f) - 9:
                # the next frame has only partly arrived (marker, but not yet an SOH)
                items.append(("edit:%s+partial-next" % op, e + nxt[:9]))
    # every byte value at every structural position (BeginString, BodyLength, trailer)
    order = sorted(range(len(frames)), key=lambda i: len(frames[i]))
    for fi in order[: (len(frames) if thorough else 2)]:
        f = frames[fi]
        for (op, pos, y), e in gen_structural_edits(f):
            items.append(("struct:%s" % op, e))
            if pos >= len(f) - 9:
                items.append(("struct:%s+next" % op, e + nxt))
    return items, frames


def correspondence(ctx):
    logging.disable(logging.CRITICAL)
    ctx.note("correspondence starts at %.1fs" % ctx.elapsed())
    rng = ctx.rng
    impl = K.Impl()
    drv = C.Driver()
    thorough = ctx.tier == "thorough"
    items, frames = build_inputs(ctx, rng, ctx.n(20000, 200000), ctx.n(5000, 50000), 5, thorough)
    dis, samples = [], []
    branches, by_class = {}, {}
    distinct = set()

    # --- decode
    B = 20000
    n_eval = 0
    for off in range(0, len(items), B):
        part = items[off:off + B]
        model = drv.batch(["codec.decode " + C.cp(raw) for _, raw in part])
        for (lab, raw), ml in zip(part, model):
            il = impl.decode(raw)
            n_eval += 1
            cls = lab.split(":")[0]
            by_class[cls] = by_class.get(cls, 0) + 1
            if raw not in distinct:
                distinct.add(raw)
                # branch statistics on a sample (needs a second call of the implementation)
                if n_eval % 4 == 0 or cls in ("corpus", "malformed"):
                    b = branch_of(impl, raw, il)
                    key = cls + "/" + b
                    branches[key] = branches.get(key, 0) + 1
            if il != ml:
                dis.append({"input": {"kind": "decode", "raw": raw.hex(), "label": lab}, "model": ml[:300], "impl": il[:300]})
            elif len(samples) < 6 and (n_eval % 9973 == 1 or (il.startswith("msg") and len(samples) < 2)):
                samples.append({"input": {"decode": raw.hex(), "label": lab}, "model": ml[:160]})

    ctx.note("decode correspondence done at %.1fs" % ctx.elapsed())
    # --- pyInt directly
    ints = []
    for _ in range(ctx.n(3000, 30000)):
        k = rng.randint(0, 6)
        ints.append("".join(rng.choice("0123456789+- _\t\n\x0b\x0c\r\x1c\x1d\x1e\x1f\x85\xa0\xb2x.e") if rng.random() < 0.5
                            else rng.choice("0123456789") for _ in range(k)))
    ints += ["7" * 4299, "0" * 4298 + "55", "0" * 4299 + "5", "0" * 9999 + "1", "7" * 10000, "+" + "7" * 4300, "7" * 4300 + " ",
             "1_" * 2149 + "11", "7" * 4300, "7" * 4301, " " + "1" * 4300 + " ", "1_" * 2150 + "1", "-" + "9" * 4301, "\xa0" + "5" * 4301]
    model = drv.batch(["codec.pyint " + C.cp(s) for s in ints])
    for s, ml in zip(ints, model):
        try:
            il = "some %d" % int(s)
        except ValueError:
            il = "none"
        n_eval += 1
        if il != ml:
            dis.append({"input": {"kind": "pyint", "text": s.encode("latin-1").hex()}, "model": ml[:80], "impl": il[:80]})

    # --- live reader: malformed input followed by valid frames, several chunkings
    rd_items = [it for it in items if it[0].startswith(("corpus", "malformed"))]
    arb = [it for it in items if it[0] == "arbitrary"]
    edits = [it for it in items if it[0].startswith(("edit", "struct"))]
    rd_items += rng.sample(arb, min(len(arb), ctx.n(1800, 25000)))
    rd_items += rng.sample(edits, min(len(edits), ctx.n(1800, 25000)))
    v1, v2 = valid_frame(1), valid_frame(2, ["58=hello"])
    rd_cases = []
    for ri, (lab, raw) in enumerate(rd_items):
        stream = raw + v1 + v2
        k = 2 if (lab.startswith(("corpus", "malformed")) and (ctx.tier == "thorough" or ri < 2500)) else 1
        for chunks in chunkings(rng, stream, k)[-k:] if k == 1 and rng.random() < 0.7 else chunkings(rng, stream, k):
            rd_cases.append((lab, chunks))
    reader_flags = {}
    for off in range(0, len(rd_cases), 5000):
        part = rd_cases[off:off + 5000]
        model = drv.batch(["codec.feed " + " ".join(C.cp(c) for c in chunks) for _, chunks in part])
        for (lab, chunks), ml in zip(part, model):
            il = K.run_reader(chunks, max_steps=MAX_DELIVERIES)
            n_eval += 1
            ndel = il.count(" D ")
            key = "delivered=%d" % min(ndel, 3) + ("" if il.split(" ")[2] == "-" else "/" + il.split(" ")[2])
            reader_flags[key] = reader_flags.get(key, 0) + 1
            if il != ml:
                dis.append({"input": {"kind": "feed", "chunks": [c.hex() for c in chunks], "label": lab},
                            "model": ml[:300], "impl": il[:300]})
    if rd_cases:
        lab, chunks = rd_cases[len(rd_cases) // 2]
        samples.append({"input": {"feed": [c.hex() for c in chunks], "label": lab}, "model": K.run_reader(chunks, max_steps=MAX_DELIVERIES)[:160]})

    # --- reader whose processing step raises (buffer must be advanced before processing)
    pcases = [gen_proc_stream(rng) for _ in range(ctx.n(2000, 30000))]
    pcases = [c for c in pcases if c]
    proc_exc = {}
    model = drv.batch(["codec.feedp " + " ".join(C.cp(c) for c in chunks) for chunks in pcases])
    for chunks, ml in zip(pcases, model):
        il = run_reader_p(chunks)
        n_eval += 1
        k = il.split(" ")[3]
        proc_exc[k] = proc_exc.get(k, 0) + 1
        if il != ml:
            dis.append({"input": {"kind": "feedp", "chunks": [c.hex() for c in chunks]}, "model": ml[:300], "impl": il[:300]})
    if pcases:
        samples.append({"input": {"feedp": [c.hex() for c in pcases[0]]}, "model": model[0][:160]})
    ctx.note("reader correspondence done at %.1fs" % ctx.elapsed())
    tot = sum(branches.values()) or 1
    dist = {
        "inputs_by_class": by_class,
        "decode_return_branch_counts (class/branch, measured on the implementation for a sample)": dict(sorted(branches.items())),
        "decode_return_branch_share": {b: round(sum(v for k, v in branches.items() if k.split("/")[1] == b) / tot, 4)
                                       for b in sorted({k.split("/")[1] for k in branches})},
        "reader_runs": len(rd_cases),
        "reader_outcomes": reader_flags,
        "reader_with_raising_processing_runs": len(pcases),
        "reader_with_raising_processing_exceptions_logged": dict(sorted(proc_exc.items())),
    }
    return {
        "evaluations": n_eval,
        "distinct_nontrivial": len(distinct),
        "rule": "distinct byte strings given to decode (corpus + arbitrary token soup + grammar-aware malformed frames + every "
                "single-byte substitution/deletion/insertion of %d corpus frames); in addition %d live-reader runs "
                "(input followed by two valid frames, 1-3 chunkings) and a direct int() comparison; a case is an equality "
                "test of the canonical replies of model and implementation" % (5, len(rd_cases)),
        "samples": samples,
        "exhaustive": False,
        "distribution": dist,
        "disagreements": dis,
    }


# ------------------------------------------------------------------ oracle
def finding_witnesses():
    f = K.ref_frame(["35=0", "49=S", "34=100"])                    # …|10=010|
    assert f.endswith(b"10=010\x01"), f
    pinned = (b"8=FIX.4.4\x019=82\x0135=ASD\x0149=sender\x0156=target\x0134=1\x0152=20230919-07:13:26.808\x01"
              b"44=123.45\x0138=9876\x0155=VOD.L\x0110=248\x01")
    i = f.index(b"49=S") + 4
    return [
        ("pinned-test-frame", pinned),
        ("nul-inserted-into-value", f[:i] + b"\x00" + f[i:]),
    ]


def oracle(ctx, disagreements, broken):
    logging.disable(logging.CRITICAL)
    impl = K.Impl()
    rng = ctx.rng
    failures = []
    stats = {"decode_checks": 0, "reader_checks": 0, "reader_outcomes": {}, "witnesses": {}}

    # 1 witnesses of the open findings (always)
    for lab, raw in finding_witnesses():
        fs = list(check_decode(impl, raw))
        stats["witnesses"][lab] = sorted({f["signature"] for f in fs})
        failures += fs
        stats["decode_checks"] += 1

    # 2 the disagreeing inputs first
    todo = []
    for d in disagreements[:200]:
        inp = d["input"]
        if inp.get("kind") == "decode":
            todo.append(("disagreement", bytes.fromhex(inp["raw"])))
        elif inp.get("kind") in ("feed", "feedp"):
            todo.append(("disagreement", b"".join(bytes.fromhex(c) for c in inp["chunks"])))

    # 3 corpus + sample (larger when something is broken)
    frames, cases = load_corpus()
    todo += [("corpus", raw) for _, raw in cases]
    n_arb = ctx.n(1500, 15000) * (8 if broken else 1)
    n_mal = ctx.n(1500, 15000) * (8 if broken else 1)
    for _ in range(n_arb):
        todo.append(("arbitrary", gen_arbitrary(rng)))
    for i in range(n_mal):
        todo.append(("malformed", gen_malformed(rng, MUTATIONS[i % len(MUTATIONS)] if i % 3 == 0 else None)[1]))
    nxt = valid_frame(77)
    edit_frames = frames[: (5 if broken else 2)]
    for f in edit_frames:
        for (op, pos, y), e in gen_edits(f, False):
            todo.append(("edit", e))
            todo.append(("edit+next", e + nxt))
            if pos >= len(f) - 9:
                todo.append(("edit+next", e + nxt[:9]))
                todo.append(("edit+next", e + nxt[:6]))
    # every byte value at every structural position of the two shortest corpus frames (all five when broken)
    order = sorted(range(len(frames)), key=lambda i: len(frames[i]))
    for fi in order[: (5 if broken else 2)]:
        f = frames[fi]
        for (op, pos, y), e in gen_structural_edits(f):
            todo.append(("struct", e))
            if pos >= len(f) - 9:
                todo.append(("struct+next", e + nxt))
    seen = set()
    for lab, raw in todo:
        if raw in seen:
            continue
        seen.add(raw)
        stats["decode_checks"] += 1
        failures += list(check_decode(impl, raw))

    # 4 live reader: later valid frames are delivered
    rd = [raw for lab, raw in todo if lab in ("disagreement", "corpus")]
    pool = [raw for lab, raw in todo if lab in ("malformed", "arbitrary")]
    rd += rng.sample(pool, min(len(pool), ctx.n(600, 6000) * (5 if broken else 1)))
    pool = [raw for lab, raw in todo if lab in ("edit", "struct")]
    rd += rng.sample(pool, min(len(pool), ctx.n(300, 3000) * (5 if broken else 1)))
    for m in rd:
        outcome, fs = check_reader(m)
        stats["reader_checks"] += 1
        stats["reader_outcomes"][outcome] = stats["reader_outcomes"].get(outcome, 0) + 1
        failures += fs

    # 4b reader whose processing step raises (several exception classes): disagreeing runs first, then a sample
    stats["readerp_checks"] = 0
    pruns = [[bytes.fromhex(c) for c in d["input"]["chunks"]] for d in disagreements if d["input"].get("kind") == "feedp"][:150]
    pruns += [gen_proc_stream(rng) for _ in range(ctx.n(400, 4000))]
    for chunks in pruns:
        if chunks:
            stats["readerp_checks"] += 1
            failures += check_reader_p(chunks)

    # 5 live connection with the real _process_message: valid, corrupted and unprocessable frames mixed, any chunking
    stats["live_runs"] = 0
    stats["live_final_states"] = {}
    stats["live_frame_kinds"] = {}
    for _ in range(ctx.n(1500, 15000) * (4 if broken else 1)):
        chunks, expected, meta = gen_live(rng)
        res, fs = check_live(chunks, expected, meta["disconnecting"], meta["kinds"][:12], meta["faults"], meta["cancelled"])
        stats["live_runs"] += 1
        for fk in ("persist", "hook"):
            if meta["faults"].get(fk):
                key = fk if fk == "persist" else "hook:" + meta["faults"]["hook"]["exc"]
                stats.setdefault("live_faults", {})[key] = stats.setdefault("live_faults", {}).get(key, 0) + 1
        stats["live_faults_fired"] = stats.get("live_faults_fired", 0) + res["faults_fired"]
        stats["live_final_states"][res["state"]] = stats["live_final_states"].get(res["state"], 0) + 1
        for k in meta["kinds"]:
            stats["live_frame_kinds"][k] = stats["live_frame_kinds"].get(k, 0) + 1
        failures += fs

    # 6 histories: several connections on one connection object, each ended a different way, then reconnect
    stats["history_runs"] = 0
    stats["history_endings"] = {}
    stats["history_roles"] = {}
    for _ in range(ctx.n(800, 8000) * (3 if broken else 1)):
        hist = gen_history(rng)
        obs, fs = check_history(hist)
        stats["history_runs"] += 1
        stats["history_roles"][hist["role"]] = stats["history_roles"].get(hist["role"], 0) + 1
        for ep in hist["episodes"]:
            stats["history_endings"][ep["ending"]] = stats["history_endings"].get(ep["ending"], 0) + 1
        failures += fs

    ctx.note("oracle done at %.1fs" % ctx.elapsed())
    # one failure per (signature, input) is enough; keep the smallest input per signature first
    failures.sort(key=lambda f: (f["signature"], len(json.dumps(f["input"]))))
    stats["failures_by_signature"] = {}
    for f in failures:
        stats["failures_by_signature"][f["signature"]] = stats["failures_by_signature"].get(f["signature"], 0) + 1
    ctx.oracle_stats = stats
    return failures


def replay(ctx, rp):
    logging.disable(logging.CRITICAL)
    impl = K.Impl()
    inp = rp["input"]
    if inp["kind"] == "decode":
        fs = list(check_decode(impl, bytes.fromhex(inp["raw"])))
    elif inp["kind"] == "readerp":
        fs = check_reader_p([bytes.fromhex(c) for c in inp["chunks"]])
    elif inp["kind"] == "history":
        _, fs = check_history(inp["history"])
    elif inp["kind"] == "live":
        _, fs = check_live([bytes.fromhex(c.split(":")[-1]) for c in inp["chunks"]], inp["expected"], inp["disconnecting"],
                           None, inp.get("faults"), inp.get("cancelled"))
    else:
        _, fs = check_reader(bytes.fromhex(inp["malformed"]))
    sigs = sorted({f["signature"] for f in fs})
    print("replay:", inp["kind"], "->", sigs)
    return rp["signature"] in sigs
