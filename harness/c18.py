"""C18 – message containers behave as ordered tag maps.  DESIGN.md §6 C18.

tie:    hand-written model lean/AsyncFix/Model/Container.lean (+ Py/PyInt.lean), compared with
        asyncfix.message.FIXContainer / FIXMessage on random operation sequences: after EVERY operation the
        reply (return value / exception kind) and the full structure of every live container are diffed;
        Python's int(str) acceptor is compared on every code point (4 contexts) and on all short strings
        over the critical alphabet; the two Unicode tables, the FTag values and the `ignore_tags` literal
        are regenerated (tools/gen_cont.py, picked up by tools/gen_lean.py) before the build.
oracle: `RefCont`, a plain insertion-ordered map from int tags to str / list of RefCont that implements the
        sentences of the property directly; it never looks at the Lean model.

An operation is a JSON list, objects are JSON dicts (see `to_py`); a sequence is a list of operations over a
store of named containers; a reference is `name` or `name/x<tag-hex>:<idx>/…`.
"""
from __future__ import annotations

import copy
import enum
import json
import os
import pickle
import sys
import warnings

from . import common as C

PROP = "C18"
PROPS_MODULES = ["AsyncFix.Props.C18"]
FINDINGS_MODULE = "AsyncFix.Findings.C18"
ASSUMPTIONS = [
    "Python objects are modelled by what the container code can observe of them: str(o), int(o) (only query() "
    "uses it), whether o is a class, whether a stored == comparison with a str can succeed; str(int) is computed "
    "in Lean, str(float/None/bytes/bool) is pre-rendered by the harness",
    "the Lean model is value-semantic: 'a container changes only through its own operations' is NOT a theorem but an "
    "assumption exercised at run time – the generators pass the SAME list / dict / item-container objects to several "
    "operations and containers, mutate those arguments on the caller's side afterwards, keep several containers alive, "
    "copy / deepcopy / pickle them, replace values while iterating, and every live container is compared with the model "
    "after every step (correspondence and oracle). The one sharing Python itself defines – a FIXContainer instance given "
    "as a group item is held by reference – is kept out of the value model by never mutating an object that is held in "
    "two places (such operations are skipped); `get_group_list()` returns the live internal list (not exercised as a "
    "mutation channel)",
    "exceptions raised by argument objects are outside the Lean model (tags and values are strings there): a value / tag / "
    "index whose str() / int() / == / __index__ raises (Exception and BaseException subclasses, library error classes "
    "included) or returns a non-str, a mapping or iterable argument whose iteration raises after k entries - at every "
    "position and nesting depth of the call's arguments - are covered by the oracle and, for 'a call that raised changed "
    "nothing', by the state comparison of the correspondence; the clause checked is the property's 'fails and leaves the "
    "container unchanged' generalised to EVERY operation that raises for whatever reason, for every live container",
    "value objects that ARE str (or int) instances but whose str() differs from their content - str subclasses with their "
    "own __str__, str-mixin and int-mixin Enum members, IntEnum, FTag members, bool - are written as values everywhere "
    "(set, constructor, group items, dict equality); what is stored and read back (get / [] / query / group items / after "
    "pickle and copy) is judged by TYPE and content: `type(v) is str and v == str(written)`",
    "FIXMessage instances used as group items (their __repr__ differs from __str__) are outside the model",
    "pickle: default object pickling of the instance dict is modelled as the identity and compared on the implementation",
    "CPython's int(str) for non-ASCII input is modelled from two character tables read off the running interpreter",
]
MODELLED_NOT_VERIFIED = [
    "C18: Model/Container.lean and Py/PyInt.lean are hand-written mirrors of message.py / CPython's int(str); "
    "the tie is the step-by-step differential run (reply + full state after every operation) and the exhaustive "
    "code-point scan of int()",
]

warnings.simplefilter("ignore")

# ---------------------------------------------------------------------------------------------
# objects <-> JSON <-> driver tokens
# ---------------------------------------------------------------------------------------------
FRAMING = (8, 9, 10, 35)


def _lib():
    import asyncfix.errors as E
    from asyncfix import FMsg, FTag, FIXMessage
    from asyncfix.message import FIXContainer

    return E, FMsg, FTag, FIXMessage, FIXContainer


def class_table():
    E, FMsg, FTag, FIXMessage, FIXContainer = _lib()
    return {
        "TagNotFoundError": E.TagNotFoundError,
        "RepeatingTagError": E.RepeatingTagError,
        "DuplicatedTagError": E.DuplicatedTagError,
        "FIXMessageError": E.FIXMessageError,
        "ValueError": ValueError,
        "KeyboardInterrupt": KeyboardInterrupt,
        "int": int,
        "str": str,
        "FIXContainer": FIXContainer,
    }


class StrSub(str):
    """a str INSTANCE whose str() is not its content (a str subclass with its own __str__)"""

    def __new__(cls, content, text):
        o = super().__new__(cls, content)
        o._text = text
        return o

    def __str__(self):
        return self._text

    def __reduce__(self):
        return (StrSub, (str.__str__(self), self._text))


class Side(str, enum.Enum):
    """str-mixin enum: Side.BUY == "1" and is a str instance, but str(Side.BUY) is "Side.BUY" """
    BUY = "1"
    SELL = "2"


class IntSide(enum.IntEnum):
    ONE = 1
    TWO = 2


class MixInt(int, enum.Enum):
    """int-mixin enum: an int instance whose str() is "MixInt.SEVEN" """
    SEVEN = 7


def strict_str(v):
    """the text of a stored / returned value – which must be a plain `str`, not merely an instance of str whose
    str() may differ from its content ('values read back are the string form of what was written')"""
    if type(v) is str:
        return "s" + hx(v)
    return "!" + type(v).__name__ + ":" + hx(str.__str__(v) if isinstance(v, str) else repr(v))


class Boom(Exception):
    """raised by a misbehaving argument object (not a library error)"""


class HardBoom(BaseException):
    """the same, outside the Exception hierarchy (like asyncio.CancelledError / KeyboardInterrupt)"""


def boom_classes():
    E = _lib()[0]
    return {"Boom": Boom, "HardBoom": HardBoom, "KeyError": KeyError, "TypeError": TypeError, "AttributeError": AttributeError,
            "ValueError": ValueError, "StopIteration": StopIteration, "MemoryError": MemoryError, "RecursionError": RecursionError,
            "FIXMessageError": E.FIXMessageError, "TagNotFoundError": E.TagNotFoundError, "DuplicatedTagError": E.DuplicatedTagError}


class Hostile:
    """an argument object every conversion of which fails: str() raises (or returns a non-str), and so do int(), ==,
    and use as an index"""

    def __init__(self, exc, how="str"):
        self._exc, self._how = exc, how

    def _fail(self, *a):
        raise boom_classes()[self._exc]("conversion of an argument object failed")

    def __str__(self):
        if self._how == "nonstr":
            return 5  # str() turns this into TypeError
        self._fail()

    __int__ = __index__ = __eq__ = __ne__ = __float__ = __bool__ = __len__ = _fail
    __hash__ = object.__hash__  # usable as a dict key by the caller; the container's str(key) then fails

    def __repr__(self):
        return f"<Hostile {self._exc}>"


class Odd:
    """a well-behaved object that is neither str nor number: str() gives the text (possibly '' or a non-canonical
    spelling), int() is not defined"""

    def __init__(self, text):
        self._text = text

    def __str__(self):
        return self._text

    def __repr__(self):
        return f"<Odd {self._text!r}>"


class RaisingDict(dict):
    """a mapping whose iteration breaks midway: items() / iteration yield `after` entries, then raise"""

    def __init__(self, d, after, exc):
        super().__init__(d)
        self._after, self._exc = after, exc

    def _gen(self, it):
        for n, x in enumerate(it):
            if n >= self._after:
                raise boom_classes()[self._exc]("mapping iteration failed")
            yield x
        raise boom_classes()[self._exc]("mapping iteration failed")

    def items(self):
        return self._gen(dict.items(self))

    def keys(self):
        return self._gen(dict.keys(self))

    def values(self):
        return self._gen(dict.values(self))

    def __iter__(self):
        return self._gen(dict.__iter__(self))


def raising_iter(items, after, exc):
    for n, x in enumerate(items):
        if n >= after:
            break
        yield x
    raise boom_classes()[exc]("iteration of the groups argument failed")


def is_hostile_op(op):
    """does the operation carry an argument object whose conversion / iteration raises"""
    js = json.dumps(op)
    if not ('"boom"' in js or '"badmap"' in js or '"baditer"' in js or (op[0] == "addgroup" and isinstance(op[4], dict))):
        return False
    # a dict literal that spells one key twice keeps only the LAST value: the object may have vanished from the argument
    cmd = op[0]

    def obj(j):
        return isinstance(j, dict) and "boom" in j

    def lit(spec):
        if isinstance(spec, dict):
            if "badmap" in spec:
                return True
            return False  # named caller-side dicts never hold such objects
        return any(obj(k) or obj(v) or (isinstance(v, dict) and "list" in v and items(v["list"])) for k, v in dedup_literal(spec))

    def items(spec):
        if isinstance(spec, dict):
            return "baditer" in spec
        return any(item(i) for i in spec)

    def item(i):
        if "badmap" in i:
            return True
        return "dict" in i and lit(i["dict"])

    if cmd in ("init", "initmsg"):
        return lit(op[-1])
    if cmd == "addgroup":
        return obj(op[2]) or isinstance(op[4], dict) or item(op[3])
    if cmd == "setgroup":
        return obj(op[2]) or items(op[3])
    if cmd == "eqdict":
        return any(obj(k) or obj(v) for k, v in op[2])  # (keys are never spelled twice with such a value by the generator)
    return True


MUTATORS = ("set", "setitem", "del", "addgroup", "setgroup", "init", "initmsg", "iterreplace")
ANY_ERROR = "<any exception>"


def to_py(j):
    """JSON object description -> Python object"""
    E, FMsg, FTag, FIXMessage, FIXContainer = _lib()
    if "boom" in j:
        return Hostile(j["boom"], j.get("how", "str"))
    (k, v), = j.items()
    if k == "odd":
        return Odd(v)
    if k == "strsub":
        return StrSub(v[0], v[1])
    if k == "strenum":
        return Side[v]
    if k == "intenum":
        return IntSide[v]
    if k == "mixint":
        return MixInt[v]
    if k == "i":
        return int(v)
    if k == "s":
        return v
    if k == "ftag":
        return FTag(v)
    if k == "fmsg":
        return FMsg(v)
    if k == "float":
        return float(v)
    if k == "none":
        return None
    if k == "bool":
        return bool(v)
    if k == "bytes":
        return bytes.fromhex(v)
    if k == "cls":
        return class_table()[v]
    raise ValueError(j)


def hx(s: str) -> str:
    return "x" + s.encode("utf-8", "surrogatepass").hex()


def unhx(t: str) -> str:
    return bytes.fromhex(t[1:]).decode("utf-8", "surrogatepass")


def kind_of(e: BaseException) -> str:
    E = _lib()[0]
    exact = {
        E.TagNotFoundError: "TagNotFound",
        E.DuplicatedTagError: "Duplicated",
        E.RepeatingTagError: "Repeating",
        E.UnmappedRepeatedGrpError: "Unmapped",
        E.FIXMessageError: "FIXMessageError",
        KeyError: "Key",
        AttributeError: "Attribute",
        ValueError: "Value",
        TypeError: "Type",
        IndexError: "Index",
        OverflowError: "Overflow",
    }
    return exact.get(type(e), "Other:" + type(e).__name__)


def cls_tok(k) -> str:
    E = _lib()[0]
    if k is E.TagNotFoundError:
        return "c:tnf"
    if k is E.RepeatingTagError:
        return "c:rep"
    if issubclass(k, Exception):
        return "c:exc:" + hx(str(k))
    return "c:oth:" + hx(str(k))


def obj_tok(o) -> str:
    FTag = _lib()[2]
    if isinstance(o, Hostile):
        return "?"
    if isinstance(o, FTag):
        return "f:" + hx(o.value)
    if isinstance(o, enum.Enum):
        return "e:" + hx(str(o))
    if isinstance(o, int) and not isinstance(o, bool):
        return "i:%d" % o
    if type(o) is str:
        return "s:" + hx(o)
    try:
        r = "i%d" % int(o)
    except Exception as e:  # noqa
        r = "E" + kind_of(e)
    return "o:" + hx(str(o)) + ":" + r


def val_tok(v) -> str:
    return cls_tok(v) if isinstance(v, type) else obj_tok(v)


def default_tok(d) -> str:
    if isinstance(d, Hostile):
        return "?"
    if isinstance(d, type):
        return cls_tok(d)
    if type(d) is str:
        return "ds:" + hx(d)
    return "d:" + hx(repr(d))


def ref_str(name, path=()):
    return name + "".join("/%s:%d" % (hx(t), i) for t, i in path)


def parse_ref(r):
    parts = r.split("/")
    path = []
    for seg in parts[1:]:
        t, i = seg.split(":")
        path.append((unhx(t), int(i)))
    return parts[0], path


CALLER_OPS = ("listappend", "listpop", "listreverse", "dictset", "dictdel")


def to_json(o):
    """inverse of to_py"""
    FTag = _lib()[2]
    if isinstance(o, type):
        for n, k in class_table().items():
            if k is o:
                return {"cls": n}
        raise ValueError(o)
    if isinstance(o, FTag):
        return {"ftag": o.value}
    if isinstance(o, enum.Enum):
        return {"fmsg": o.value}
    if isinstance(o, bool):
        return {"bool": o}
    if isinstance(o, int):
        return {"i": o}
    if isinstance(o, str):
        return {"s": o}
    if isinstance(o, float):
        return {"float": repr(o)}
    if o is None:
        return {"none": 1}
    if isinstance(o, bytes):
        return {"bytes": o.hex()}
    if isinstance(o, Odd):
        return {"odd": str(o)}
    raise ValueError(o)


class _Copied:
    """a group item given as a FIXContainer instance: a deep copy of the referenced live container"""

    def __init__(self, obj, ref):
        self.obj, self.ref = obj, ref


class _Shared:
    """a group item that IS a live store object (no copy): Python shares it by reference"""

    def __init__(self, obj, name):
        self.obj, self.name = obj, name


class _Bad:
    def __init__(self, obj):
        self.obj = obj


class _Raising:
    """an argument whose iteration raises midway (mapping or iterable); never tokenised – the model has no such input"""

    def __init__(self, real):
        self.real = real


class _Persistent:
    """a caller-side list / dict object that lives on between operations and is passed again (same object)"""

    def __init__(self, real):
        self.real = real


_SUB = []


def sub_class():
    """a trivial FIXContainer subclass (the decoder passes subclass instances to add_group)"""
    if not _SUB:
        FIXContainer = _lib()[4]
        k = type("_SubContainer", (FIXContainer,), {"__module__": __name__})
        globals()["_SubContainer"] = k
        _SUB.append(k)
    return _SUB[0]


def lit_to_py(spec, impl):
    """dict-literal position: inline [[key, value], …] | {"newdict": name, "lit": […]} | {"usedict": name}
    value: object | {"list": items-spec};  items-spec: [item…] | {"newlist": name, "items": […]} | {"uselist": name}
    item: {"dict": lit} | {"ref": "name/…"[, "sub": true]} (deep copy) | {"share": name} (the live object itself)
          | {"newdict"/"usedict": …} | {"bad": obj}"""
    if isinstance(spec, dict) and "badmap" in spec:
        return _Raising(RaisingDict(_unwrap(lit_to_py(spec["badmap"], impl)), spec["after"], spec["exc"]))
    if isinstance(spec, dict):
        if "usedict" in spec:
            if spec["usedict"] not in impl.pdicts:
                raise LookupError(spec["usedict"])
            return _Persistent(impl.pdicts[spec["usedict"]])
        w = lit_to_py(spec["lit"], impl)
        _no_copies(w)
        real = _unwrap(w)
        impl.pdicts[spec["newdict"]] = real
        return _Persistent(real)
    d = {}
    for k, v in spec:
        key = to_py(k)
        if isinstance(v, dict) and "list" in v:
            d[key] = items_to_py(v["list"], impl)
        else:
            d[key] = to_py(v)
    return d


def items_to_py(spec, impl):
    if isinstance(spec, dict) and "baditer" in spec:
        real = _unwrap([item_to_py(i, impl) for i in spec["baditer"]])
        return _Raising(raising_iter(real, spec["after"], spec["exc"]))
    if isinstance(spec, dict):
        if "uselist" in spec:
            if spec["uselist"] not in impl.plists:
                raise LookupError(spec["uselist"])
            return _Persistent(impl.plists[spec["uselist"]])
        w = [item_to_py(i, impl) for i in spec["items"]]
        _no_copies(w)
        real = _unwrap(w)
        impl.plists[spec["newlist"]] = real
        return _Persistent(real)
    return [item_to_py(i, impl) for i in spec]


def item_to_py(i, impl):
    if "dict" in i:
        return lit_to_py(i["dict"], impl)
    if "badmap" in i:
        return lit_to_py(i, impl)
    if "newdict" in i or "usedict" in i:
        return lit_to_py(i, impl)
    if "share" in i:
        o = impl.store.get(i["share"])
        FIXMessage = _lib()[3]
        if o is None or isinstance(o, FIXMessage):
            raise LookupError(i["share"])
        impl.sharing = True
        return _Shared(o, i["share"])
    if "ref" in i:
        tgt = impl.resolve(i["ref"])
        if tgt is None:
            raise LookupError(i["ref"])
        c = copy.deepcopy(tgt)
        if i.get("sub") and type(c) is _lib()[4]:
            c.__class__ = sub_class()
        return _Copied(c, i["ref"])
    return _Bad(to_py(i["bad"]))


def _no_copies(w):
    """persistent caller-side objects hold only dicts, shared live objects and non-containers (an anonymous copy
    would have no name in the model)"""
    if isinstance(w, _Copied):
        raise LookupError("copy inside a persistent argument")
    if isinstance(w, dict):
        for v in w.values():
            _no_copies(v)
    elif isinstance(w, list):
        for v in w:
            _no_copies(v)


def _unwrap(x):
    """strip the harness wrappers before handing a structure to the implementation"""
    if isinstance(x, (_Copied, _Bad, _Shared)):
        return x.obj
    if isinstance(x, (_Persistent, _Raising)):
        return x.real
    if isinstance(x, dict):
        return {k: _unwrap(v) for k, v in x.items()}
    if isinstance(x, list):
        return [_unwrap(v) for v in x]
    return x


def _held_containers(x, acc):
    """live container objects inside an argument structure (wrappers or real objects)"""
    FIXContainer = _lib()[4]
    if isinstance(x, _Shared):
        acc.append(x.obj)
    elif isinstance(x, _Raising):
        pass
    elif isinstance(x, _Persistent):
        _held_containers(x.real, acc)
    elif isinstance(x, FIXContainer):
        acc.append(x)
    elif isinstance(x, dict):
        for v in x.values():
            _held_containers(v, acc)
    elif isinstance(x, list):
        for v in x:
            _held_containers(v, acc)
    return acc


def dict_toks(d, impl=None):
    if isinstance(d, _Raising):
        return ["?"]
    if isinstance(d, _Persistent):
        d = d.real
    toks = ["{"]
    for k, v in d.items():
        toks.append(obj_tok(k))
        if isinstance(v, (list, _Persistent)):
            toks += list_toks(v, impl)
        else:
            toks.append(val_tok(v))
    toks.append("}")
    return toks


def list_toks(v, impl=None):
    if isinstance(v, _Raising):
        return ["?"]
    if isinstance(v, _Persistent):
        v = v.real
    return ["["] + [t for i in v for t in item_toks(i, impl)] + ["]"]


def item_toks(i, impl=None):
    FIXContainer = _lib()[4]
    if isinstance(i, _Raising):
        return ["?"]
    if isinstance(i, _Persistent):
        i = i.real
    if isinstance(i, dict):
        return dict_toks(i, impl)
    if isinstance(i, _Copied):
        return ["@" + i.ref]
    if isinstance(i, _Shared):
        return ["@" + i.name]
    if isinstance(i, FIXContainer):  # a real object inside a persistent argument: it is a live store object
        return ["@" + impl.name_of(i)]
    return ["bad"]


# ---------------------------------------------------------------------------------------------
# canonical structure dump of implementation objects (same text as Driver/Container.lean dumpCont)
# ---------------------------------------------------------------------------------------------
def _conts(v):
    """the container items of a group value (a defective implementation may let foreign objects in)"""
    return [g for g in v.groups if hasattr(g, "tags")]


def dump_val(v, path=()):
    if isinstance(v, str):
        return strict_str(v)
    if isinstance(v, type):
        return cls_tok(v)
    return "[" + "".join(dump_cont(g, path) for g in v.groups) + "]"


def dump_cont(c, path=()):
    """structure dump; foreign objects and cycles (possible only with a defective implementation) are marked"""
    if not hasattr(c, "tags"):
        return "!" + type(c).__name__
    if id(c) in path:
        return "!cycle"
    path = path + (id(c),)
    return "{" + "".join(hx(t) + "=" + dump_val(v, path) + ";" for t, v in c.tags.items()) + "}"


def dump_entry(o):
    FIXMessage = _lib()[3]
    if isinstance(o, FIXMessage):
        return "M" + hx(str(o.msg_type)) + dump_cont(o)
    return dump_cont(o)


# ---------------------------------------------------------------------------------------------
# executing one operation on the implementation / rendering it as a driver line
# ---------------------------------------------------------------------------------------------
class Impl:
    """store of live implementation objects"""

    def __init__(self):
        self.store = {}
        self.plists, self.pdicts = {}, {}  # caller-side list / dict objects that are passed more than once
        self.sharing = False  # has any live object / persistent argument been handed over yet

    def name_of(self, obj):
        for n, o in self.store.items():
            if o is obj:
                return n
        raise LookupError("object is not a live store entry")

    def multiplicity(self):
        """id -> number of places (store roots and group items) that hold the object"""
        cnt = {}

        def walk(o, depth):
            cnt[id(o)] = cnt.get(id(o), 0) + 1
            if depth > 8:
                return
            for v in o.tags.values():
                if not isinstance(v, (str, type)):
                    for g in _conts(v):
                        walk(g, depth + 1)

        for o in self.store.values():
            walk(o, 0)
        return cnt

    def exclusive(self, o):
        return not self.sharing or self.multiplicity().get(id(o), 0) <= 1

    def reaches(self, src, tgt, depth=0):
        if src is tgt:
            return True
        if depth > 8:
            return True
        for v in src.tags.values():
            if not isinstance(v, (str, type)):
                for g in _conts(v):
                    if self.reaches(g, tgt, depth + 1):
                        return True
        return False

    def resolve(self, r):
        name, path = parse_ref(r)
        o = self.store.get(name)
        if o is None:
            return None
        for t, i in path:
            v = o.tags.get(t)
            if v is None or isinstance(v, (str, type)) or not (0 <= i < len(v.groups)):
                return None
            o = v.groups[i]
            if not hasattr(o, "tags"):
                return None
        return o

    def dumpall(self):
        return " ".join(n + "=" + dump_entry(o) for n, o in self.store.items())

    def run(self, op):
        """returns (reply, driver line).  The line is computed from the same Python objects."""
        E, FMsg, FTag, FIXMessage, FIXContainer = _lib()
        cmd = op[0]
        try:
            reply, line = self._run(cmd, op, FIXMessage, FIXContainer)
        except LookupError:
            return "bad-op", "cont.bad"
        if is_hostile_op(op):
            # an argument object whose conversion raises is outside the model (values are strings there): a call that
            # raised is no model step at all (the state comparison that follows shows whether anything changed); a
            # call that did NOT raise has no counterpart and is reported as it is (`pong` is what the model answers)
            self.last_hostile = reply
            if cmd not in MUTATORS:
                return "pong", "ping"  # a reader may or may not touch the object; only "nothing changed" is compared
            return ("pong" if isinstance(reply, str) and reply.startswith("err ") else reply), "ping"
        return reply, line

    def _run(self, cmd, op, FIXMessage, FIXContainer):
        def guard(f, okfmt=lambda r: "ok"):
            try:
                r = f()
            except RecursionError:
                return "err Recursion"
            except (KeyboardInterrupt, SystemExit):
                raise
            except BaseException as e:  # noqa  (HardBoom: a BaseException raised by an argument object)
                return "err " + kind_of(e)
            return okfmt(r)

        def need(r):
            o = self.resolve(r)
            if o is None:
                raise LookupError(r)
            return o

        def need_own(r, args=None):
            """the target of a mutator: held in exactly one place (a shared object changes for every holder – Python
            reference semantics, outside the value model), and not reachable from the arguments (no cycles)"""
            o = need(r)
            if not self.exclusive(o):
                raise LookupError("shared object as mutation target")
            for h in _held_containers(args, []) if args is not None else []:
                if self.reaches(h, o):
                    raise LookupError("cycle")
            return o

        if cmd == "reset":
            self.store, self.plists, self.pdicts, self.sharing = {}, {}, {}, False
            return "ok", "cont.reset"
        if cmd in CALLER_OPS:
            # the caller mutates an argument object it passed (or will pass) to the container: no model step
            if cmd in ("listappend", "listpop", "listreverse"):
                if op[1] not in self.plists:
                    raise LookupError(op[1])
                lst = self.plists[op[1]]
                if cmd == "listappend":
                    w = item_to_py(op[2], self)
                    _no_copies(w)
                    lst.append(_unwrap(w))
                elif cmd == "listpop":
                    if lst:
                        lst.pop()
                else:
                    lst.reverse()
            else:
                if op[1] not in self.pdicts:
                    raise LookupError(op[1])
                d = self.pdicts[op[1]]
                if cmd == "dictset":
                    d[to_py(op[2])] = to_py(op[3])
                else:
                    d.pop(to_py(op[2]), None)
            return "pong", "ping"
        if cmd == "iterreplace":
            # mutate while iterating: replacing values during `for t, v in c.items()` is legal for a dict
            o = need_own(op[1])
            v = to_py(op[2])
            lines, replies = [], []

            def f():
                for t, old in o.items():
                    if isinstance(old, str):
                        lines.append(f"cont.set {op[1]} {obj_tok(t)} {val_tok(v)} 1")
                        o.set(t, v, replace=True)
                        replies.append("ok")

            r = guard(f)
            if not lines:
                return "pong", "ping"
            if r != "ok":
                replies.append(r)
                lines.append("ping")
            return replies, lines
        if cmd == "new":
            self.store[op[1]] = FIXContainer()
            return "ok", "cont.new " + op[1]
        if cmd in ("init", "initmsg"):
            name = op[1]
            d = lit_to_py(op[-1], self)
            line_d = " ".join(dict_toks(d, self))
            real = _unwrap(d)
            if cmd == "init":
                line = f"cont.init {name} {line_d}"
                mk = lambda: FIXContainer(real)  # noqa
            else:
                mt = to_py(op[2])
                line = f"cont.initmsg {name} {hx(str(mt))} {line_d}"
                mk = lambda: FIXMessage(mt, real)  # noqa

            def f():
                o = mk()
                self.store[name] = o

            return guard(f), line
        if cmd == "copy":
            o = need(op[1])

            def f():
                how = op[3] if len(op) > 3 else "pickle"
                self.store[op[2]] = pickle.loads(pickle.dumps(o)) if how == "pickle" else copy.deepcopy(o)

            f()
            return "ok", f"cont.copy {op[1]} {op[2]}"
        if cmd == "msgtype":
            o = self.store.get(op[1])
            if not isinstance(o, FIXMessage):
                raise LookupError(op[1])
            return hx(str(o.msg_type)), "cont.msgtype " + op[1]
        if cmd == "setmsgtype":
            o = self.store.get(op[1])
            if o is None:
                raise LookupError(op[1])
            if not isinstance(o, FIXMessage):
                raise LookupError(op[1])
            mt = to_py(op[2])
            o.msg_type = mt
            return "ok", f"cont.setmsgtype {op[1]} {hx(str(mt))}"
        if cmd in ("set", "setitem"):
            o = need_own(op[1])
            t, v, rep = to_py(op[2]), to_py(op[3]), bool(op[4]) if cmd == "set" else False
            line = f"cont.set {op[1]} {obj_tok(t)} {val_tok(v)} {1 if rep else 0}"
            if cmd == "setitem":
                return guard(lambda: o.__setitem__(t, v)), line
            return guard(lambda: o.set(t, v, replace=rep) if rep else o.set(t, v)), line
        if cmd == "del":
            o = need_own(op[1])
            t = to_py(op[2])
            return guard(lambda: o.__delitem__(t)), f"cont.del {op[1]} {obj_tok(t)}"
        if cmd == "addgroup":
            t = to_py(op[2])
            item = item_to_py(op[3], self)
            o = need_own(op[1], item)
            idx = op[4]
            if isinstance(idx, dict):  # an index that is not an int (float, None, an object whose __index__ raises)
                hidx = to_py(idx)
                return guard(lambda: o.add_group(t, _unwrap(item), hidx)), "ping"
            toks = " ".join(item_toks(item, self))
            real = _unwrap(item)
            line = f"cont.addgroup {op[1]} {obj_tok(t)} {-1 if idx is None else idx} {toks}"
            if idx is None:
                return guard(lambda: o.add_group(t, real)), line
            return guard(lambda: o.add_group(t, real, idx)), line
        if cmd == "setgroup":
            t = to_py(op[2])
            items = items_to_py(op[3], self)
            o = need_own(op[1], items)
            toks = " ".join(list_toks(items, self))
            real = _unwrap(items)
            return guard(lambda: o.set_group(t, real)), f"cont.setgroup {op[1]} {obj_tok(t)} {toks}"

        def fmt_get(r):
            if isinstance(r, type):
                return "cls " + cls_tok(r)
            if isinstance(r, str):
                return "str " + hx(r) if type(r) is str else "str " + strict_str(r)
            return "dflt " + hx(repr(r))

        if cmd == "get":
            o = need(op[1])
            t, d = to_py(op[2]), to_py(op[3])
            return guard(lambda: o.get(t, d), fmt_get), f"cont.get {op[1]} {obj_tok(t)} {default_tok(d)}"
        if cmd == "getitem":
            o = need(op[1])
            t = to_py(op[2])
            return guard(lambda: o[t], fmt_get), f"cont.getitem {op[1]} {obj_tok(t)}"
        if cmd == "isgroup":
            o = need(op[1])
            t = to_py(op[2])
            return guard(lambda: o.is_group(t), lambda r: str(r)), f"cont.isgroup {op[1]} {obj_tok(t)}"
        if cmd == "contains":
            o = need(op[1])
            t = to_py(op[2])
            return guard(lambda: t in o, lambda r: str(r)), f"cont.contains {op[1]} {obj_tok(t)}"
        if cmd == "grouplist":
            o = need(op[1])
            t = to_py(op[2])
            return (
                guard(lambda: o.get_group_list(t), lambda r: "list " + " ".join(dump_cont(g) for g in r)),
                f"cont.grouplist {op[1]} {obj_tok(t)}",
            )
        if cmd == "byindex":
            o = need(op[1])
            t = to_py(op[2])
            return (
                guard(lambda: o.get_group_by_index(t, op[3]), lambda r: "cont " + dump_cont(r)),
                f"cont.byindex {op[1]} {obj_tok(t)} {op[3]}",
            )
        if cmd == "bytag":
            o = need(op[1])
            t, gt, gv = to_py(op[2]), to_py(op[3]), to_py(op[4])
            return (
                guard(lambda: o.get_group_by_tag(t, gt, gv), lambda r: "cont " + dump_cont(r)),
                f"cont.bytag {op[1]} {obj_tok(t)} {obj_tok(gt)} {obj_tok(gv)}",
            )
        if cmd == "query":
            o = need(op[1])
            ts = [to_py(t) for t in op[2]]

            def fmt(r):
                def one(v):
                    if isinstance(v, type):
                        return cls_tok(v)
                    if isinstance(v, str):
                        return strict_str(v)
                    return "d" + hx(repr(v))

                return "dict " + " ".join(hx(str(k)) + "=" + one(v) for k, v in r.items())

            return guard(lambda: o.query(*ts), fmt), "cont.query " + " ".join([op[1]] + [obj_tok(t) for t in ts])
        if cmd == "eq":
            a, b = need(op[1]), need(op[2])
            return guard(lambda: a == b, lambda r: str(r)), f"cont.eq {op[1]} {op[2]}"
        if cmd == "eqdict":
            o = need(op[1])
            d = {to_py(k): to_py(v) for k, v in op[2]}
            toks = " ".join(["{"] + [x for k, v in d.items() for x in (obj_tok(k), obj_tok(v))] + ["}"])
            return guard(lambda: o == d, lambda r: str(r)), f"cont.eqdict {op[1]} {toks}"
        if cmd == "str":
            o = need(op[1])
            return guard(lambda: str(o), hx), "cont.str " + op[1]
        if cmd == "repr":
            o = need(op[1])
            return guard(lambda: repr(o), hx), "cont.repr " + op[1]
        raise ValueError(op)


def run_sequences(seqs, drv=None):
    """Run sequences on the implementation, then the recorded lines on the model. Returns
    (evaluations, disagreements, stats, per-seq transcripts)."""
    lines, expect, owners = [], [], []
    stats = {"ops": {}, "replies": {}, "lengths": {}, "max_depth": 0,
             "aliasing": {"ops_with_reused_argument_object": 0, "ops_with_shared_item_object": 0, "caller_side_mutations": 0,
                          "states_with_an_object_held_twice": 0, "max_tags": 0, "max_group_items": 0}}
    al = stats["aliasing"]
    for si, seq in enumerate(seqs):
        impl = Impl()
        lines.append("cont.reset")
        expect.append("ok")
        owners.append((si, -1))
        for oi, op in enumerate(seq):
            reply, line = impl.run(op)
            if isinstance(line, list):  # one Python call that is several model steps (mutation while iterating)
                for r1, l1 in zip(reply[:-1], line[:-1]):
                    lines.append(l1)
                    expect.append(r1)
                    owners.append((si, oi))
                reply, line = reply[-1], line[-1]
            lines.append(line)
            expect.append(reply)
            owners.append((si, oi))
            js = json.dumps(op)
            if '"uselist"' in js or '"usedict"' in js:
                al["ops_with_reused_argument_object"] += 1
            if '"share"' in js:
                al["ops_with_shared_item_object"] += 1
            if op[0] in CALLER_OPS:
                al["caller_side_mutations"] += 1
            if is_hostile_op(op):
                al["ops_with_raising_argument_object"] = al.get("ops_with_raising_argument_object", 0) + 1
                k = "raising_argument:" + op[0] + ":" + str(getattr(impl, "last_hostile", "?"))[:40]
                stats["replies"][k] = stats["replies"].get(k, 0) + 1
            if impl.sharing and any(v > 1 for v in impl.multiplicity().values()):
                al["states_with_an_object_held_twice"] += 1
            for o in impl.store.values():
                al["max_tags"] = max(al["max_tags"], len(o.tags))
                for v in o.tags.values():
                    if not isinstance(v, (str, type)):
                        al["max_group_items"] = max(al["max_group_items"], len(v.groups))
            lines.append("cont.dumpall")
            expect.append(impl.dumpall())
            owners.append((si, oi))
            stats["ops"][op[0]] = stats["ops"].get(op[0], 0) + 1
            rk = reply if reply.startswith("err ") or reply in ("ok", "True", "False", "None", "bad-op") else reply.split(" ")[0][:4]
            key = op[0] + ":" + rk
            stats["replies"][key] = stats["replies"].get(key, 0) + 1
        stats["lengths"][len(seq)] = stats["lengths"].get(len(seq), 0) + 1
    drv = drv or C.Driver()
    got = drv.batch(lines)
    dis, bad_seq = [], set()
    for (si, oi), line, e, g in zip(owners, lines, expect, got):
        if e != g and si not in bad_seq:
            bad_seq.add(si)
            dis.append({"input": {"seq": si, "op_index": oi, "ops": seqs[si][: oi + 1], "line": line}, "model": g, "impl": e})
    return len(lines), dis, stats, (lines, expect, got)


# ---------------------------------------------------------------------------------------------
# generators
# ---------------------------------------------------------------------------------------------
def J_i(n):
    return {"i": n}


def J_s(s):
    return {"s": s}


CLEAN_TAGS = [J_i(1), J_i(2), J_i(3), J_i(5), J_i(6), J_i(8), J_i(9), J_i(10), J_i(35), J_i(5000), J_i(454),
              J_s("1"), J_s("2"), J_s("3"), J_s("5"), J_s("35"), J_s("8"), J_s("5000"),
              {"ftag": "1"}, {"ftag": "2"}, {"ftag": "5"}, {"ftag": "8"}, {"ftag": "35"}, {"ftag": "10"}, {"ftag": "454"}]
ODD_TAGS = [J_s("01"), J_s(" 1"), J_s("-1"), J_i(-1), J_i(0), J_s("1.0"), {"float": "1.0"}, {"bool": True}, J_s("x"),
            J_s("١"), J_s("1_0"), J_s(""), J_s("+2"), J_s("2 "), {"none": 1}, {"bytes": "33"}, J_s("a=b|c"),
            J_s("٢ "), J_s("1__0"), J_i(10 ** 30), {"odd": "7"}, {"odd": ""}, {"odd": " 7"}, {"odd": "x"}, J_s("9" * 4301), J_s("1" * 4300), {"fmsg": "A"}, {"fmsg": "1"}, J_s("\x1c1"), J_s("\ud800")]
STR_VALUES = ["a", "b", "c", "", "a|2=b", "x=y", ">", "[", "]", "1=>[2=x]", "#err#", "a, 2=b", "<class 'int'>", "0=>[]",
              "héllo", "5", "A", "1", " ", "|", "a|b", "\x01", "a\nb", "x" * 300, "8=FIX.4.4\x019=5"]
OTHER_VALUES = [{"strsub": ["1", "one"]}, {"strsub": ["a", "a"]}, {"strsub": ["", "x|2=y"]}, {"strenum": "BUY"}, {"strenum": "SELL"},
                {"intenum": "ONE"}, {"mixint": "SEVEN"}, {"ftag": "35"}, {"odd": ""}, {"odd": "odd|1=x"}, J_i(5), J_i(-3), J_i(0), {"float": "1.5"}, {"float": "1e22"}, {"float": "nan"}, {"fmsg": "A"}, {"fmsg": "D"},
                {"ftag": "1"}, {"none": 1}, {"bytes": "78"}, {"bool": True}, J_i(10 ** 25)]
CLS_VALUES = [{"cls": n} for n in ("TagNotFoundError", "RepeatingTagError", "ValueError", "int", "str", "KeyboardInterrupt", "DuplicatedTagError")]
DEFAULTS = [{"none": 1}, J_s("dflt"), J_i(0), {"float": "2.5"}, {"cls": "TagNotFoundError"}, {"cls": "RepeatingTagError"},
            {"cls": "int"}, {"cls": "ValueError"}, J_s("a")]


class Gen:
    def __init__(self, rng, odd=0.12, cls=0.06, clean_only=False):
        self.r, self.odd, self.cls, self.clean_only = rng, odd, cls, clean_only

    def tag(self):
        r = self.r
        if not self.clean_only and r.random() < self.odd:
            return r.choice(ODD_TAGS)
        return r.choice(CLEAN_TAGS)

    def value(self):
        r = self.r
        x = r.random()
        if not self.clean_only and x < self.cls:
            return r.choice(CLS_VALUES)
        if x < 0.7:
            return J_s(r.choice(STR_VALUES))
        return r.choice(OTHER_VALUES)

    def dictlit(self, depth, refs, maxn=4):
        r = self.r
        out = []
        if depth == 0 and r.random() < 0.012:
            # a big one: dozens of tags, a group with ≥ 10 items (two-digit counts)
            tags = r.sample(range(100, 900), r.randint(25, 45))
            out = [[J_i(t) if r.random() < 0.5 else J_s(str(t)), self.value()] for t in tags]
            out.insert(r.randrange(len(out)), [J_i(99), {"list": [{"dict": [[J_i(1), J_s(str(i))]]} for i in range(r.randint(10, 14))]}])
            return out
        for _ in range(r.choice([0, 1, 1, 2, 2, 3, maxn])):
            if depth < 3 and r.random() < 0.22:
                out.append([self.tag(), {"list": self.items(depth + 1, refs)}])
            else:
                out.append([self.tag(), self.value()])
        return out

    def item(self, depth, refs):
        r = self.r
        x = r.random()
        if x < 0.03 and not self.clean_only:
            return {"bad": r.choice([J_s("x"), J_i(5), {"none": 1}])}
        if x < 0.2 and refs:
            return {"ref": r.choice(refs), "sub": True} if r.random() < 0.2 else {"ref": r.choice(refs)}
        return {"dict": self.dictlit(depth, refs, 3)}

    def items(self, depth, refs):
        return [self.item(depth, refs) for _ in range(self.r.choice([0, 1, 1, 2, 3]))]


def live_refs(impl, include_msgs=True):
    """every addressable container (name or nested path, depth ≤ 3)"""
    FIXMessage = _lib()[3]
    out = []

    def walk(o, name, path, depth):
        out.append((ref_str(name, path), o, depth))
        if depth >= 3:
            return
        for t, v in o.tags.items():
            if not isinstance(v, (str, type)):
                for i, g in enumerate(v.groups):
                    if hasattr(g, "tags"):
                        walk(g, name, path + [(t, i)], depth + 1)

    for n, o in impl.store.items():
        walk(o, n, [], 0)
    return out


def present_tags(o):
    return [J_s(t) for t in o.tags.keys()]


BOOM_POOL = ["Boom", "Boom", "HardBoom", "KeyError", "TypeError", "AttributeError", "ValueError", "StopIteration",
             "MemoryError", "FIXMessageError", "TagNotFoundError", "DuplicatedTagError"]


def hostilize(rng, op):
    """put an argument object whose conversion / iteration raises somewhere into the operation (at a random depth and
    position: first, middle or last entry / item), or None if the operation has no place for one"""
    op = json.loads(json.dumps(op))
    cmd = op[0]

    def boom():
        b = {"boom": rng.choice(BOOM_POOL)}
        if rng.random() < 0.1:
            b["how"] = "nonstr"
        return b

    def spoil_lit(lit):
        """make one entry of a literal hostile (value or key), possibly inside a nested item; or make the whole mapping
        break midway"""
        if isinstance(lit, dict) or not isinstance(lit, list):
            return None
        y = rng.random()
        if y < 0.25 and lit:
            return {"badmap": lit, "after": rng.randrange(len(lit)), "exc": rng.choice(BOOM_POOL)}
        nested = [i for i, (k, v) in enumerate(lit) if isinstance(v, dict) and isinstance(v.get("list"), list) and v["list"]]
        if nested and y < 0.55:
            i = rng.choice(nested)
            new = spoil_items(lit[i][1]["list"])
            if new is not None:
                lit[i][1] = {"list": new}
                return lit
        pos = rng.randrange(len(lit) + 1)
        entry = [boom(), J_s("v")] if rng.random() < 0.3 else [J_i(rng.choice([11, 55, 58, 100 + rng.randrange(800)])), boom()]
        lit.insert(pos, entry)
        return lit

    def spoil_items(items, top=False):
        if not isinstance(items, list):
            return None
        y = rng.random()
        if y < 0.2 and top:  # (nested in a dict literal a non-list iterable is an ordinary plain value)
            return {"baditer": items, "after": rng.randrange(len(items) + 1), "exc": rng.choice(BOOM_POOL)}
        dicts = [i for i, it in enumerate(items) if "dict" in it and isinstance(it["dict"], list)]
        if dicts and y < 0.75:
            i = rng.choice(dicts)
            new = spoil_lit(items[i]["dict"])
            if new is None:
                return None
            items[i] = {"dict": new} if isinstance(new, list) else new
            return items
        items.insert(rng.randrange(len(items) + 1), {"dict": [[J_i(1), J_s("ok")], [J_i(2), boom()]][: rng.choice([1, 2, 2])] + [[J_i(3), boom()]]})
        return items

    if cmd in ("set", "setitem"):
        op[rng.choice([2, 3, 3])] = boom()
        return op
    if cmd in ("del", "get", "getitem", "contains", "isgroup", "grouplist", "byindex"):
        op[2] = boom()
        return op
    if cmd == "bytag":
        op[rng.choice([2, 3, 4, 4])] = boom()
        return op
    if cmd == "query":
        op[2] = list(op[2]) + [boom()]
        rng.shuffle(op[2])
        return op
    if cmd == "eqdict":
        if not op[2]:
            return None
        op[2][rng.randrange(len(op[2]))][1] = boom()
        return op
    if cmd == "addgroup":
        y = rng.random()
        if y < 0.2:
            op[2] = boom()
        elif y < 0.4:
            op[4] = rng.choice([{"float": "1.5"}, {"none": 1}, boom(), {"s": "0"}])
        elif "dict" in op[3] and isinstance(op[3]["dict"], list):
            new = spoil_lit(op[3]["dict"])
            if new is None:
                return None
            op[3] = {"dict": new} if isinstance(new, list) else new
        else:
            op[3] = {"dict": [[J_i(1), J_s("ok")], [J_i(2), boom()]]}
        return op
    if cmd == "setgroup":
        if rng.random() < 0.15:
            op[2] = boom()
            return op
        new = spoil_items(op[3], top=True)
        if new is None:
            return None
        op[3] = new
        return op
    if cmd in ("init", "initmsg"):
        new = spoil_lit(op[-1])
        if new is None:
            return None
        op[-1] = new
        return op
    return None


def gen_sequence(rng, maxlen=30, odd=0.12, cls=0.06, clean_only=False, alias=0.12, hostile=0.03):
    """generate while executing on the implementation (so that operations mostly address existing tags).
    `alias`: how often argument objects (lists, dicts, item containers) are REUSED between operations / containers
    and mutated by the caller afterwards"""
    g = Gen(rng, odd, cls, clean_only)
    FIXMessage = _lib()[3]
    impl = Impl()
    seq = []
    names = ["a", "b", "c", "d"]
    counter = [0]

    def emit(op):
        if hostile and rng.random() < hostile:
            # the same call once more, BEFORE the real one, with an argument object whose conversion raises: it must fail
            # and change nothing, and the real call afterwards must behave as if the failed one had never happened
            h = hostilize(rng, op)
            if h is not None and is_hostile_op(h):
                impl.run(h)
                seq.append(h)
        impl.run(op)
        seq.append(op)

    def fresh(prefix):
        counter[0] += 1
        return f"{prefix}{counter[0]}"

    def holders(exclude_root=None):
        return [n for n, o in impl.store.items() if not isinstance(o, FIXMessage) and n != exclude_root]

    def shared_item(exclude_root=None):
        hs = holders(exclude_root)
        if hs and rng.random() < 0.7:
            return {"share": rng.choice(hs)}
        if impl.pdicts and rng.random() < 0.5:
            return {"usedict": rng.choice(list(impl.pdicts))}
        return {"newdict": fresh("D"), "lit": g.dictlit(3, [], 2)}

    def plist_spec(exclude_root=None):
        """a caller-side list object: a new one, or one that was passed before"""
        if impl.plists and rng.random() < 0.55:
            return {"uselist": rng.choice(list(impl.plists))}
        kind = rng.random()
        n = rng.choice([0, 1, 1, 2, 2, 3])
        items = []
        for _ in range(n):
            hs = holders(exclude_root)
            if hs and (kind < 0.45 or (kind < 0.8 and rng.random() < 0.5)):
                items.append({"share": rng.choice(hs)})
            else:
                items.append({"dict": g.dictlit(3, [], 2)})
        return {"newlist": fresh("L"), "items": items}

    def pdict_spec(exclude_root=None):
        if impl.pdicts and rng.random() < 0.5:
            return {"usedict": rng.choice(list(impl.pdicts))}
        lit = [[g.tag(), g.value()] for _ in range(rng.choice([0, 1, 2, 3]))]
        if rng.random() < 0.6:
            lit.insert(rng.randrange(len(lit) + 1), [g.tag(), {"list": plist_spec(exclude_root)}])
        return {"newdict": fresh("D"), "lit": lit}

    def caller_op():
        if impl.plists and (not impl.pdicts or rng.random() < 0.6):
            L = rng.choice(list(impl.plists))
            y = rng.random()
            if y < 0.6:
                hs = holders()
                it = {"share": rng.choice(hs)} if hs and rng.random() < 0.6 else {"dict": g.dictlit(3, [], 2)}
                return ["listappend", L, it]
            return ["listpop", L] if y < 0.85 else ["listreverse", L]
        D = rng.choice(list(impl.pdicts))
        return ["dictset", D, g.tag(), g.value()] if rng.random() < 0.7 else ["dictdel", D, g.tag()]

    # constructors
    for n in names[: rng.choice([1, 2, 2, 3])]:
        x = rng.random()
        if x < 0.3:
            emit(["new", n])
        elif x < 0.8:
            emit(["init", n, g.dictlit(0, [])])
        else:
            emit(["initmsg", n, rng.choice([{"fmsg": "D"}, J_s("8"), {"fmsg": "A"}]), g.dictlit(0, [])])
    if not impl.store:
        emit(["new", "a"])
    if rng.random() < alias * 2:
        # small containers that will be handed over as ready-made group items
        for n in ("p", "q")[: rng.choice([1, 2])]:
            emit(["init", n, [[g.tag(), g.value()] for _ in range(rng.choice([0, 1, 2]))]])
    n_ops = rng.randint(3, maxlen if rng.random() > 0.03 else maxlen * 3)
    while len(seq) < n_ops:
        if (impl.plists or impl.pdicts) and rng.random() < alias * 0.25:
            emit(caller_op())
            continue
        refs = live_refs(impl)
        mult = impl.multiplicity() if impl.sharing else {}
        own = [x for x in refs if mult.get(id(x[1]), 0) <= 1] or refs  # objects held in one place only may be mutated
        ref, obj, depth = rng.choice(own) if rng.random() < 0.45 else own[0] if rng.random() < 0.3 else rng.choice([x for x in own if x[2] == 0] or own)
        root = parse_ref(ref)[0]
        item_refs = [r for r, o, d in refs if not isinstance(o, FIXMessage)]
        if rng.random() < alias * 0.35:
            # hand a caller-side list / dict object (possibly one that was passed before) to a container
            if rng.random() < 0.65:
                emit(["setgroup", ref, g.tag(), plist_spec(root)])
            else:
                free = [n for n in names if n not in impl.store] or names[1:]
                emit(["init", rng.choice(free), pdict_spec()])
            continue

        def t():
            pt = present_tags(obj)
            if pt and rng.random() < 0.55:
                k = rng.choice(pt)
                # respell a present canonical key now and then
                s = k["s"]
                if len(s) < 100 and s.isascii() and s.isdigit() and str(int(s)) == s and rng.random() < 0.5:
                    FTag = _lib()[2]
                    return rng.choice([J_i(int(s))] + ([{"ftag": s}] if s in FTag._value2member_map_ else []))
                return k
            return g.tag()

        def gtags():
            return [J_s(k) for k, v in obj.tags.items() if not isinstance(v, (str, type))]

        def gt():
            gs = gtags()
            return rng.choice(gs) if gs and rng.random() < 0.85 else t()

        x = rng.random() * 100
        if 65 <= x < 80 and rng.random() < 0.8:
            with_groups = [r for r in refs if any(not isinstance(v, (str, type)) and v.groups for v in r[1].tags.values())]
            if with_groups:
                ref, obj, depth = rng.choice(with_groups)
        if x < 20:
            emit(["set", ref, t(), g.value(), False])
        elif x < 25:
            emit(["setitem", ref, t(), g.value()])
        elif x < 33:
            emit(["set", ref, t(), g.value(), True])
        elif x < 40:
            emit(["get", ref, t(), rng.choice(DEFAULTS)])
        elif x < 44:
            emit(["getitem", ref, t()])
        elif x < 49:
            emit(["del", ref, t()])
        elif x < 52:
            emit(["contains", ref, t()])
        elif x < 55:
            emit(["isgroup", ref, t()])
        elif x < 65:
            idx = rng.choice([None, None, -1, 0, 1, 2, -2, -3, 5, -7, 100, -100])
            y = rng.random()
            it = shared_item(root) if rng.random() < alias else g.item(depth + 1, item_refs)
            emit(["addgroup", ref, gt() if y < 0.6 else (g.tag() if y < 0.85 else t()), it, idx])
        elif x < 69:
            its = plist_spec(root) if rng.random() < alias * 2.5 else g.items(depth + 1, item_refs)
            emit(["setgroup", ref, t() if rng.random() < 0.5 else g.tag(), its])
        elif x < 72:
            emit(["grouplist", ref, gt()])
        elif x < 76:
            emit(["byindex", ref, gt(), rng.choice([0, 0, 1, 2, -1, -2, -3, 3, -4, 7, -9])])
        elif x < 80:
            # look for a value that exists in some item
            tagj, cands = gt(), []
            v = obj.tags.get(str(to_py(tagj)))
            if v is not None and not isinstance(v, (str, type)):
                for it in _conts(v):
                    for k2, v2 in it.tags.items():
                        cands.append((J_s(k2), v2))
            if cands and rng.random() < 0.8:
                k2, v2 = rng.choice(cands)
                if isinstance(v2, str):
                    gv = rng.choice([J_s(v2), J_s(v2), J_s(v2 + "x")] + ([{"fmsg": v2}] if v2 in ("A", "D") else []) + ([J_i(int(v2))] if v2 == "5" else []))
                else:
                    gv = J_s("a")
                emit(["bytag", ref, tagj, k2, gv])
            else:
                emit(["bytag", ref, tagj, g.tag(), g.value() if rng.random() < 0.3 else J_s("a")])
        elif x < 84:
            k = rng.choice([0, 1, 2, 3])
            emit(["query", ref, [t() for _ in range(k)]])
        elif x < 88:
            free = [n for n in names if n not in impl.store] or names[1:]
            tw = gen_twin(rng, g, obj) if rng.random() < 0.6 else None
            if tw is not None:
                nm = rng.choice(free)
                if not ref.startswith(nm):
                    emit(["init", nm, tw])
                    emit(["eq", ref, nm] if rng.random() < 0.5 else ["eq", nm, ref])
                    continue
            other = rng.choice(refs)[0]
            emit(["eq", ref, other])
        elif x < 93:
            emit(["eqdict", ref, gen_eqdict(rng, g, obj)])
        elif x < 94:
            emit(["str", ref])
        elif x < 95:
            emit(["repr", ref])
        elif x < 97:
            free = [n for n in names if n not in impl.store] or names[1:]
            emit(["copy", ref, rng.choice(free), rng.choice(["pickle", "pickle", "deepcopy"])])
        elif x < 98.5:
            free = [n for n in names if n not in impl.store] or names[1:]
            if rng.random() < alias * 2.5:
                emit(["init", rng.choice(free), pdict_spec()])
            elif rng.random() < 0.15:
                emit(["iterreplace", ref, g.value()])
            else:
                emit(["init", rng.choice(free), g.dictlit(0, item_refs)])
        else:
            msgs = [n for n, o in impl.store.items() if isinstance(o, FIXMessage)]
            if msgs:
                n = rng.choice(msgs)
                emit(["setmsgtype", n, rng.choice([{"fmsg": "8"}, J_s("X")])] if rng.random() < 0.5 else ["msgtype", n])
                emit(["repr", n])
            else:
                emit(["str", ref])
    return seq


def literal_of(obj, depth=0):
    """a dict literal (JSON form) that rebuilds the content of a live container; None if it holds class objects"""
    if depth > 6:
        return None
    out = []
    for t, v in obj.tags.items():
        if isinstance(v, type):
            return None
        if isinstance(v, str):
            out.append([J_s(t), J_s(v)])
        else:
            items = []
            for g in _conts(v):
                sub = literal_of(g, depth + 1)
                if sub is None:
                    return None
                items.append({"dict": sub})
            out.append([J_s(t), {"list": items}])
    return out


def gen_twin(rng, g, obj):
    """a near copy of a container: same, permuted, one value changed, one entry dropped / added, nested change"""
    lit = literal_of(obj)
    if lit is None:
        return None
    x = rng.random()
    if x < 0.3:
        pass
    elif x < 0.55 and len(lit) > 1:
        rng.shuffle(lit)
    elif x < 0.7 and lit:
        i = rng.randrange(len(lit))
        if not (isinstance(lit[i][1], dict) and "list" in lit[i][1]):
            lit[i] = [lit[i][0], g.value()]
        elif lit[i][1]["list"]:
            items = lit[i][1]["list"]
            if len(items) > 1 and rng.random() < 0.5:
                items.reverse()
            else:
                items[rng.randrange(len(items))] = {"dict": g.dictlit(3, [], 2)}
    elif x < 0.8 and lit:
        del lit[rng.randrange(len(lit))]
    elif x < 0.9:
        lit.append([g.tag(), g.value()])
    else:
        # merge two plain neighbours into one value the way the rendering would show them
        for i in range(len(lit) - 1):
            a, b = lit[i], lit[i + 1]
            if "s" in a[1] and "s" in b[1]:
                lit[i: i + 2] = [[a[0], J_s(a[1]["s"] + "|" + to_py(b[0]) + "=" + b[1]["s"])]]
                break
    return lit


def gen_eqdict(rng, g, obj):
    """a dict that is close to the container's own content"""
    items = []
    for k, v in obj.tags.items():
        if isinstance(v, str):
            items.append([J_s(k), J_s(v)])
        elif isinstance(v, type):
            items.append([J_s(k), J_s("#err#")])
        elif rng.random() < 0.3:
            items.append([J_s(k), J_s("grp")])
    x = rng.random()
    if x < 0.25:
        pass
    elif x < 0.4:
        rng.shuffle(items)
    elif x < 0.55 and items:
        i = rng.randrange(len(items))
        items[i] = [items[i][0], g.value() if not g.clean_only else J_s("zz")]
    elif x < 0.7:
        items.append([rng.choice([J_i(8), J_i(9), J_i(10), J_i(35), {"ftag": "8"}, J_s("35")]), J_s(rng.choice(["FIX.4.4", "a", "D"]))])
    elif x < 0.8 and items:
        del items[rng.randrange(len(items))]
    elif x < 0.9:
        items.append([g.tag(), g.value() if not g.clean_only else J_s("q")])
    else:
        items = [[k, v] for k, v in items if str(to_py(k)) not in ("8", "9", "10", "35")]
    # respell keys, re-type values
    out = []
    for k, v in items:
        s = to_py(k)
        if isinstance(s, str) and len(s) < 100 and s.isascii() and s.isdigit() and str(int(s)) == s and rng.random() < 0.5:
            k = J_i(int(s))
        pv = to_py(v)
        if isinstance(pv, str) and len(pv) < 100 and pv.lstrip("-").isdigit() and pv.isascii() and str(int(pv)) == pv and rng.random() < 0.5:
            v = J_i(int(pv))
        out.append([k, v])
    # one tag spelled twice: 1 and "1" are different dict keys (FTag.Account and "1" are the same one)
    if out and rng.random() < 0.2:
        k, v = rng.choice(out)
        pk = to_py(k)
        other = J_s(str(pk)) if isinstance(pk, int) and not isinstance(pk, bool) else (J_i(int(pk)) if isinstance(pk, str) and len(pk) < 10 and pk.isascii() and pk.isdigit() else None)
        if other is not None:
            out.insert(rng.randrange(len(out) + 1), [other, v if rng.random() < 0.7 else J_s("zz")])
    return out


# ---------------------------------------------------------------------------------------------
# corpus
# ---------------------------------------------------------------------------------------------
def load_corpus():
    d = os.path.join(C.VERIF, "corpus", "container")
    out = []
    if os.path.isdir(d):
        for f in sorted(os.listdir(d)):
            if f.endswith(".json"):
                with open(os.path.join(d, f)) as fh:
                    for e in json.load(fh):
                        out.append((f + ":" + e.get("name", "?"), e["ops"]))
    return out


# ---------------------------------------------------------------------------------------------
# int(str) correspondence
# ---------------------------------------------------------------------------------------------
def _pyint(s):
    try:
        return str(int(s))
    except ValueError:
        return None


def pyint_correspondence(ctx, drv):
    dis, n = [], 0
    # 1. every code point, four contexts, run-length summaries per block
    lines, exp = [], []
    block = 0x2000
    # quick tier: the bare code point over the whole range (digit / invalid), the three neighbour contexts (leading,
    # trailing, inner position) over U+0000..U+33FF, which holds every whitespace code point; thorough: everything
    for ctxn, mk in enumerate((lambda c: c, lambda c: c + "1", lambda c: "1" + c, lambda c: "1" + c + "1")):
        for lo in range(0, 0x110000 if (ctxn == 0 or ctx.tier == "thorough") else 0x3400, block):
            runs, cur, k = [], None, 0
            for cp in range(lo, lo + block):
                s = _pyint(mk(chr(cp)))
                s = "n" if s is None else s
                if s == cur:
                    k += 1
                else:
                    if cur is not None:
                        runs.append(f"{cur}*{k}")
                    cur, k = s, 1
            runs.append(f"{cur}*{k}")
            lines.append(f"cont.pyintscan {lo} {lo + block} {ctxn}")
            exp.append(" ".join(runs))
            n += block
    got = drv.batch(lines)
    for l, e, g in zip(lines, exp, got):
        if e != g:
            dis.append({"input": l, "model": g[:300], "impl": e[:300]})
    # 2. all strings up to length L over the critical alphabet
    alpha = [" ", "+", "-", "_", "0", "1", "9", "x", "\t", "\x1c", "١", " ", ".", "\x00"]
    L = ctx.n(4, 5)
    strs = [""]
    frontier = [""]
    for _ in range(L):
        frontier = [s + a for s in frontier for a in alpha]
        strs += frontier
    strs += ["1" * 4300, "1" * 4301, "0" * 5000 + "1", "1_" * 4299 + "1", "1_" * 4300 + "1", " " * 9000 + "1", "-" + "9" * 4300,
             "+" + "9" * 4301, "١" * 4301, "12345678901234567890123", "-000", "1 2", "٣_٤", "\x7f", "\ud800", "1\ud800",
             "\U0001d7d9", "１２", "1e3", "0x1", "1.0", "١٢٣", " \n\t\v\f\r5\r\f\v\t\n ", "\x0b1", "\x1f1", "1\x85", "\xa01"]
    lines = ["cont.pyintcp " + " ".join(str(ord(ch)) for ch in s) if s else "cont.pyintcp" for s in strs]
    got = drv.batch(lines)
    for s, g in zip(strs, got):
        e = _pyint(s)
        e = "none" if e is None else "some " + e
        n += 1
        if e != g:
            dis.append({"input": {"pyint": [ord(ch) for ch in s][:50]}, "model": g[:80], "impl": e[:80]})
    # 3. str(int)
    ints = [0, 1, -1, 9, 10, -10, 99, 100, 12345678901234567890, -(10 ** 30), 2 ** 64, 7 ** 77] + [ctx.rng.randint(-10 ** 12, 10 ** 12) for _ in range(200)]
    got = drv.batch([f"cont.renderint {i}" for i in ints])
    for i, g in zip(ints, got):
        n += 1
        if g != hx(str(i)):
            dis.append({"input": {"renderint": i}, "model": g, "impl": hx(str(i))})
    return n, dis, len(strs)


# ---------------------------------------------------------------------------------------------
# correspondence
# ---------------------------------------------------------------------------------------------
def shrink(seq, still_fails, budget=150):
    """greedy one-at-a-time deletion"""
    cur = list(seq)
    i = 0
    while i < len(cur) and budget > 0:
        cand = cur[:i] + cur[i + 1:]
        budget -= 1
        if cand and still_fails(cand):
            cur = cand
        else:
            i += 1
    return cur


def correspondence(ctx):
    drv = C.Driver()
    dis = []
    n_int, d_int, n_strs = pyint_correspondence(ctx, drv)
    dis += d_int
    corpus = load_corpus()
    seqs = [ops for _, ops in corpus]
    n_rand = ctx.n(4000, 40000)
    for i in range(n_rand):
        mode = i % 10
        if mode < 5:
            seqs.append(gen_sequence(ctx.rng))
        elif mode < 7:
            seqs.append(gen_sequence(ctx.rng, odd=0.35, cls=0.15))
        elif mode < 8:
            # argument objects reused / mutated by the caller; argument objects whose conversion raises
            seqs.append(gen_sequence(ctx.rng, odd=0.03, cls=0.02, alias=0.5 if i % 20 < 10 else 0.12, hostile=0.05 if i % 20 < 10 else 0.35))
        else:
            seqs.append(gen_sequence(ctx.rng, clean_only=True, alias=0.12 if mode == 8 else 0.4))
    total, d_seq, stats, _ = 0, [], {"ops": {}, "replies": {}, "lengths": {}, "aliasing": {}}, None
    CH = 2000
    distinct = set()
    for lo in range(0, len(seqs), CH):
        chunk = seqs[lo: lo + CH]
        n, d, st, (lines, expect, got) = run_sequences(chunk, drv)
        total += n
        for x in d:
            x["input"]["seq"] += lo
        d_seq += d
        for k in ("ops", "replies", "lengths"):
            for a, b in st[k].items():
                stats[k][a] = stats[k].get(a, 0) + b
        for a, b in st["aliasing"].items():
            stats["aliasing"][a] = max(stats["aliasing"].get(a, 0), b) if a.startswith("max_") else stats["aliasing"].get(a, 0) + b
        # distinct non-trivial evaluations: (state before, operation line) with a non-empty store state
        prev = ""
        for line, e in zip(lines, expect):
            if line == "cont.dumpall":
                prev = e
            elif line != "cont.reset" and "{" in prev and prev.replace("{}", "").strip("abcd= "):
                distinct.add(hash((prev, line)))
            if line == "cont.reset":
                prev = ""
    # shrink the first few disagreements
    for x in d_seq[:3]:
        ops = x["input"]["ops"]

        def fails(cand):
            try:
                return bool(run_sequences([cand], drv)[1])
            except Exception:  # noqa
                return False

        x["input"]["shrunk_ops"] = shrink(ops, fails)
    dis += d_seq
    samples = []
    if seqs:
        for idx in (0, len(corpus), len(seqs) - 1):
            if idx < len(seqs):
                _, _, _, (lines, expect, got) = run_sequences([seqs[idx]], drv)
                samples.append({"ops": seqs[idx][:6], "lines": lines[1:9], "replies": expect[1:9]})
    errs = {}
    for k, v in stats["replies"].items():
        if ":err " in k:
            kk = k.split(":err ")[1]
            errs[kk] = errs.get(kk, 0) + v
    return {
        "evaluations": total + n_int,
        "distinct_nontrivial": len(distinct),
        "rule": "an evaluation = one operation line or one full-state dump compared between FIXContainer/FIXMessage and the Lean "
        "model (plus int()/str() comparisons); distinct_nontrivial counts distinct (store state before, operation) pairs in which "
        "the store holds at least one non-empty container; int(str): all 0x110000 code points alone and (quick: U+0000..33FF, thorough: all) "
        "in 3 neighbour contexts, and all "
        f"strings of length ≤ {ctx.n(4, 5)} over a 14-letter critical alphabet ({n_strs} strings)",
        "samples": samples,
        "exhaustive": False,
        "distribution": {
            "sequences": len(seqs),
            "corpus_sequences": len(corpus),
            "ops": stats["ops"],
            "error_kinds": errs,
            "replies": dict(sorted(stats["replies"].items(), key=lambda kv: -kv[1])[:60]),
            "lengths": {str(k): v for k, v in sorted(stats["lengths"].items())},
            "int_str_comparisons": n_int,
            "aliasing_and_sizes": stats["aliasing"],
        },
        "disagreements": dis,
    }



# ---------------------------------------------------------------------------------------------
# oracle: a reference ordered map implementing the sentences of the property (independent of Lean)
# ---------------------------------------------------------------------------------------------
class OutOfDomain(Exception):
    """the operation uses objects the property does not speak about (class objects as values, …)"""


class RefErr(Exception):
    def __init__(self, kinds):
        self.kinds = set(kinds)


LIB_ERRS = {"err FIXMessageError", "err Duplicated", "err Unmapped", "err TagNotFound", "err Repeating"}


def ref_tag(o):
    """the integer a tag argument denotes, or None for a non-integer tag"""
    FTag = _lib()[2]
    if isinstance(o, bool):
        return None
    if isinstance(o, FTag):
        return int(o.value)
    if isinstance(o, enum.Enum):
        raise OutOfDomain("non-tag enum member used as tag")
    if isinstance(o, (Odd, Hostile)):
        raise OutOfDomain("an object that is neither int, str nor tag enum used as tag: the property does not say")
    if isinstance(o, int):
        return o
    if type(o) is str:
        try:
            return int(o)
        except ValueError:
            return None
    return None


def noncanonical(o):
    return type(o) is str and ref_tag(o) is not None and str(int(o)) != o


def ref_value(v):
    if isinstance(v, type):
        raise OutOfDomain("class object as value")
    return str(v)


class RefCont:
    """insertion-ordered map: int tag -> str | list[RefCont]"""

    def __init__(self):
        self.d = {}

    def copy(self):
        c = RefCont()
        for k, v in self.d.items():
            c.d[k] = v if isinstance(v, str) else [g.copy() for g in v]
        return c

    def canon(self):
        return [(str(k), v if isinstance(v, str) else [g.canon() for g in v]) for k, v in self.d.items()]

    # -- the sentences of the property -------------------------------------------------------
    def set(self, tag, value, replace):
        k = ref_tag(tag)
        if k is None:
            raise RefErr(["err FIXMessageError"])  # non-integer tags are refused
        sv = ref_value(value)
        if k in self.d and not replace:
            raise RefErr(["err Duplicated"])  # setting an existing tag fails unless replacement is requested
        self.d[k] = sv  # an existing key keeps its place, a new one goes last (dict semantics)

    @staticmethod
    def build(jd, resolve):
        """FIXContainer(dict): entries in dict order.  When an entry is refused the constructor fails; which of
        several faulty entries is reported first is not specified, so all their errors are acceptable."""
        c, errs = RefCont(), set()
        for kj, vj in jd:
            key = to_py(kj)
            try:
                if isinstance(vj, dict) and "list" in vj:
                    c.set_group(key, vj["list"], resolve)
                else:
                    c.set(key, to_py(vj), False)
            except RefErr as e:
                errs |= e.kinds
                k = ref_tag(key)
                if k is not None and k not in c.d:
                    c.d[k] = "?"  # the implementation may have accepted this entry: a later equal tag may then be a duplicate
                    errs.add("err Duplicated") if any(ref_tag(to_py(k2)) == k for k2, _ in jd if k2 is not kj) else None
        if errs:
            raise RefErr(errs)
        return c

    @staticmethod
    def item(ij, resolve):
        if "dict" in ij:
            return RefCont.build(dedup_literal(ij["dict"]), resolve)
        if "ref" in ij:
            tgt = resolve(ij["ref"])
            if tgt is None:
                raise LookupError(ij["ref"])
            return tgt.copy()
        raise RefErr(["err FIXMessageError"])

    def add_group(self, tag, ij, idx, resolve):
        errs = set()
        k = ref_tag(tag)
        if k is None:
            errs.add("err FIXMessageError")
        g = None
        try:
            g = RefCont.item(ij, resolve)
        except RefErr as e:
            errs |= e.kinds
        if k is not None and isinstance(self.d.get(k), str):
            errs |= LIB_ERRS  # misuse must be reported by a library error
        if errs:
            raise RefErr(errs)
        lst = self.d.setdefault(k, [])
        if idx is None or idx == -1:
            lst.append(g)
        else:
            lst.insert(idx, g)

    def set_group(self, tag, items, resolve):
        errs = set()
        k = ref_tag(tag)
        if k is None:
            errs.add("err FIXMessageError")
        elif k in self.d:
            errs.add("err Duplicated")
        gs = []
        for ij in items:
            try:
                gs.append(RefCont.item(ij, resolve))
            except RefErr as e:
                errs |= e.kinds  # which faulty item is reported first is not specified
        if errs:
            raise RefErr(errs)
        self.d[k] = gs

    def group_list(self, tag):
        k = ref_tag(tag)
        if k is None or k not in self.d:
            raise RefErr(["err TagNotFound"])
        if isinstance(self.d[k], str):
            raise RefErr(["err Unmapped"])
        return self.d[k]


def dedup_literal(jd):
    """a dict literal keeps the FIRST position and the LAST value of equal Python keys"""
    d = {}
    for k, v in jd:
        d.setdefault(_pykey(k), [k, v])[1] = v
    return [kv for kv in d.values()]


def _pykey(kj):
    o = to_py(kj)
    try:
        return ("h", hash(o), o)
    except TypeError:
        return ("u", id(kj))


def impl_canon(c, path=()):
    """nested (tag, value) structure of a live container; cycles (only a defective implementation can produce
    them) are cut and marked"""
    if id(c) in path:
        return "!cycle"
    path = path + (id(c),)
    out = []
    for t, v in c.tags.items():
        if isinstance(v, type):
            raise OutOfDomain("class value in implementation state")
        out.append((t, (v if type(v) is str else strict_str(v)) if isinstance(v, str) else
                    [impl_canon(g, path) if hasattr(g, "tags") else "!" + type(g).__name__ for g in v.groups]))
    return out


def canon_dump(cn):
    if isinstance(cn, str):
        return cn
    return "{" + "".join(hx(t) + "=" + ("s" + hx(v) if isinstance(v, str) else "[" + "".join(canon_dump(g) for g in v) + "]") + ";" for t, v in cn) + "}"


class Pools:
    """the caller-side list / dict objects of a sequence, by VALUE: the reference reads what such an object
    contains at the moment it is passed, and nothing the caller does to it later can matter"""

    def __init__(self):
        self.lists, self.dicts = {}, {}

    # registration: {"newlist"/"newdict"} -> stored, replaced by a {"uselist"/"usedict"} reference
    def norm_items(self, spec):
        if isinstance(spec, dict):
            if "uselist" in spec:
                if spec["uselist"] not in self.lists:
                    raise LookupError(spec["uselist"])
                return spec
            self.lists[spec["newlist"]] = [self.norm_item(i) for i in spec["items"]]
            return {"uselist": spec["newlist"]}
        return [self.norm_item(i) for i in spec]

    def norm_item(self, i):
        if "dict" in i:
            return {"dict": self.norm_lit(i["dict"])}
        if "newdict" in i or "usedict" in i:
            return self.norm_lit(i)
        return i

    def norm_lit(self, spec):
        if isinstance(spec, dict):
            if "usedict" in spec:
                if spec["usedict"] not in self.dicts:
                    raise LookupError(spec["usedict"])
                return spec
            self.dicts[spec["newdict"]] = dedup_literal(self.norm_lit(spec["lit"]))
            return {"usedict": spec["newdict"]}
        return [[k, {"list": self.norm_items(v["list"])} if isinstance(v, dict) and "list" in v else v] for k, v in spec]

    # expansion to the inline form
    def items(self, spec):
        if isinstance(spec, dict):
            spec = self.lists[spec["uselist"]]
        return [self.item(i) for i in spec]

    def item(self, i):
        if "dict" in i:
            return {"dict": self.lit(i["dict"])}
        if "usedict" in i:
            return {"dict": self.lit(i)}
        if "share" in i:
            return {"ref": i["share"]}
        if "ref" in i:
            return {"ref": i["ref"]}
        return i

    def lit(self, spec):
        if isinstance(spec, dict):
            spec = self.dicts[spec["usedict"]]
        return [[k, {"list": self.items(v["list"])} if isinstance(v, dict) and "list" in v else v] for k, v in spec]

    def inline_op(self, op):
        cmd = op[0]
        if cmd in ("init", "initmsg"):
            return op[:-1] + [self.lit(self.norm_lit(op[-1]))]
        if cmd == "addgroup":
            return op[:3] + [self.item(self.norm_item(op[3]))] + op[4:]
        if cmd == "setgroup":
            return op[:3] + [self.items(self.norm_items(op[3]))]
        return op

    def caller_op(self, op):
        cmd = op[0]
        if cmd in ("listappend", "listpop", "listreverse"):
            if op[1] not in self.lists:
                raise LookupError(op[1])
            lst = self.lists[op[1]]
            if cmd == "listappend":
                lst.append(self.norm_item(op[2]))
            elif cmd == "listpop":
                if lst:
                    lst.pop()
            else:
                lst.reverse()
        else:
            if op[1] not in self.dicts:
                raise LookupError(op[1])
            d = self.dicts[op[1]]
            key = _pykey(op[2])
            if cmd == "dictset":
                for e in d:
                    if _pykey(e[0]) == key:
                        e[1] = op[3]
                        break
                else:
                    d.append([op[2], op[3]])
            else:
                d[:] = [e for e in d if _pykey(e[0]) != key]


class RefStore:
    def __init__(self):
        self.store = {}  # name -> [msg_type or None, RefCont]
        self.pools = Pools()
        self.last_op = None

    def resolve(self, r):
        name, path = parse_ref(r)
        e = self.store.get(name)
        if e is None:
            return None
        o = e[1]
        for t, i in path:
            k = ref_tag(t)
            v = o.d.get(k)
            if not isinstance(v, list) or not (0 <= i < len(v)):
                return None
            o = v[i]
        return o

    def need(self, r):
        o = self.resolve(r)
        if o is None:
            raise LookupError(r)
        return o

    def run(self, op):
        """-> set of acceptable replies (strings as produced by Impl.run), or None = unspecified"""
        cmd = op[0]
        self.last_op = op
        if cmd in CALLER_OPS:
            self.pools.caller_op(op)  # the caller's own business: no container may change
            return {"pong"}
        if is_hostile_op(op):
            # an argument object whose conversion / iteration raises: a mutator cannot succeed (the object sits where the
            # call has to convert it) – it must fail, with whatever exception, and leave EVERY container as it was;
            # for the other operations only "nothing changes" is specified
            return {ANY_ERROR} if cmd in MUTATORS else None
        op = self.last_op = self.pools.inline_op(op)  # arguments are read by value at the moment of the call
        try:
            return self._run(cmd, op)
        except RefErr as e:
            return set(e.kinds)

    def _run(self, cmd, op):
        if cmd == "iterreplace":
            c = self.need(op[1])
            v = ref_value(to_py(op[2]))
            if not any(isinstance(x, str) for x in c.d.values()):
                return {"pong"}
            for k in c.d:
                if isinstance(c.d[k], str):
                    c.d[k] = v
            return {"ok"}
        if cmd == "new":
            self.store[op[1]] = [None, RefCont()]
            return {"ok"}
        if cmd in ("init", "initmsg"):
            c = RefCont.build(dedup_literal(op[-1]), self.resolve)
            self.store[op[1]] = [str(to_py(op[2])) if cmd == "initmsg" else None, c]
            return {"ok"}
        if cmd == "copy":
            name, path = parse_ref(op[1])
            src = self.need(op[1])
            self.store[op[2]] = [self.store[name][0] if not path else None, src.copy()]
            return {"ok"}
        if cmd == "msgtype":
            e = self.store.get(op[1])
            if e is None or e[0] is None:
                raise LookupError(op[1])
            return {hx(e[0])}
        if cmd == "setmsgtype":
            e = self.store.get(op[1])
            if e is None or e[0] is None:
                raise LookupError(op[1])
            e[0] = str(to_py(op[2]))
            return {"ok"}
        c = self.need(op[1])
        if cmd in ("set", "setitem"):
            c.set(to_py(op[2]), to_py(op[3]), bool(op[4]) if cmd == "set" else False)
            return {"ok"}
        if cmd == "del":
            k = ref_tag(to_py(op[2]))
            if k is None or k not in c.d:
                return {"err Key"}
            del c.d[k]
            return {"ok"}
        if cmd in ("get", "getitem"):
            k = ref_tag(to_py(op[2]))
            E = _lib()[0]
            d = to_py(op[3]) if cmd == "get" else E.TagNotFoundError
            if k is None or k not in c.d:
                if d is E.TagNotFoundError:
                    return {"err TagNotFound"}
                if isinstance(d, type):
                    raise OutOfDomain("class default")
                return {("str " + hx(d)) if isinstance(d, str) else ("dflt " + hx(repr(d)))}
            v = c.d[k]
            return {"err FIXMessageError"} if isinstance(v, list) else {"str " + hx(v)}
        if cmd == "isgroup":
            k = ref_tag(to_py(op[2]))
            if k is None or k not in c.d:
                return {"None"}
            return {str(isinstance(c.d[k], list))}
        if cmd == "contains":
            k = ref_tag(to_py(op[2]))
            return {str(k is not None and k in c.d)}
        if cmd == "addgroup":
            c.add_group(to_py(op[2]), op[3], op[4], self.resolve)
            return {"ok"}
        if cmd == "setgroup":
            c.set_group(to_py(op[2]), op[3], self.resolve)
            return {"ok"}
        if cmd == "grouplist":
            return {"list " + " ".join(canon_dump(g.canon()) for g in c.group_list(to_py(op[2])))}
        if cmd == "byindex":
            lst = c.group_list(to_py(op[2]))
            i = op[3]
            if -len(lst) <= i < len(lst):
                return {"cont " + canon_dump(lst[i].canon())}
            return {"err TagNotFound"}
        if cmd == "bytag":
            lst = c.group_list(to_py(op[2]))
            gk, gv = ref_tag(to_py(op[3])), to_py(op[4])
            if isinstance(gv, type):
                raise OutOfDomain("class gvalue")
            acc = set()
            for g in lst:
                v = g.d.get(gk) if gk is not None else None
                if isinstance(v, list):
                    acc.add("err FIXMessageError")  # a group under the inner tag: unspecified, may raise
                    continue
                if v is not None and ((type(gv) is str and gv == v) or (isinstance(gv, enum.Enum) and str(gv.value) == v)):
                    return acc | {"cont " + canon_dump(g.canon())}
            return acc | {"err TagNotFound"}
        if cmd == "query":
            ts = [to_py(t) for t in op[2]]
            FTag = _lib()[2]
            if any(isinstance(t, bool) or not isinstance(t, (int, str, FTag)) for t in ts):
                return None  # int(1.0), int(True), … : the conversion of such objects is not specified
            keys = [ref_tag(t) for t in ts] if ts else list(c.d.keys())
            if any(k is None for k in keys):
                return {"err Value", "err Type", "err FIXMessageError"}
            out, acc = {}, set()
            for k in keys:
                v = c.d.get(k)
                if isinstance(v, list):
                    return {"err FIXMessageError"}
                out[str(k)] = v
            return {"dict " + " ".join(hx(k) + "=" + ("d" + hx("None") if v is None else "s" + hx(v)) for k, v in out.items())}
        if cmd == "eq":
            b = self.need(op[2])
            return {str(c.canon() == b.canon())}
        if cmd == "eqdict":
            dk = {}  # tag -> every value the dict gives for it (a tag may be spelled twice: 1 and "1")
            for kj, vj in op[2]:
                v = to_py(vj)
                if isinstance(v, type):
                    raise OutOfDomain("class in dict")
                k = ref_tag(to_py(kj))
                dk.setdefault(("bad", str(to_py(kj))) if k is None else k, []).append(str(v))
            mine = {k for k in c.d if k not in FRAMING}
            theirs = {k for k in dk if k not in FRAMING}
            if mine != theirs:
                return {"False"}
            plain = [k for k in theirs if isinstance(c.d[k], str)]
            all_match = all(v == c.d[k] for k in plain for v in dk[k])
            none_match = any(all(v != c.d[k] for v in dk[k]) for k in plain)
            # a dict that gives one tag two different values contradicts itself: either answer is acceptable
            verdict = {"True"} if all_match else {"False"} if none_match else {"True", "False"}
            if any(isinstance(c.d[k], list) for k in theirs):
                return {"err FIXMessageError"} | (verdict - {"True"})
            return verdict
        if cmd in ("str", "repr"):
            return None
        raise ValueError(op)

    def canon_all(self):
        return {n: (e[0], e[1].canon()) for n, e in self.store.items()}


def all_tag_objects(op):
    """every tag argument of an operation, nested dict literals included"""
    out = []

    def lit(jd):
        for k, v in jd:
            out.append(to_py(k))
            if isinstance(v, dict) and "list" in v:
                for i in v["list"]:
                    if "dict" in i:
                        lit(i["dict"])

    cmd = op[0]
    if cmd in ("init", "initmsg"):
        lit(op[-1])
    elif cmd in ("set", "setitem", "del", "get", "getitem", "isgroup", "contains", "grouplist", "byindex"):
        out.append(to_py(op[2]))
    elif cmd == "addgroup":
        out.append(to_py(op[2]))
        if "dict" in op[3]:
            lit(op[3]["dict"])
    elif cmd == "setgroup":
        out.append(to_py(op[2]))
        for i in op[3]:
            if "dict" in i:
                lit(i["dict"])
    elif cmd == "bytag":
        out += [to_py(op[2]), to_py(op[3])]
    elif cmd == "query":
        out += [to_py(t) for t in op[2]]
    elif cmd == "eqdict":
        out += [to_py(k) for k, _ in op[2]]
    return out


def group_tags_of(op):
    """tags under which the operation creates groups (add_group / set_group / list values of dict literals)"""
    out = []

    def lit(jd):
        for k, v in jd:
            if isinstance(v, dict) and "list" in v:
                out.append(to_py(k))
                for i in v["list"]:
                    if "dict" in i:
                        lit(i["dict"])

    cmd = op[0]
    if cmd in ("init", "initmsg"):
        lit(op[-1])
    elif cmd == "addgroup":
        out.append(to_py(op[2]))
        if "dict" in op[3]:
            lit(op[3]["dict"])
    elif cmd == "setgroup":
        out.append(to_py(op[2]))
        for i in op[3]:
            if "dict" in i:
                lit(i["dict"])
    return out


def impl_keys_deep(o, acc, depth=0):
    if depth > 8:
        return acc
    for t, v in o.tags.items():
        acc.append(t)
        if not isinstance(v, (str, type)):
            for g in _conts(v):
                impl_keys_deep(g, acc, depth + 1)
    return acc


def classify(op, acceptable, observed, impl, ref_before, state_only=False):
    """name the kind of divergence.  Only C18-noncanonical-tag-distinct-key is still a recorded finding; the other
    named kinds are the defects repaired by /repo commits 7c684d5, 68fefe3, 9e4749c, 8584485 – if one of them
    shows up again it is reported as a VIOLATION under its old name"""
    cmd = op[0]
    tags = all_tag_objects(op)

    def target():
        try:
            return impl.resolve(op[1])
        except Exception:  # noqa
            return None

    if cmd == "addgroup" and observed == "err Attribute":
        tgt = ref_before.resolve(op[1])
        k = ref_tag(to_py(op[2]))
        if tgt is not None and k is not None and isinstance(tgt.d.get(k), str):
            return "C18-add-group-plain-tag-attributeerror"
    if cmd in ("addgroup", "setgroup", "init", "initmsg") and observed == "ok" and "err FIXMessageError" in (acceptable or ()):
        if any(ref_tag(t) is None for t in group_tags_of(op)):
            return "C18-group-tag-not-checked"
    if cmd == "byindex" and observed == "err Index" and acceptable == {"err TagNotFound"}:
        return "C18-by-index-indexerror"
    if cmd == "eq" and acceptable == {"False"} and observed == "True":
        a, b = impl.resolve(op[1]), impl.resolve(op[2])
        if a is not None and b is not None and str(a) == str(b):
            return "C18-eq-rendered-text"
    if cmd == "eqdict":
        # causal test: does the implementation agree with the reference once the framing tags are taken out of the dict?
        tgt = target()
        fr = {str(f) for f in FRAMING}
        had = [kv for kv in op[2] if str(to_py(kv[0])) in fr]
        if tgt is not None and had:
            rest = {to_py(k): to_py(v) for k, v in op[2] if str(to_py(k)) not in fr}
            try:
                again = str(tgt == rest)
            except Exception as e:  # noqa
                again = "err " + kind_of(e)
            if again in (acceptable or ()):
                return "C18-eqdict-framing-tag-raises" if observed == "err TagNotFound" else "C18-eqdict-framing-tag-compared"
    live = []
    for o in impl.store.values():
        impl_keys_deep(o, live)
    if any(noncanonical(t) for t in tags) or any(noncanonical(t) for t in live):
        return "C18-noncanonical-tag-distinct-key"
    if any(ref_tag(t) is None for t in live):
        return "C18-group-tag-not-checked"
    what = "state" if state_only else (observed if observed.startswith("err ") or " " not in observed else observed.split(" ")[0])
    return f"C18-divergence:{cmd}:{what}"


def oracle_run(ops, all_failures=False):
    """run one sequence on implementation and reference; -> (n_ops_checked, first failure or None)
    (with all_failures: the list of failures; the run continues past a failure while both states still agree)"""
    impl, ref = Impl(), RefStore()
    n, fails = 0, []

    def done():
        return (n, fails) if all_failures else (n, fails[0] if fails else None)

    for i, op in enumerate(ops):
        ref_before = copy.deepcopy(ref)
        try:
            acceptable = ref.run(op)
        except (OutOfDomain, LookupError):
            return done()
        try:
            observed, _ = impl.run(op)
        except RecursionError:
            return done()
        if observed == "bad-op":
            return done()
        n += 1
        try:
            got = {nm: (str(o.msg_type) if hasattr(o, "msg_type") else None, impl_canon(o)) for nm, o in impl.store.items()}
        except OutOfDomain:
            return done()
        want = ref.canon_all()
        fail = None
        iop = ref.last_op
        if isinstance(observed, list):
            observed = observed[-1]
        if is_hostile_op(op):
            observed = getattr(impl, "last_hostile", observed)
            if isinstance(observed, list):
                observed = observed[-1]
        raised = isinstance(observed, str) and observed.startswith("err ")
        if acceptable == {ANY_ERROR} and not raised:
            fail = {"signature": f"C18-hostile-argument-accepted:{op[0]}",
                    "what": f"{op[0]} with an argument object whose conversion / iteration raises replied {observed} instead of failing",
                    "input": {"ops": ops[: i + 1]}, "expected": [ANY_ERROR], "observed": observed}
        elif acceptable == {ANY_ERROR}:
            pass
        elif acceptable is not None and observed not in acceptable:
            fail = {"signature": classify(iop, acceptable, observed, impl, ref_before),
                    "what": f"{op[0]} replied {observed}, the reference ordered map allows {sorted(acceptable)}",
                    "input": {"ops": ops[: i + 1]}, "expected": sorted(acceptable), "observed": observed}
        if fail is None and got != want:
            changed = {k for k in set(got) | set(want) if got.get(k) != want.get(k)}
            own = {parse_ref(iop[1])[0]} if len(iop) > 1 and isinstance(iop[1], str) and iop[0] not in CALLER_OPS else set()
            if iop[0] == "copy":
                own = {iop[2]}
            typed = any("!" in canon_dump(got[k][1]) and "!cycle" not in canon_dump(got[k][1]) and "!dict" not in canon_dump(got[k][1])
                        for k in changed if k in got)
            sig = (f"C18-value-not-stored-as-plain-str:{iop[0]}" if typed and not (changed - own)
                   else f"C18-content-changed-without-own-operation:{iop[0]}" if changed - own
                   else f"C18-failed-operation-changed-container:{iop[0]}" if raised
                   else classify(iop, acceptable, observed, impl, ref_before, state_only=True))
            fail = {"signature": sig,
                    "what": f"after {op[0]} (reply {observed}) the containers {sorted(changed)} differ from the reference ordered map"
                    + (" – a container changed although no operation addressed it" if changed - own else
                       " – the operation raised, so the container must be exactly as before" if raised else ""),
                    "input": {"ops": ops[: i + 1]}, "expected": {k: canon_dump(v[1]) for k, v in want.items()},
                    "observed": {k: canon_dump(v[1]) for k, v in got.items()}}
        if fail:
            fails.append(fail)
            if not all_failures or got != want:
                return done()
    return done()


def gen_oracle_sequence(rng, dirty):
    """clean stream: canonical tag spellings and clearly non-integer tags, values str/int/float/enum/None/bytes;
    dirty stream: adds the non-canonical decimal spellings"""
    seq = gen_sequence(rng, maxlen=25, odd=0.0, cls=0.0, clean_only=True, alias=rng.choice([0.0, 0.12, 0.12, 0.5]),
                       hostile=rng.choice([0.0, 0.05, 0.05, 0.4]))
    extra = [J_s("x"), {"float": "1.0"}, J_s("1.0"), {"none": 1}, J_s("")] + ([J_s("01"), J_s(" 1"), J_s("+2"), J_s("1_0"), J_s("١")] if dirty else [])
    out = []
    for op in seq:
        op = json.loads(json.dumps(op))
        if op[0] in ("set", "setitem", "addgroup", "setgroup", "get", "contains", "del") and rng.random() < (0.25 if dirty else 0.06):
            op[2] = rng.choice(extra)
        if op[0] == "get" and "cls" in op[3] and op[3]["cls"] != "TagNotFoundError":
            op[3] = {"none": 1}
        out.append(op)
    return out


def oracle(ctx, disagreements, broken):
    broken = broken or bool(os.environ.get("C18_ORACLE_HARD"))  # self-test of the search on the unchanged tree
    failures, stats = [], {"sequences": 0, "ops": 0, "by_signature": {}}
    seqs = []
    # 1. witnesses of the recorded findings, 2. corpus, 3. disagreeing inputs, 4. samples
    for k in C.load_findings(PROP):
        w = k.get("witness", {})
        if "ops" in w:
            seqs.append(w["ops"])
    seqs += [ops for _, ops in load_corpus()]
    for d in disagreements:
        if isinstance(d.get("input"), dict) and "ops" in d["input"]:
            seqs.append(d["input"].get("shrunk_ops") or d["input"]["ops"])
            seqs.append(d["input"]["ops"])
    n_clean = ctx.n(500, 4000) * (5 if broken else 1)
    n_dirty = ctx.n(150, 800)
    for _ in range(n_clean):
        seqs.append(gen_oracle_sequence(ctx.rng, False))
    for _ in range(n_dirty):
        seqs.append(gen_oracle_sequence(ctx.rng, True))
    if broken:
        for _ in range(ctx.n(1500, 8000)):
            seqs.append(gen_sequence(ctx.rng, odd=0.05, cls=0.0))
    if os.environ.get("C18_ORACLE_HARD"):
        # self-test: the oracle must stay silent (up to the recorded findings) on the correspondence's own streams
        for i in range(3000):
            seqs.append(gen_sequence(ctx.rng) if i % 2 else gen_sequence(ctx.rng, odd=0.35, cls=0.15))
    seen = {}
    for ops in seqs:
        n, fs = oracle_run(ops, all_failures=True)
        stats["sequences"] += 1
        stats["ops"] += n
        for f in fs:
            stats["by_signature"][f["signature"]] = stats["by_signature"].get(f["signature"], 0) + 1
            prev = seen.get(f["signature"])
            if prev is None or len(f["input"]["ops"]) < len(prev["input"]["ops"]):
                seen[f["signature"]] = f
    for sig, f in seen.items():
        ops = f["input"]["ops"]

        def still(cand, sig=sig):
            try:
                rs = oracle_run(cand, all_failures=True)[1]
            except Exception:  # noqa
                return False
            return any(r["signature"] == sig for r in rs)

        small = shrink(ops, still, budget=120)
        if len(small) < len(ops):
            f2 = [r for r in oracle_run(small, all_failures=True)[1] if r["signature"] == sig]
            if f2:
                f = f2[0]
        failures.append(f)
    ctx.oracle_stats = stats
    return failures


def replay(ctx, rp):
    ops = rp["input"]["ops"]
    n, fs = oracle_run(ops, all_failures=True)
    print("replay:", json.dumps(ops)[:400], "->", [(f["signature"], f["observed"]) for f in fs])
    return any(f["signature"] == rp["signature"] for f in fs)
