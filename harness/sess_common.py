"""Session family: reusable correspondence machinery (model side = `sess.*` driver commands,
implementation side = the REAL AsyncFIXConnection run in-process).

    from harness import sess_common as S
    impl = S.Impl()                                   # one real connection object, reused
    a = S.AbsConn(state=17, role=1, next_in=5, ...)   # abstract state (same fields as Lean `Conn`)
    ev = ("recv", now_ms, S.inbound(a, "D", [(58, "hi")], seq=5))
    eff, post = impl.step(a, "all", ev)               # canonical effect tokens, canonical post-state
    lines = [S.step_line(a, "all", ev)]               # the same step for the Lean driver
    S.Driver().batch(lines)[0] == S.reply(eff, post)

Nothing here calls the Lean model; nothing in the model knows this file.  Canonical text only:
exceptions ↦ kinds, frames ↦ field lists, never log text.

Events (tuples):
  ("recv", now_ms, (mtype, fields))      fields = [(tag:int, value:str)] of the whole decoded frame
  ("send", now_ms, (mtype, tags))        application send_msg(FIXMessage(mtype, tags))
  ("testreq", now_ms) ("disc", now_ms, dstate, reason|None) ("tick", now_ms) ("eof", now_ms)
  ("conn", "init"|"fail"|"acc") ("reset",)
`should_replay` spec: "all" | "none" | "d3,5" (declines MsgSeqNum 3 and 5).
Clock: `time.time()` = now_ms/1000 (use multiples of 125 ms: exact floats), SendingTime = stamp(now_ms).
"""
from __future__ import annotations

import os
import sys
import types
from dataclasses import dataclass, field, replace

from . import common as C

SOH = "\x01"

# ------------------------------------------------------------------------------------------
# tokens
# ------------------------------------------------------------------------------------------


def stok(s: str) -> str:
    return "x" + s.encode("utf-8").hex()


def msg_tok(m) -> str:
    mtype, tags = m
    return ",".join([stok(mtype)] + [f"{t}:{stok(v)}" for t, v in tags])


def parse_msg_tok(tok: str):
    parts = tok.split(",")
    mtype = bytes.fromhex(parts[0][1:]).decode("utf-8")
    tags = []
    for p in parts[1:]:
        t, v = p.split(":")
        tags.append((int(t), bytes.fromhex(v[1:]).decode("utf-8")))
    return (mtype, tags)


_SUB_US = [0, 499, 500, 999, 1, 750, 250, 998]
CLOCK_BASE = (2024, 1, 2)


def codec_clock(now_ms: int):
    """the instant the UTC clock read by `Codec.current_datetime()` shows while `time.time()` is now_ms/1000:
    (millisecond of the day, microseconds below the millisecond).  A deterministic function of now_ms, so
    events need no extra field; NOT the identity: every 16th 125 ms slot is snapped to the last millisecond of
    the current minute / hour / day (second 59, .999 plus 499 / 500 / 999 / 0 us - the roll-over boundaries),
    which also makes this clock stand still and step backwards relative to time.time().  `time.time()` itself
    stays a multiple of 125 ms (exact float arithmetic in the watchdog)."""
    tod = now_ms % 86_400_000
    slot = now_ms // 125
    k = slot % 16
    sub = _SUB_US[(slot // 16 + k) % len(_SUB_US)]
    if k == 7:
        tod = tod - tod % 60_000 + 59_999
        sub = [499, 500, 999, 0][(slot // 16) % 4]
    elif k == 11:
        tod = tod - tod % 3_600_000 + 3_599_999
        sub = [999, 500][(slot // 16) % 2]
    elif k == 13:
        tod = 86_399_999
        sub = [999, 499, 500][(slot // 16) % 3]
    return tod, sub


def stamp(now_ms: int) -> str:
    """the SendingTime text the UNCHANGED `Codec.current_datetime()` prints for the clock `codec_clock(now_ms)`
    (date fixed to CLOCK_BASE, microseconds truncated to milliseconds)"""
    tod, _ = codec_clock(now_ms)
    s, ms = divmod(tod, 1000)
    return "%04d%02d%02d-%02d:%02d:%02d.%03d" % (CLOCK_BASE + (s // 3600, s // 60 % 60, s % 60, ms))


def fake_datetime_class(get_now_ms):
    """a `datetime` subclass whose utcnow() / now() show `codec_clock(get_now_ms())`: patched into
    `asyncfix.codec` as the name `datetime`, so that the REAL `Codec.current_datetime()` runs"""
    import datetime as _dt

    class FakeDateTime(_dt.datetime):
        @classmethod
        def utcnow(cls):
            tod, sub = codec_clock(get_now_ms())
            return _dt.datetime(*CLOCK_BASE) + _dt.timedelta(milliseconds=tod, microseconds=sub)

        @classmethod
        def now(cls, tz=None):
            r = cls.utcnow()
            return r if tz is None else r.replace(tzinfo=_dt.timezone.utc).astimezone(tz)

    return FakeDateTime


@dataclass
class AbsConn:
    """abstract connection = fields of Lean `AsyncFix.Session.Conn`"""

    state: int = 1
    role: int = 0
    was_active: bool = False
    sender: str = "S"
    target: str = "T"
    next_in: int = 1
    next_out: int = 1
    max_resend: int = 0
    test_req_id: int | None = None
    last_time: int = 0  # ms
    hb: int = 30
    sock: bool = False
    stored_out: int = 0
    stored_in: int = 0
    out_rows: list = field(default_factory=list)  # [(seq, (mtype, fields))] any order, distinct seq
    in_rows: list = field(default_factory=list)

    def tokens(self) -> str:
        t = [
            str(self.state), str(self.role), "1" if self.was_active else "0", stok(self.sender), stok(self.target),
            str(self.next_in), str(self.next_out), str(self.max_resend),
            "none" if self.test_req_id is None else str(self.test_req_id),
            str(self.last_time), str(self.hb), "1" if self.sock else "0", str(self.stored_out), str(self.stored_in),
        ]
        for rows in (self.out_rows, self.in_rows):
            t.append(str(len(rows)))
            for seq, m in sorted(rows, key=lambda r: r[0]):
                t += [str(seq), msg_tok(m)]
        return " ".join(t)

    def copy(self):
        return replace(self, out_rows=list(self.out_rows), in_rows=list(self.in_rows))


def event_tokens(ev) -> str:
    k = ev[0]
    if k in ("recv", "send"):
        return f"{k} {ev[1]} {stok(stamp(ev[1]))} {msg_tok(ev[2])}"
    if k in ("testreq", "tick", "eof"):
        return f"{k} {ev[1]} {stok(stamp(ev[1]))}"
    if k == "disc":
        return f"disc {ev[1]} {stok(stamp(ev[1]))} {ev[2]} {'none' if ev[3] is None else stok(ev[3])}"
    if k == "conn":
        return f"conn {ev[1]}"
    if k == "reset":
        return "reset"
    if k == "read":  # one read() chunk: ev[2] = decodable frames in order, ev[3] = junk bytes after them
        fs = ev[2]
        return f"feed {ev[1]} {stok(stamp(ev[1]))} {len(fs)}" + "".join(" " + msg_tok(m) for m in fs)
    raise ValueError(ev)


def step_line(a: AbsConn, sr: str, ev) -> str:
    return f"sess.step {sr} {a.tokens()} E {event_tokens(ev)}"


def reply(effects, post_tokens) -> str:
    return (";".join(effects) if effects else "-") + " # " + post_tokens


def parse_conn_tokens(text: str) -> AbsConn:
    """inverse of AbsConn.tokens (used to continue a history from a model reply)"""
    t = text.split(" ")
    a = AbsConn(
        state=int(t[0]), role=int(t[1]), was_active=t[2] == "1",
        sender=bytes.fromhex(t[3][1:]).decode(), target=bytes.fromhex(t[4][1:]).decode(),
        next_in=int(t[5]), next_out=int(t[6]), max_resend=int(t[7]),
        test_req_id=None if t[8] == "none" else int(t[8]), last_time=int(t[9]), hb=int(t[10]),
        sock=t[11] == "1", stored_out=int(t[12]), stored_in=int(t[13]),
    )
    i = 14
    for rows in (a.out_rows, a.in_rows):
        n = int(t[i])
        i += 1
        for _ in range(n):
            rows.append((int(t[i]), parse_msg_tok(t[i + 1])))
            i += 2
    return a


# ------------------------------------------------------------------------------------------
# frames: an independent framer (BodyLength / CheckSum) and field lists
# ------------------------------------------------------------------------------------------


def fields_to_bytes(fields) -> bytes:
    return "".join(f"{t}={v}{SOH}" for t, v in fields).encode("latin-1")


def bytes_to_fields(raw: bytes):
    parts = raw.decode("latin-1").split(SOH)
    if parts and parts[-1] == "":
        parts.pop()
    out = []
    for p in parts:
        t, v = p.split("=", 1)
        out.append((int(t), v))
    return out


def frame_fields(begin, mtype, body):
    """complete field list 8, 9, 35, body…, 10 with BodyLength / CheckSum computed here (not by the
    library): body = [(tag, value)] after MsgType."""
    b = "".join(f"{t}={v}{SOH}" for t, v in ([(35, mtype)] if mtype is not None else []) + list(body))
    head = f"8={begin}{SOH}9={len(b.encode('latin-1'))}{SOH}"
    ck = sum((head + b).encode("latin-1")) % 256
    fs = [(8, begin), (9, str(len(b.encode("latin-1"))))]
    if mtype is not None:
        fs.append((35, mtype))
    return fs + list(body) + [(10, "%03d" % ck)]


def mtype_of(fields):
    for t, v in fields:
        if t == 35:
            return v
    return "UNKNOWN"


def inbound(a: AbsConn, mtype, body, seq="auto", sender="auto", target="auto", begin="FIX.4.4", now_ms=0):
    """abstract inbound frame as the peer of `a` would send it: header 49 = a.target, 56 = a.sender,
    34 = seq (None ⇒ tag absent; "auto" ⇒ a.next_in), 52.  `sender`/`target` None ⇒ tag absent."""
    b = []
    snd = a.target if sender == "auto" else sender
    tgt = a.sender if target == "auto" else target
    if snd is not None:
        b.append((49, snd))
    if tgt is not None:
        b.append((56, tgt))
    if seq == "auto":
        seq = a.next_in
    if seq is not None:
        b.append((34, str(seq)))
    b.append((52, stamp(now_ms)))
    b += [(t, str(v)) for t, v in body]
    fs = frame_fields(begin, mtype, b)
    return (mtype_of(fs), fs)


def encode_row(sender, target, mtype, tags, seq, now_ms=0):
    """a journal row made by the REAL encoder (raw_seq_num mode) and read back by the REAL decoder;
    returns (seq, (mtype, fields))."""
    from asyncfix import FIXMessage
    from asyncfix.codec import Codec
    from asyncfix.protocol import FIXProtocol44

    old = Codec.__dict__["current_datetime"]  # the staticmethod object itself
    Codec.current_datetime = staticmethod(lambda: stamp(now_ms))
    try:
        m = FIXMessage(mtype, dict(tags))
        m.set(34, seq, replace=True)
        sess = types.SimpleNamespace(sender_comp_id=sender, target_comp_id=target)
        codec = Codec(FIXProtocol44())
        raw = codec.encode(m, sess, raw_seq_num=True).encode("latin-1")
        dec, n, _ = codec.decode(raw)
        assert dec is not None and n == len(raw)
        fs = [(int(t), v) for t, v in dec.tags.items()]
        assert fields_to_bytes(fs) == raw, (fs, raw)
        return (seq, (str(dec.msg_type), fs))
    finally:
        Codec.current_datetime = old


# ------------------------------------------------------------------------------------------
# implementation side
# ------------------------------------------------------------------------------------------

KIND = None


def exc_kind(e) -> str:
    from asyncfix import errors as E

    t = type(e) if not isinstance(e, type) else e
    table = [
        (E.FIXConnectionError, "Connection"), (E.EncodingError, "Encoding"),
        (E.DuplicateSeqNoError, "DuplicateSeqNo"), (E.TagNotFoundError, "TagNotFound"),
        (E.DuplicatedTagError, "Duplicated"), (E.RepeatingTagError, "Repeating"),
        (E.UnmappedRepeatedGrpError, "Unmapped"),
    ]
    for cls, k in table:
        if t is cls:
            return k
    if t is E.FIXMessageError:
        return "FIXMessageError"
    for cls, k in [(AssertionError, "Assertion"), (KeyError, "Key"), (AttributeError, "Attribute"),
                   (OverflowError, "Overflow")]:
        if issubclass(t, cls):
            return k
    if t is ValueError:
        return "Value"
    return "Other:" + t.__name__


class _Done(BaseException):
    """raised by the patched asyncio.sleep / second read: one task iteration is over"""


class _Abort(BaseException):
    def __init__(self, kind):
        self.kind = kind


class _Writer:
    def __init__(self, eff, impl=None):
        self.eff = eff
        self.impl = impl

    def write(self, b):
        if self.impl is not None:
            self.impl._fault_point("writer.write")
        self.eff.append(("W", bytes(b)))

    async def drain(self):
        if self.impl is not None:
            self.impl._fault_point("writer.drain")

    def close(self):
        self.eff.append(("CS",))
        if self.impl is not None:
            self.impl._fault_point("writer.close")

    async def wait_closed(self):
        pass

    def get_extra_info(self, *_):
        return None


class _Reader:
    """read() returns the given chunks, then b"" once (EOF), then ends the iteration"""

    def __init__(self, chunks):
        self.chunks = list(chunks)

    async def read(self, n):
        if not self.chunks:
            raise _Done()
        return self.chunks.pop(0)


class _Log(C.LogBase):
    """logger stand-in: `exception()` is how the library reports a swallowed exception"""

    def __init__(self, eff):
        self.eff = eff
        self.mode = "msg"

    def debug(self, *a, **k):
        pass

    info = warning = error = debug

    def exception(self, *a, **k):
        kind = exc_kind(sys.exc_info()[0])
        outermost = C.log_origin() == "task"
        if self.mode == "task" and outermost:  # a task's outermost handler: the iteration is aborted
            raise _Abort(kind)
        self.eff.append(("C", kind))


def make_exc(name):
    """exception instance of an injected collaborator fault"""
    import asyncio
    import sqlite3

    from asyncfix import errors as E

    table = {"sqlite3.OperationalError": lambda: sqlite3.OperationalError("database or disk is full"),
             "sqlite3.DataError": lambda: sqlite3.DataError("injected"),
             "RuntimeError": lambda: RuntimeError("unable to perform operation on closed transport"),
             "ConnectionResetError": lambda: ConnectionResetError("reset by peer"),
             "OSError": lambda: OSError("injected"), "FIXError": lambda: E.FIXError("injected"),
             "ValueError": lambda: ValueError("injected"), "KeyError": lambda: KeyError("injected"),
             "CancelledError": lambda: asyncio.CancelledError()}
    return table[name]()


def run_coro(coro):
    """drive a coroutine that never really suspends"""
    try:
        coro.send(None)
    except StopIteration as e:
        return e.value
    coro.close()
    raise RuntimeError("coroutine suspended unexpectedly")


class Impl:
    """ONE real AsyncFIXConnection (+ in-memory Journaler) reused for every step."""

    def __init__(self):
        import asyncio
        import logging
        import time as _time

        import asyncfix.connection as cm
        from asyncfix import ConnectionRole, ConnectionState, FIXMessage, FMsg
        from asyncfix.codec import Codec
        from asyncfix.journaler import Journaler
        from asyncfix.message import MessageDirection
        from asyncfix.protocol import FIXProtocol44

        logging.disable(logging.CRITICAL)
        self.cm, self.FIXMessage, self.FMsg = cm, FIXMessage, FMsg
        self.CS, self.CR, self.MD = ConnectionState, ConnectionRole, MessageDirection
        self.now_ms = 0
        impl = self

        # patched clock / sleep, local to asyncfix.connection and asyncfix.codec.  The clock
        # `Codec.current_datetime()` READS is patched (the module's `datetime` name), the method itself runs.
        import asyncfix.codec as codec_mod

        self.codec_mod = codec_mod
        self._saved = (cm.time, cm.asyncio, getattr(codec_mod, "datetime", None))
        cm.time = C.clock_patch(cm, lambda: impl.now_ms / 1000)
        self.fake_datetime = fake_datetime_class(lambda: impl.now_ms)
        codec_mod.datetime = self.fake_datetime

        async def _sleep(_d):
            raise _Done()

        class _AsyncioProxy:
            def __getattr__(self, name):
                return getattr(asyncio, name)

        proxy = _AsyncioProxy()
        proxy.sleep = _sleep
        cm.asyncio = proxy
        self.Codec = Codec
        self.codec = Codec(FIXProtocol44())

        self.eff = []
        self.declined = None  # None = all replayed; "none"; set of ints
        eff = self.eff

        class Hooks:
            async def on_message(self, msg):
                eff.append(("D", msg))
                impl._fault_point("hook.on_message")

            async def on_connect(self):
                eff.append(("CN",))

            async def on_disconnect(self):
                eff.append(("DC",))
                impl._fault_point("hook.on_disconnect")

            async def on_logon(self, healthy):
                eff.append(("L", bool(healthy)))
                impl._fault_point("hook.on_logon")

            async def on_logout(self, msg):
                eff.append(("LO", msg))
                impl._fault_point("hook.on_logout")

            async def on_state_change(self, s):
                eff.append(("S", int(s)))
                impl._fault_point("hook.on_state_change")

            async def should_replay(self, msg):
                if impl.declined is None:
                    return True
                if impl.declined == "none":
                    return False
                try:
                    return int(msg[34]) not in impl.declined
                except Exception:
                    return True

        import asyncfix.connection_client as cc
        import asyncfix.connection_server as csrv

        class Conn(Hooks, cm.AsyncFIXConnection):
            pass

        class ClientConn(Hooks, cc.AsyncFIXClient):
            pass

        class ServerConn(Hooks, csrv.AsyncFIXDummyServer):
            pass

        self.ClientConn, self.ServerConn = ClientConn, ServerConn
        self.journal = Journaler()
        self.log = _Log(eff)
        self.conn = Conn(FIXProtocol44(), "S", "T", self.journal, "h", 1, 30, logger=self.log)
        self.writer = _Writer(eff, self)
        # collaborator faults (round 5): {"where": point, "k": n-th call since load(), "exc": class name}
        self.fault, self.fault_fired, self.calls = None, False, {}
        self.buflog = []
        real_persist, real_setseq = self.journal.persist_msg, self.journal.set_seq_num

        def persist_msg(*a, **k):
            impl._fault_point("journal.persist")
            return real_persist(*a, **k)

        def set_seq_num(*a, **k):
            impl._fault_point("journal.set_seq_num")
            return real_setseq(*a, **k)

        self.journal.persist_msg, self.journal.set_seq_num = persist_msg, set_seq_num
        self.key = self.conn._session.key
        self.Conn = Conn

    FAULT_POINTS = ["journal.persist", "journal.set_seq_num", "writer.write", "writer.drain", "writer.close",
                    "hook.on_message", "hook.on_disconnect", "hook.on_logon", "hook.on_logout", "hook.on_state_change"]
    FAULT_CLASSES = ["sqlite3.OperationalError", "sqlite3.DataError", "RuntimeError", "ConnectionResetError",
                     "OSError", "FIXError", "ValueError", "KeyError"]

    def _fault_point(self, where):
        n = self.calls.get(where, 0) + 1
        self.calls[where] = n
        f = self.fault
        if f and not self.fault_fired and f["where"] == where and f["k"] == n:
            self.fault_fired = True
            raise make_exc(f["exc"])

    def close(self):
        self.cm.time, self.cm.asyncio, dt = self._saved
        if dt is not None:
            self.codec_mod.datetime = dt

    # ---- state in / out --------------------------------------------------------------------
    def load(self, a: AbsConn):
        c, j = self.conn, self.journal
        c._connection_state = self.CS(a.state)
        c._connection_role = self.CR(a.role)
        c._connection_was_active = a.was_active
        s = c._session
        s.sender_comp_id, s.target_comp_id = a.sender, a.target
        s.next_num_in, s.next_num_out = a.next_in, a.next_out
        c._max_seq_num_resend = a.max_resend
        c._test_req_id = a.test_req_id
        c._message_last_time = a.last_time / 1000 if a.last_time else 0.0
        c._heartbeat_period = a.hb
        c._socket_writer = self.writer if a.sock else None
        c._socket_reader = object() if a.sock else None
        c._msg_buffer = b""
        cur = j.cursor
        cur.execute("DELETE FROM message")
        cur.execute(
            "UPDATE session SET targetCompId=?, senderCompId=?, outboundSeqNo=?, inboundSeqNo=? WHERE sessionId=?",
            (a.target, a.sender, a.stored_out, a.stored_in, self.key),
        )
        for rows, d in ((a.out_rows, self.MD.OUTBOUND), (a.in_rows, self.MD.INBOUND)):
            for seq, (_, fs) in rows:
                cur.execute("INSERT INTO message VALUES(?, ?, ?, ?)", (seq, self.key, d.value, fields_to_bytes(fs)))
        j.conn.commit()
        del self.eff[:]
        self.calls, self.fault_fired = {}, False
        self.buflog = []

    def dump(self) -> str:
        c, j = self.conn, self.journal
        s = c._session
        lt = c._message_last_time
        lt_ms = int(round(lt * 1000))
        assert lt_ms / 1000 == lt, "clock value is not a whole millisecond"
        sock = c._socket_writer is not None
        assert sock == (c._socket_reader is not None), "writer/reader set apart"
        cur = j.cursor
        cur.execute("SELECT outboundSeqNo, inboundSeqNo, targetCompId, senderCompId FROM session WHERE sessionId=?", (self.key,))
        so, si, tg, sd = next(cur)
        assert (tg, sd) == (s.target_comp_id, s.sender_comp_id)
        t = [
            str(int(c._connection_state)), str(c._connection_role.value), "1" if c._connection_was_active else "0",
            stok(s.sender_comp_id), stok(s.target_comp_id), str(s.next_num_in), str(s.next_num_out),
            str(c._max_seq_num_resend), "none" if c._test_req_id is None else str(c._test_req_id),
            str(lt_ms), str(c._heartbeat_period), "1" if sock else "0", str(so), str(si),
        ]
        for d in (self.MD.OUTBOUND, self.MD.INBOUND):
            cur.execute("SELECT seqNo, msg FROM message WHERE session=? AND direction=? ORDER BY seqNo", (self.key, d.value))
            rows = list(cur)
            t.append(str(len(rows)))
            for seq, raw in rows:
                fs = bytes_to_fields(raw)
                t += [str(seq), msg_tok((mtype_of(fs), fs))]
        return " ".join(t)

    def _canon_msg(self, m):
        return msg_tok((str(m.msg_type), [(int(t), v) for t, v in m.tags.items()]))

    def effects(self):
        out = []
        for e in self.eff:
            k = e[0]
            if k == "W":
                fs = bytes_to_fields(e[1])
                out.append("W=" + msg_tok((mtype_of(fs), fs)))
            elif k == "D":
                out.append("D=" + self._canon_msg(e[1]))
            elif k == "LO":
                out.append("LO=" + self._canon_msg(e[1]))
            elif k == "L":
                out.append("L=" + ("1" if e[1] else "0"))
            elif k == "S":
                out.append(f"S={e[1]}")
            elif k in ("C", "R"):
                out.append(f"{k}={e[1]}")
            else:
                out.append(k)
        return out

    # ---- events ----------------------------------------------------------------------------
    def make_msg(self, m):
        """FIXMessage + raw bytes of an abstract inbound frame: through the REAL decoder whenever it
        accepts the frame, otherwise (wrong BeginString …) built field by field."""
        mtype, fs = m
        raw = fields_to_bytes(fs)
        dec, n, enc = self.codec.decode(raw)
        if dec is not None and n == len(raw) and [(int(t), v) for t, v in dec.tags.items()] == fs:
            return dec, enc
        try:
            mt = self.FMsg(mtype)
        except ValueError:
            mt = mtype
        msg = self.FIXMessage(mt)
        for t, v in fs:
            msg.set(t, v)
        return msg, raw

    def apply(self, sr: str, ev):
        """apply ONE event to the loaded connection; effects are appended to self.eff"""
        c = self.conn
        self.declined = None if sr == "all" else ("none" if sr == "none" else {int(x) for x in sr[1:].split(",")})
        k = ev[0]
        if len(ev) > 1 and k != "conn":
            self.now_ms = ev[1]
        self.log.mode = "msg"
        try:
            if k == "recv":
                msg, raw = self.make_msg(ev[2])
                run_coro(c._process_message(msg, raw))
            elif k == "send":
                mtype, tags = ev[2]
                try:
                    mt = self.FMsg(mtype)
                except ValueError:
                    mt = mtype
                msg = self.FIXMessage(mt)
                for t, v in tags:
                    msg.set(t, v)
                run_coro(c.send_msg(msg))
            elif k == "testreq":
                run_coro(c.send_test_req())
            elif k == "disc":
                run_coro(c.disconnect(self.CS(ev[2]) if ev[2] <= 18 else ev[2], ev[3]))
            elif k == "reset":
                run_coro(c.reset_seq_num())
            elif k == "tick":
                self.log.mode = "task"
                try:
                    run_coro(c.heartbeat_timer_task())
                except _Done:
                    pass
                except _Abort as a:
                    self.eff.append(("R", a.kind))
            elif k == "eof":
                # the real reader task: read() -> b"" -> ConnectionError -> disconnect(...)
                self.log.mode = "task"
                if c._socket_reader is not None:
                    c._socket_reader = _Reader([b""])
                try:
                    run_coro(c.socket_read_task())
                except _Done:
                    pass
                except _Abort as a:
                    self.eff.append(("R", a.kind))
                if c._socket_reader is not None:
                    c._socket_reader = object()
            elif k == "read":
                # ONE read() chunk through the real reader task (real decoder, real inner loop)
                self.log.mode = "task"
                chunk = b"".join(fields_to_bytes(fs) for _, fs in ev[2]) + ev[3].encode("latin-1")
                if c._socket_reader is not None:
                    c._socket_reader = _Reader([chunk])
                try:
                    run_coro(c.socket_read_task())
                except _Done:
                    pass
                except _Abort as a:
                    self.eff.append(("R", a.kind))
                if c._socket_reader is not None:
                    c._socket_reader = object()
            elif k == "conn":
                self._connected(ev[1])
            else:
                raise ValueError(ev)
        except (_Done, _Abort):
            raise
        except Exception as e:  # escaped the entry point
            self.eff.append(("R", exc_kind(e)))
        except BaseException as e:
            if type(e).__name__ != "CancelledError":
                raise
            self.eff.append(("R", "Other:CancelledError"))
        finally:
            self.buflog.append(len(c._msg_buffer))  # receive-buffer length after every event (oracles)

    def _connected(self, kind):
        """connection_client.connect() / connection_server._handle_accept(): the REAL methods run on the
        same object (its class is switched to the client / server subclass for the call);
        `open_connection` hands out the fake transport and the task-starting base `connect()` is a no-op."""
        import asyncfix.connection_client as cc

        c = self.conn
        impl = self

        async def no_tasks(self_):
            return None

        if kind in ("init", "fail"):
            async def open_connection(host, port):
                if kind == "fail":
                    raise OSError("refused")
                return object(), impl.writer

            saved_base = self.cm.AsyncFIXConnection.connect
            saved_async = cc.asyncio
            self.cm.AsyncFIXConnection.connect = no_tasks
            cc.asyncio = types.SimpleNamespace(open_connection=open_connection)
            c.__class__ = self.ClientConn
            try:
                run_coro(c.connect())
            finally:
                c.__class__ = self.Conn
                self.cm.AsyncFIXConnection.connect = saved_base
                cc.asyncio = saved_async
        else:
            c.__class__ = self.ServerConn
            try:
                run_coro(c._handle_accept(object(), self.writer))
            finally:
                c.__class__ = self.Conn

    def step(self, a: AbsConn, sr: str, ev):
        self.load(a)
        self.apply(sr, ev)
        return self.effects(), self.dump()


# ------------------------------------------------------------------------------------------
# comparison
# ------------------------------------------------------------------------------------------


def batch_parallel(lines, workers=6):
    """stateless driver batch split over several driver processes (order preserved).  The processes read
    and write temporary FILES, so no Python thread sits in a pipe loop (threads + pipes were slower than one
    process on a loaded machine)."""
    import shutil
    import subprocess
    import tempfile

    if len(lines) < 2000:
        return C.Driver().batch(lines) if lines else []
    n = (len(lines) + workers - 1) // workers
    chunks = [lines[i:i + n] for i in range(0, len(lines), n)]
    d = tempfile.mkdtemp(prefix="sessdrv", dir="/dev/shm" if os.path.isdir("/dev/shm") else None)
    try:
        procs = []
        for k, ch in enumerate(chunks):
            with open(os.path.join(d, f"in{k}"), "w") as f:
                f.write("\n".join(ch) + "\n")
            fi, fo = open(os.path.join(d, f"in{k}")), open(os.path.join(d, f"out{k}"), "w")
            procs.append((subprocess.Popen([C.DRIVER], stdin=fi, stdout=fo), fi, fo))
        out = []
        for k, (p, fi, fo) in enumerate(procs):
            rc = p.wait()
            fi.close()
            fo.close()
            with open(os.path.join(d, f"out{k}")) as f:
                part = f.read().split("\n")
            if part and part[-1] == "":
                part.pop()
            if rc != 0 or len(part) != len(chunks[k]):
                raise RuntimeError(f"driver failed rc={rc} replies={len(part)}/{len(chunks[k])}")
            out += part
        return out
    finally:
        shutil.rmtree(d, ignore_errors=True)


def compare_steps(impl: Impl, cases, driver=None, stats=None):
    """cases: iterable of (AbsConn, sr, event[, label]).  Runs every case on both sides.
    Returns (n, disagreements, impl_results) ; stats (dict) collects the distribution."""
    cases = list(cases)
    lines = [step_line(c[0], c[1], c[2]) for c in cases]
    model = driver.batch(lines) if driver else batch_parallel(lines)
    dis, results = [], []
    for case, ml in zip(cases, model):
        a, sr, ev = case[0], case[1], case[2]
        eff, post = impl.step(a, sr, ev)
        il = reply(eff, post)
        results.append((eff, post))
        if stats is not None:
            note_stats(stats, a, ev, eff, case[3] if len(case) > 3 else None)
        if il != ml:
            dis.append({"input": {"conn": a.tokens(), "sr": sr, "event": event_tokens(ev),
                                  "label": case[3] if len(case) > 3 else None}, "model": ml, "impl": il})
    return len(cases), dis, results


def note_stats(stats, a, ev, eff, label=None):
    def inc(d, k):
        stats.setdefault(d, {})
        stats[d][k] = stats[d].get(k, 0) + 1

    inc("state", str(a.state))
    inc("role", str(a.role))
    inc("event", label or ev[0])
    if not eff:
        inc("effect", "(none)")
    for e in eff:
        k = e.split("=")[0]
        inc("effect", k)
        if k in ("R", "C"):
            inc("exception", e)


# ------------------------------------------------------------------------------------------
# generators: abstract states, journal shapes, message classes (shared by C04 C05 C06 C11 C12 …)
# ------------------------------------------------------------------------------------------

ST = {
    "UNKNOWN": 0, "DISCONNECTED_NOCONN_TODAY": 1, "DISCONNECTED_WCONN_TODAY": 2, "DISCONNECTED_BROKEN_CONN": 3,
    "AWAITING_CONNECTION": 4, "INITIATE_CONNECTION": 5, "NETWORK_CONN_ESTABLISHED": 6, "LOGON_INITIAL_SENT": 7,
    "LOGON_INITIAL_RECV": 8, "LOGON_RESPONSE": 9, "RESENDREQ_HANDLING": 10, "RECV_SEQNUM_TOO_HIGH": 11,
    "RESENDREQ_AWAITING": 12, "NO_MSG_IN_INTERVAL": 13, "AWAIT_PROC_TEST_REQ": 14, "RECEIVED_LOGOUT": 15,
    "INITIATE_LOGOUT": 16, "ACTIVE": 17, "WAITING_FOR_LOGON": 18,
}
ALL_STATES = list(range(19))
ALL_ROLES = [0, 1, 2]
T0 = 1_700_000_000_000  # ms; multiples of 125 ms keep float arithmetic exact
COUNTERS = [(1, 1), (5, 7), (12, 4), (2**32 + 3, 2**33 + 1), (40, 41)]
_ROW_CACHE = {}


def row(sender, target, mtype, tags, seq, now_ms=T0):
    k = (sender, target, mtype, tuple(tags), seq, now_ms)
    if k not in _ROW_CACHE:
        _ROW_CACHE[k] = encode_row(sender, target, mtype, tags, seq, now_ms)
    return _ROW_CACHE[k]


JOURNAL_SHAPES = ["empty", "app", "sess", "holes", "mixed", "resent", "ahead"]


def with_journal(a: AbsConn, shape: str) -> AbsConn:
    """journal of the given shape under the counters of `a` (rows really encoded).
    empty – no rows, stored counters consistent;  app – application messages on the last ≤4 numbers;
    sess – session messages;  holes – every other number missing;  mixed – app / session / hole;
    resent – PossDup copies and a left-over gap fill (what an earlier resend leaves behind);
    ahead – a row AT next_num_out / next_num_in (inconsistent store: duplicate on the next persist)."""
    a = a.copy()
    a.stored_out, a.stored_in = a.next_out - 1, a.next_in - 1
    a.out_rows, a.in_rows = [], []
    if shape == "empty":
        return a
    lo = max(1, a.next_out - 4)
    nums = list(range(lo, a.next_out))
    S_, T_ = a.sender, a.target
    for i, n in enumerate(nums):
        if shape == "app":
            r = row(S_, T_, "D", ((11, f"ord{n}"), (58, "x")), n)
        elif shape == "sess":
            mt = ["A", "0", "1", "2"][i % 4]
            tags = {"A": ((98, "0"), (108, "30")), "0": (), "1": ((112, "7"),), "2": ((7, "1"), (16, "0"))}[mt]
            r = row(S_, T_, mt, tags, n)
        elif shape == "holes":
            if i % 2:
                continue
            r = row(S_, T_, "D", ((11, f"ord{n}"),), n)
        elif shape == "mixed":
            if i % 3 == 1:
                r = row(S_, T_, "0", (), n)
            elif i % 3 == 2:
                continue
            else:
                r = row(S_, T_, "8", ((37, f"e{n}"), (58, "fill")), n)
        elif shape == "resent":
            if i % 2:
                r = row(S_, T_, "4", ((123, "Y"), (36, str(n + 1))), n)
            else:
                r = row(S_, T_, "D", ((11, f"ord{n}"), (43, "Y"), (122, stamp(T0 - 5000))), n)
        elif shape == "ahead":
            r = row(S_, T_, "D", ((11, f"ord{n}"),), n)
        a.out_rows.append(r)
    lo = max(1, a.next_in - 2)
    for n in range(lo, a.next_in):
        a.in_rows.append(row(T_, S_, "D", ((11, f"in{n}"),), n))
    if shape == "ahead":
        a.out_rows.append(row(S_, T_, "D", ((11, "ahead"),), a.next_out))
        a.in_rows.append(row(T_, S_, "D", ((11, "ahead"),), a.next_in))
    return a


def inbound_classes(a: AbsConn):
    """(label, mtype, body) – message classes of the single-step table, relative to state `a`"""
    ni, no = a.next_in, a.next_out
    tid = a.test_req_id if a.test_req_id is not None else 1_700_000_000
    out = [
        ("Logon", "A", [(98, "0"), (108, "30")]),
        ("Logon-no98", "A", [(108, "30")]),
        ("Logout", "5", []),
        ("Logout-text", "5", [(58, "bye")]),
        ("Heartbeat", "0", []),
        ("Heartbeat-rightid", "0", [(112, str(tid))]),
        ("Heartbeat-wrongid", "0", [(112, str(tid + 1))]),
        ("Heartbeat-badid", "0", [(112, "TEST")]),
        ("TestRequest", "1", [(112, "TEST1")]),
        ("TestRequest-noid", "1", []),
        ("Resend-all", "2", [(7, "1"), (16, "0")]),
        ("Resend-tail", "2", [(7, str(max(1, no - 2))), (16, "0")]),
        ("Resend-bounded", "2", [(7, str(max(1, no - 3))), (16, str(max(1, no - 2)))]),
        ("Resend-beyond", "2", [(7, str(no)), (16, "0")]),
        ("Resend-zero", "2", [(7, "0"), (16, "0")]),
        ("Resend-inverted", "2", [(7, str(max(2, no - 1))), (16, "1")]),
        ("Resend-garbled", "2", [(7, "x"), (16, "0")]),
        ("Resend-no16", "2", [(7, "1")]),
        ("Reset-below", "4", [(36, str(max(1, ni - 1)))]),
        ("Reset-at", "4", [(36, str(ni))]),
        ("Reset-above", "4", [(36, str(ni + 5))]),
        ("Reset-N-above", "4", [(123, "N"), (36, str(ni + 5))]),
        ("Reset-zero", "4", [(36, "0")]),
        ("Reset-no36", "4", []),
        ("GapFill-below", "4", [(123, "Y"), (36, str(max(1, ni - 1)))]),
        ("GapFill-at", "4", [(123, "Y"), (36, str(ni))]),
        ("GapFill-above", "4", [(123, "Y"), (36, str(ni + 3))]),
        ("GapFill-far", "4", [(123, "Y"), (36, str(ni + 2000))]),
        ("GapFill-garbled", "4", [(123, "Y"), (36, "zz")]),
        ("App", "D", [(11, "clord"), (58, "payload")]),
        ("App-custom", "U7", [(58, "x")]),
        ("Reject", "3", [(45, "3"), (58, "why")]),
    ]
    return out


def seq_classes(a: AbsConn):
    ni = a.next_in
    return [("noseq", None), ("garbled", "abc"), ("below", ni - 1), ("at", ni), ("plus1", ni + 1),
            ("far", ni + 1000), ("at-ws", f" {ni}")]


DEFECTS = ["begin-wrong", "sender-missing", "target-missing", "both-missing", "sender-wrong", "target-wrong", "swapped"]


def defective(a: AbsConn, defect: str, mtype, body, seq, possdup=False, now_ms=T0):
    kw = {}
    if defect == "begin-wrong":
        kw["begin"] = "FIX.4.2"
    elif defect == "sender-missing":
        kw["sender"] = None
    elif defect == "target-missing":
        kw["target"] = None
    elif defect == "both-missing":
        kw["sender"] = kw["target"] = None
    elif defect == "sender-wrong":
        kw["sender"] = a.target + "X"
    elif defect == "target-wrong":
        kw["target"] = a.sender + "X"
    elif defect == "swapped":
        kw["sender"], kw["target"] = a.sender, a.target
    elif defect.startswith("sender="):
        kw["sender"] = defect[7:]
    elif defect.startswith("target="):
        kw["target"] = defect[7:]
    elif defect.startswith("begin="):
        kw["begin"] = defect[6:]
    if possdup is True:
        body = list(body) + [(43, "Y"), (122, stamp(now_ms - 3000))]
    elif isinstance(possdup, str):  # an explicit (possibly odd) PossDupFlag spelling
        body = list(body) + [(43, possdup), (122, stamp(now_ms - 3000))]
    else:
        body = list(body)
    return inbound(a, mtype, body, seq=seq, now_ms=now_ms, **kw)


# ---- 'almost equal' values for every field the session layer compares (round 4) -------------------

NEAR_43 = ["Y", "N", "y", "", "YES", " Y", "Y "]


def near_values(v: str):
    """spellings that differ from `v` only slightly: padding, case, NUL, NBSP, truncation, doubling"""
    sw = v.swapcase() if v.swapcase() != v else v + "x"
    return [("trail-space", v + " "), ("lead-space", " " + v), ("tab", v + "\t"), ("case", sw),
            ("nul", v + "\x00"), ("nbsp", v + "\xa0"), ("truncated", v[:-1] if len(v) > 1 else v + v),
            ("doubled", v + v), ("empty", "")]


def near_numbers(n: int):
    """spellings around the decimal rendering of `n` (ASCII only: the model's int() is ASCII)"""
    return [("lead-space", f" {n}"), ("trail-space", f"{n} "), ("lead-zero", f"0{n}"), ("plus", f"+{n}"),
            ("underscore", f"{n}_"), ("inner-underscore", f"{str(n)[0]}_{str(n)[1:]}" if n > 9 else f"0_{n}"),
            ("nul", f"{n}\x00"), ("float", f"{n}.0"), ("hex", f"0x{n}"), ("minus", f"-{n}"), ("empty", ""),
            ("inner-space", f"{n} 0")]


def near_cases(rng, states=(6, 7, 12, 17), roles=(1, 2)):
    """single steps with near-miss VALUES in the compared header fields (BeginString, CompIDs, MsgSeqNum,
    PossDupFlag): yields (AbsConn, sr, event, label)."""
    k = rng.randrange(1000)
    for st in states:
        for role in roles:
            for (lab, mt, body) in (("App", "D", [(58, "x")]), ("Logon", "A", [(98, "0"), (108, "30")]), ("Heartbeat", "0", [])):
                k += 1
                a = with_journal(base_state(st, role, k), "app")
                a.sock = True
                fams = ([("sender", f"sender={v}", n) for n, v in near_values(a.target)]
                        + [("target", f"target={v}", n) for n, v in near_values(a.sender)]
                        + [("begin", f"begin={v}", n) for n, v in near_values("FIX.4.4")])
                for field_, d, n in fams:
                    yield (a, "all", ("recv", T0, defective(a, d, mt, body, a.next_in, False, T0)), f"near:{field_}:{n}")
                for base_, bl in ((a.next_in, "at"), (a.next_in - 1, "below")):
                    if base_ < 1:
                        continue
                    for n, v in near_numbers(base_):
                        yield (a, "all", ("recv", T0, defective(a, "none", mt, body, v, False, T0)), f"near:seq-{bl}:{n}")
                    for pv in NEAR_43:
                        yield (a, "all", ("recv", T0, defective(a, "none", mt, body, base_, pv, T0)), f"near:43-{bl}:{pv!r}")


def chunk_patterns(a: AbsConn, now=T0):
    """read() chunks of several frames (round 5): a defective / premature / session-ending frame FOLLOWED by
    more frames in the same chunk, and plain multi-frame chunks.  Yields (label, frames, junk)."""
    ni = a.next_in
    tid = a.test_req_id if a.test_req_id is not None else 7
    logon = lambda seq: inbound(a, "A", [(98, "0"), (108, "30")], seq=seq, now_ms=now)
    app = lambda seq, txt="x": inbound(a, "D", [(58, txt)], seq=seq, now_ms=now)
    yield ("wrong-target-logon+logon", [defective(a, "target-wrong", "A", [(98, "0"), (108, "30")], ni, False, now), logon(ni)], "")
    yield ("app+logon", [app(ni), logon(ni)], "")
    yield ("logon+app", [logon(ni), app(ni + 1)], "")
    yield ("logon+app+app", [logon(ni), app(ni + 1), app(ni + 2)], "8=FI")
    yield ("app+app", [app(ni), app(ni + 1)], "\n")
    yield ("toolow+app", [app(ni - 1), app(ni)], "")
    yield ("logout+app", [inbound(a, "5", [], seq=ni, now_ms=now), app(ni + 1)], "")
    yield ("wrongid-heartbeat+app", [inbound(a, "0", [(112, str(tid + 1))], seq=ni, now_ms=now), app(ni + 1)], "")
    yield ("noseq+logon+app", [inbound(a, "D", [(58, "x")], seq=None, now_ms=now), logon(ni), app(ni + 1)], "garbage")
    yield ("gap+app", [app(ni + 3), app(ni + 4)], "")
    yield ("junk-only", [], "\n")
    yield ("junk-only-marker-prefix", [], "8=FI")


def read_cases(rng, states=(3, 6, 7, 12, 17), roles=(1, 2)):
    """single steps: one read() chunk with several frames through the real reader task"""
    k = rng.randrange(1000)
    for st in states:
        for role in roles:
            k += 1
            a = with_journal(base_state(st, role, k), "app")
            a.sock = st > 3
            for lab, frames, junk in chunk_patterns(a):
                yield (a, "all", ("read", T0, frames, junk), f"read:{lab}")


def base_state(st, role, k, rng=None) -> AbsConn:
    """abstract state for the k-th case of a (state, role) cell: counters, watermark, TestReqID, times
    and socket cycle deterministically with k so that every class meets several concrete values."""
    ni, no = COUNTERS[k % len(COUNTERS)]
    a = AbsConn(state=st, role=role, next_in=ni, next_out=no)
    a.was_active = (k // 2) % 2 == 1
    a.sock = (st >= 6) if (k % 11) else (st < 6)
    a.test_req_id = None if (k // 3) % 3 == 0 else (T0 // 1000 - 10 if (k // 3) % 3 == 1 else 0)
    a.last_time = 0 if (k // 5) % 2 == 0 else T0 - 2000
    a.max_resend = [0, ni, ni + 1, ni + 1000][(k // 7) % 4] if st == 12 else [0, ni + 2][(k // 7) % 2]
    a.hb = [30, 1, 5][(k // 13) % 3]
    return a


def single_step_cases(rng, states=ALL_STATES, roles=ALL_ROLES, full=True):
    """the exhaustive single-step table (DESIGN §2.4): yields (AbsConn, sr, event, label)."""
    k = rng.randrange(1000)
    for st in states:
        for role in roles:
            # ---- inbound, no integrity defect
            proto = base_state(st, role, 0)
            for (lab, mt, _b) in inbound_classes(proto):
                for pd in (False, True):
                    for (slab, _s) in seq_classes(proto):
                        k += 1
                        a = with_journal(base_state(st, role, k), JOURNAL_SHAPES[k % len(JOURNAL_SHAPES)])
                        body = dict((l, b) for l, _m, b in inbound_classes(a))[lab]
                        seq = dict(seq_classes(a))[slab]
                        sr = ["all", "none", f"d{max(1, a.next_out - 2)}"][k % 3]
                        m = defective(a, "none", mt, body, seq, pd, T0)
                        yield (a, sr, ("recv", T0, m), f"recv:{lab}")
            # ---- inbound with an integrity defect
            for d in DEFECTS:
                for (lab, mt, _b) in inbound_classes(proto):
                    if lab not in ("Logon", "Logout", "Heartbeat", "Resend-all", "Reset-above", "GapFill-above", "App"):
                        continue
                    for slab in ("noseq", "below", "at", "garbled"):
                        k += 1
                        a = with_journal(base_state(st, role, k), JOURNAL_SHAPES[k % len(JOURNAL_SHAPES)])
                        body = dict((l, b) for l, _m, b in inbound_classes(a))[lab]
                        seq = dict(seq_classes(a))[slab]
                        m = defective(a, d, mt, body, seq, False, T0)
                        yield (a, "all", ("recv", T0, m), f"recv-defect:{d}")
            # ---- application sends
            for mt, tags, lab in send_classes():
                for tr in (None, T0 // 1000 - 3):
                    for shape in ("app", "ahead") if full else ("app",):
                        k += 1
                        a = base_state(st, role, k)
                        a.test_req_id = tr
                        a = with_journal(a, shape)
                        yield (a, "all", ("send", T0, (mt, tags)), f"send:{lab}")
            # ---- other events
            for j in range(12):
                k += 1
                a = with_journal(base_state(st, role, k), JOURNAL_SHAPES[k % len(JOURNAL_SHAPES)])
                for dt in (0, (a.hb - 1) * 1000, (a.hb - 1) * 1000 + 125, a.hb * 2000, a.hb * 2000 + 125, a.hb * 5000):
                    b = a.copy()
                    b.last_time = T0 if j % 3 else 0
                    b.test_req_id = [None, 0, T0 // 1000, T0 // 1000 - 2 * a.hb - 1][j % 4]
                    yield (b, "all", ("tick", T0 + dt), "tick")
                yield (a, "all", ("eof", T0), "eof")
                yield (a, "all", ("testreq", T0 + 250), "testreq")
                yield (a, "all", ("conn", ["init", "acc", "fail"][j % 3]), "conn")
                yield (a, "all", ("reset",), "reset")
                yield (a, "all", ("disc", T0, [1, 2, 3, 5, 17, 0][j % 6], [None, "", "bye", "grüß", "€"][j % 5]), "disc")


def send_classes():
    return [
        ("A", [(98, "0"), (108, "30")], "Logon"),
        ("5", [], "Logout"),
        ("0", [], "Heartbeat"),
        ("1", [(112, "9")], "TestRequest"),
        ("2", [(7, "1"), (16, "0")], "ResendRequest"),
        ("3", [(45, "1")], "Reject"),
        ("4", [(36, "9")], "SeqReset-no34"),
        ("4", [(34, "3"), (36, "9")], "SeqReset-34"),
        ("4", [(123, "Y"), (34, "zz"), (36, "9")], "SeqReset-34garbled"),
        ("D", [(11, "c1"), (58, "text")], "App"),
        ("D", [(11, "c1"), (43, "Y")], "App-possdup-no34"),
        ("D", [(11, "c1"), (43, "Y"), (34, "2")], "App-possdup-34"),
        ("D", [(11, "c1"), (43, "N"), (34, "2")], "App-34-ignored"),
        ("D", [(11, "c1"), (49, "ZZ"), (56, "YY"), (52, "tm")], "App-header-tags-skipped"),
        ("D", [(58, "café")], "App-latin1-nonutf8"),
        ("D", [(58, "Ã©")], "App-latin1-utf8"),
        ("D", [(58, "€ uro")], "App-nonlatin1"),
        ("U1", [(58, "custom")], "App-customtype"),
    ]


# ------------------------------------------------------------------------------------------
# random histories (lock-step: the implementation object keeps its own state between events)
# ------------------------------------------------------------------------------------------


def fresh(role, rng, sender="INIT", target="ACPT") -> AbsConn:
    """a connection object as its constructor leaves it, over a journal that may be non-empty"""
    a = AbsConn(state=1, role=role, sender=sender if role != 2 else target, target=target if role != 2 else sender)
    a.hb = rng.choice([1, 2, 5, 30])
    ni, no = rng.choice([(1, 1), (1, 1), (3, 6), (9, 4), (2**32 + 1, 2**32 + 7)])
    a.next_in, a.next_out = ni, no
    return with_journal(a, rng.choice(["empty", "app", "mixed", "holes", "sess"]))


def next_event(rng, a: AbsConn, now, wide=False):
    """one plausible-or-hostile event for the current abstract state; returns (sr, event, label).
    wide: also configurations / values the library's own endpoints never produce – either role opens
    the session, any transport kind for any role, odd PossDupFlag spellings, near-miss CompIDs."""
    sr = rng.choice(["all", "all", "none", f"d{max(1, a.next_out - 2)}"])
    r = rng.random()
    ni = a.next_in

    def rx(lab, mt, body, seq="auto", pd=False, defect="none"):
        return (sr, ("recv", now, defective(a, defect, mt, body, ni if seq == "auto" else seq, pd, now)), "recv:" + lab)

    if wide and a.state <= 3 and r < 0.6:
        kinds = {2: ["acc"] * 4 + ["init"], 1: ["init"] * 4 + ["fail", "acc"]}.get(a.role, ["init", "acc"])
        return (sr, ("conn", rng.choice(kinds)), "conn")
    if wide and a.state == 6 and r < (0.3 if a.role == 2 else 0.6):
        return (sr, ("send", now, ("A", [(98, "0"), (108, str(a.hb))])), "send:Logon")
    if wide and a.state == 7 and r < 0.25:
        mt, tags, lab = rng.choice(send_classes())
        return (sr, ("send", now, (mt, tags)), "send:" + lab)
    if wide and a.state > 3 and 0.25 <= r < 0.37:
        lab, frames, junk = rng.choice(list(chunk_patterns(a, now)))
        return (sr, ("read", now, frames, junk), "read:" + lab)
    if a.state <= 3:
        if r < 0.6:
            return (sr, ("conn", "acc" if a.role == 2 else rng.choice(["init", "init", "fail"])), "conn")
        if r < 0.7:
            return rx("App", "D", [(58, "late")])
        if r < 0.8:
            return (sr, ("send", now, ("D", [(58, "late")])), "send:App")
        if r < 0.9:
            return (sr, ("tick", now), "tick")
        return (sr, ("eof", now), "eof")
    if a.state == 6 and a.role != 2 and r < 0.7:
        return (sr, ("send", now, ("A", [(98, "0"), (108, str(a.hb))])), "send:Logon")
    if a.state in (6, 7) and r < 0.75:
        seq = ni if rng.random() < 0.7 else ni + rng.choice([1, 3])
        body = [(98, "0"), (108, str(a.hb))]
        if rng.random() < 0.08:
            body = rng.choice([[(108, str(a.hb))], [(98, "0")], []])
        return rx("Logon", "A", body, seq)
    # established (or hostile traffic before logon)
    k = rng.random()
    if r < 0.30:
        if k < 0.6:
            return rx("App", "D", [(11, f"c{ni}"), (58, "payload")])
        if k < 0.75:
            return rx("App", "D", [(11, "gap"), (58, "early")], ni + rng.choice([1, 2, 7]))
        if k < 0.85:
            pd = rng.random() < 0.5
            if wide and rng.random() < 0.5:
                pd = rng.choice(NEAR_43)
            return rx("App", "D", [(11, "old")], max(0, ni - rng.choice([1, 2])), pd=pd)
        return rx("App", "D", [(11, f"c{ni}"), (58, "resent")], ni, pd=True)
    if r < 0.40:
        tid = a.test_req_id if a.test_req_id is not None else 5
        body = rng.choice([[], [(112, str(tid))], [(112, str(tid + 1))], [(112, "zz")]])
        return rx("Heartbeat", "0", body, ni if k < 0.8 else ni + 1)
    if r < 0.46:
        return rx("TestRequest", "1", rng.choice([[(112, "T1")], []]), ni if k < 0.8 else ni + 2)
    if r < 0.56:
        no = a.next_out
        b = rng.choice([1, max(1, no - 1), max(1, no - 3), no, no + 2, 0])
        e = rng.choice([0, 0, 0, max(1, no - 2), 1, no + 5])
        return rx("Resend", "2", [(7, str(b)), (16, str(e))], ni if k < 0.8 else ni + 1)
    if r < 0.64:
        gf = rng.random() < 0.6
        seq = ni if k < 0.7 else ni + rng.choice([-1, 1, 3])
        new = seq + rng.choice([-1, 0, 1, 2, 5])
        return rx("GapFill" if gf else "Reset", "4", ([(123, "Y")] if gf else []) + [(36, str(max(0, new)))], max(0, seq),
                  pd=rng.random() < 0.3)
    if r < 0.76:
        mt, tags, lab = rng.choice(send_classes())
        return (sr, ("send", now, (mt, tags)), "send:" + lab)
    if r < 0.86:
        return (sr, ("tick", now), "tick")
    if r < 0.89:
        return rx("Logout", "5", rng.choice([[], [(58, "bye")]]), ni if k < 0.8 else ni + 1)
    if r < 0.91:
        return (sr, ("eof", now), "eof")
    if r < 0.93:
        return (sr, ("testreq", now), "testreq")
    if r < 0.945:
        return (sr, ("disc", now, rng.choice([1, 2, 3]), rng.choice([None, "", "bye"])), "disc")
    if r < 0.955:
        return (sr, ("reset",), "reset")
    if r < 0.985:
        d = rng.choice(DEFECTS)
        if wide and rng.random() < 0.5:
            which = rng.choice(["sender", "target"])
            d = f"{which}=" + rng.choice(near_values(a.target if which == "sender" else a.sender))[1]
        return rx("defect-" + d, rng.choice(["D", "0", "A"]), [(58, "x")], rng.choice([ni, ni - 1, None]), defect=d)
    return rx("App", "D", [(58, "x")], rng.choice([None, "abc", f" {ni} "]))


def run_history(impl: Impl, rng, max_len, stats=None, wide=False):
    """generate and run one history on the implementation; returns (start, [(sr, ev, label, eff, post)])"""
    role = rng.choice([0, 1, 1, 2, 2]) if wide else rng.choice([1, 1, 2])
    start = fresh(role, rng)
    impl.load(start)
    impl.fault_step = None
    now = T0
    a = start
    steps = []
    n = rng.randint(max_len // 2, max_len)
    for _ in range(n):
        now += rng.choice([0, 125, 250, 1000, 1000, 3000, a.hb * 1000, a.hb * 2000 + 125])
        sr, ev, lab = next_event(rng, a, now, wide) if wide else next_event(rng, a, now)
        del impl.eff[:]
        before = impl.fault_fired
        impl.apply(sr, ev)
        if impl.fault_fired and not before:
            impl.fault_step = len(steps)
        eff, post = impl.effects(), impl.dump()
        if stats is not None:
            note_stats(stats, a, ev, eff, lab)
        steps.append((sr, ev, lab, eff, post))
        a = parse_conn_tokens(post)
        if ev[0] == "read" and any(e.startswith("R=") for e in eff):
            break  # the rest of the chunk stays in the buffer: the model's `feed` hands it back, the history ends
    return start, steps


def compare_histories(impl: Impl, rng, n_hist, max_len, driver=None, stats=None, wide=False):
    """lock-step comparison after every event.  Returns (events, disagreements)."""
    drv = driver or C.Driver()
    hist = [run_history(impl, rng, max_len, stats, wide) for _ in range(n_hist)]
    lines, index = [], []
    for hi, (start, steps) in enumerate(hist):
        lines.append("sess.load " + start.tokens())
        index.append(None)
        for si, (sr, ev, lab, eff, post) in enumerate(steps):
            lines.append(f"sess.ev {sr} {event_tokens(ev)}")
            index.append((hi, si))
    model = drv.batch(lines) if lines else []
    dis, bad_hist, events = [], set(), 0
    for ml, ix in zip(model, index):
        if ix is None:
            assert ml == "ok", ml
            continue
        hi, si = ix
        events += 1
        if hi in bad_hist:
            continue
        sr, ev, lab, eff, post = hist[hi][1][si]
        il = reply(eff, post)
        if il != ml:
            bad_hist.add(hi)  # later steps of this history start from different states
            start, steps = hist[hi]
            dis.append({
                "input": {"history": {"start": start.tokens(),
                                      "events": [[s[0], event_tokens(s[1])] for s in steps[: si + 1]]},
                          "label": lab, "step": si},
                "model": ml, "impl": il})
    return events, dis
