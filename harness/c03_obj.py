"""C03, reader level on ONE connection object (= one Codec object): processing faults and object history.

A case is a list of SEGMENTS.  A segment is what one transport delivered: bursts (sliced by the read size by the
fake socket) of a stream `g0 f1 g1 … fn gn`, possibly cut off anywhere (the transport died), after which the
connection object is abandoned the way the library does it (`disconnect(DISCONNECTED_BROKEN_CONN)`) and the NEXT
segment arrives on the same object.  `_process_message` is replaced by a recorder that RAISES for frames carrying
tag 9999 (processing fault at position k: the exception leaves the drain loop like a failing inbound journal write
does; more frames / the head of the next frame follow in the same read).

model:  per segment `codec.feedp` (ReaderProc.readLoopP, processing raises for tag 9999) from the EMPTY buffer over
        the reads the task really got.
oracle: implementation only –
        * every frame that arrived completely in a segment is handed over exactly once, in order, nothing else
          (when processing faults are injected the segment ends with one fault-free frame per fault + 1, each in
          its own read, so that the reader had the reads it needs to drain what a fault left in the buffer);
        * one logged exception per fault; residual buffer = the bytes behind the last complete frame (minus junk);
        * a segment's outcome on a USED object equals its outcome on a fresh object (no state survives in the
          connection or in its Codec).
"""
from __future__ import annotations

import asyncio
import logging

from . import codec_common as K
from . import common as C

MARKER = b"8=FIX."


class _Bursts:
    def __init__(self, bursts):
        self.chunks = [b for b in bursts if b]
        self.seen = []

    async def read(self, n):
        if not self.chunks:
            raise asyncio.CancelledError()
        c = self.chunks[0]
        if len(c) <= n:
            self.chunks.pop(0)
        else:
            self.chunks[0] = c[n:]
            c = c[:n]
        self.seen.append(c)
        return c


class ProcError(Exception):
    pass


async def _run(segments, max_steps):
    from asyncfix.connection import AsyncFIXConnection, ConnectionState
    from asyncfix.journaler import Journaler

    delivered, state = [], {"flag": "-", "exc": 0, "reader": None}

    class Conn(AsyncFIXConnection):
        async def _process_message(self, msg, raw):
            delivered.append((str(msg.msg_type), K.tok_tree(K.tree_of(msg)), raw))
            if len(delivered) > max_steps:
                state["flag"] = "stalled"
                raise asyncio.CancelledError()
            if "9999" in msg:
                raise ProcError("processing failed")

        async def on_disconnect(self):
            pass

        async def on_state_change(self, s):
            pass

    conn = Conn(K.proto(), "S", "T", Journaler(), "h", 1, 30)

    class _Lg(C.LogBase):
        def exception(self, *a, **k):
            import sys
            e = sys.exc_info()[1]
            if isinstance(e, ProcError):
                state["exc"] += 1
            else:
                if state["flag"] == "-":
                    state["flag"] = "raised:" + type(e).__name__
                state["reader"].chunks.clear()

        def debug(self, *a, **k):
            pass
        info = warning = error = debug

    conn.log = _Lg()
    out = []
    for bursts in segments:
        n0 = len(delivered)
        state["flag"], state["exc"] = "-", 0
        rd = _Bursts(bursts)
        state["reader"] = rd
        conn._connection_state = ConnectionState.ACTIVE
        conn._socket_reader = rd
        await conn.socket_read_task()
        ds = "".join(" D %s %s %s" % (C.cp(mt), ct, C.cp(raw)) for mt, ct, raw in delivered[n0:])
        out.append(("buf %s %s E%d%s" % (C.cp(conn._msg_buffer), state["flag"], state["exc"], ds), rd.seen))
        # the transport is gone: what the read task / the watchdog do with a broken connection
        await conn.disconnect(ConnectionState.DISCONNECTED_BROKEN_CONN)
    return out


def run_segments(segments, max_steps=100000):
    """[(reply comparable with `codec.feedp`, reads the task got)] – one per segment, ONE connection object"""
    logging.disable(logging.CRITICAL)
    return asyncio.run(_run(segments, max_steps))


# ------------------------------------------------------------------ cases
def seg_stream(seg):
    out = b""
    for g, f in zip(seg["gs"], seg["frames"]):
        out += g + f
    out += seg["gs"][len(seg["frames"])]
    return out if seg.get("upto") is None else out[: seg["upto"]]


def complete_frames(seg):
    """frames of the segment that arrived completely, and the offset behind the last of them"""
    n = len(seg_stream(seg))
    pos, done, end = 0, [], 0
    for g, f in zip(seg["gs"], seg["frames"]):
        pos += len(g) + len(f)
        if pos <= n:
            done.append(f)
            end = pos
    return done, end


def bursts_of(seg):
    return K.split_at(seg_stream(seg), seg["cuts"])


def case_input(case):
    return {"segments": [{"frames": [f.hex() for f in s["frames"]], "gs": [g.hex() for g in s["gs"]], "upto": s.get("upto"),
                          "cuts": list(s["cuts"]), "faults": s.get("faults", 0)} for s in case]}


def case_from_input(inp):
    return [{"frames": [bytes.fromhex(x) for x in s["frames"]], "gs": [bytes.fromhex(x) for x in s["gs"]], "upto": s["upto"],
             "cuts": list(s["cuts"]), "faults": s.get("faults", 0)} for s in inp["segments"]]


def gen_fault_segment(rng, gen_frame, gen_junk, nfr):
    """a complete stream in which 1–2 frames make processing raise, followed by fault-free frames in their own reads"""
    idx = set(rng.sample(range(nfr), min(nfr, rng.choice([1, 1, 2]))))
    frames = []
    for i in range(nfr):
        if i in idx:
            frames.append(K.ref_frame([f"35={rng.choice(['D', '0', '8'])}", "49=S", "56=T", f"34={i + 1}", "9999=%d" % i] +
                                      rng.choice([[], ["58=8=FIX.x"], ["58=" + "y" * rng.choice([1, 40, 300])]])))
        else:
            frames.append(gen_frame(rng))
    gs = [gen_junk(rng, rng.choice([None, b"8=F", b"8=FIX"])) if rng.random() < 0.4 else b"" for _ in range(nfr + 1)]
    body = b"".join(g + f for g, f in zip(gs, frames)) + gs[nfr]
    flush = [K.ref_frame(["35=0", "49=S", "56=T", f"34={100 + j}"]) for j in range(len(idx) + 1)]
    forced, pos = [], len(body)
    for f in flush:
        forced.append(pos)
        pos += len(f)
    n = len(body)
    return {"frames": frames + flush, "gs": gs + [b""] * len(flush), "upto": None, "forced": forced, "nbody": n, "faults": len(idx)}


def fault_cuts(rng, seg, n_random):
    """chunkings of the part in front of the flush frames (their boundaries are always cuts)"""
    n, forced = seg["nbody"], seg["forced"]
    ends, pos = [], 0
    for g, f in zip(seg["gs"], seg["frames"]):
        pos += len(g) + len(f)
        if pos < n:
            ends.append(pos)
    out = [tuple(ends), (), tuple(range(1, n))]                       # a read per frame, one read, 1-byte reads
    out += [(e + d,) for e in ends for d in (-1, 1, 3, 7) if 0 < e + d < n]   # the faulty frame and the head of the next in one read
    for _ in range(n_random):
        out.append(tuple(sorted(set(rng.randrange(1, n) for _ in range(rng.choice([1, 2, 4, 8]))))))
    return [tuple(sorted(set(c) | set(forced))) for c in dict.fromkeys(out)]


def gen_history_case(rng, gen_frame, gen_junk, sized_frame):
    """2–4 segments on one object; all but the last are cut off (mostly in the middle of a frame, long frames included)"""
    nseg = rng.choice([2, 2, 3, 4])
    case = []
    for s in range(nseg):
        k = rng.choice([1, 2, 2, 3])
        frames = []
        for i in range(k):
            r = rng.random()
            if r < 0.3:
                frames.append(sized_frame(i + 1, total=rng.choice([150, 300, 700, 1500, 5000])))
            else:
                frames.append(gen_frame(rng))
        gs = [gen_junk(rng, rng.choice([None, b"8=FI"])) if rng.random() < 0.3 else b"" for _ in range(k + 1)]
        seg = {"frames": frames, "gs": gs, "upto": None}
        n = len(seg_stream(seg))
        if s < nseg - 1:
            # cut off: inside the LAST frame (keeps the pending frame long), or anywhere
            last_start = n - len(gs[k]) - len(frames[-1])
            seg["upto"] = rng.randint(last_start + 7, n - len(gs[k]) - 1) if rng.random() < 0.7 else rng.randint(1, n - 1)
            n = seg["upto"]
        m = rng.choice([0, 0, 0, 1, 2, 5])                              # often everything in ONE read
        seg["cuts"] = tuple(sorted(set(rng.randrange(1, n) for _ in range(m)))) if n > 1 else ()
        case.append(seg)
    return case


# ------------------------------------------------------------------ clauses (implementation only)
def parse(reply):
    t = reply.split(" ")
    ds, i = [], 4
    while i < len(t):
        ds.append((t[i + 1], t[i + 2], C.unhx(t[i + 3])))
        i += 4
    return C.unhx(t[1]), t[2], int(t[3][1:]), ds


def clauses(case, replies, fresh_replies):
    for k, (seg, rep) in enumerate(zip(case, replies)):
        buf, flag, exc, ds = parse(rep)
        want, end = complete_frames(seg)
        raws = [d[2] for d in ds]
        where = f"segment {k + 1}/{len(case)} on one connection object"
        if flag != "-":
            yield ("C03-reader-" + flag.split(":")[0], where + ": the reader task raised / spun", "-", flag)
        if raws != want:
            sig = "C03-frame-lost" if len(raws) < len(want) and all(r in want for r in raws) else "C03-deliveries-differ-from-frames"
            yield (sig + ("-after-processing-fault" if seg.get("faults") else "-on-used-object" if k else ""),
                   where + ": handed-over frames are not the frames that arrived completely"
                   + (" (processing raised for %d of them; each fault is followed by a later read)" % seg["faults"] if seg.get("faults") else ""),
                   [f.hex()[:160] for f in want], [r.hex()[:160] for r in raws])
        if exc != sum(1 for f in want if b"\x019999=" in f):
            yield ("C03-processing-fault-count", where + ": logged processing exceptions ≠ frames whose processing raises", None, exc)
        tail = seg_stream(seg)[end:]
        i = tail.find(MARKER)
        ok = (tail.endswith(buf) and len(buf) < 6 and MARKER.startswith(buf)) if i < 0 else buf == tail[i:]
        if raws == want and not ok:
            yield ("C03-residual-buffer", where + ": the buffer is not what followed the last complete frame", tail[-80:].hex(), buf[-80:].hex())
        if fresh_replies is not None and k and rep != fresh_replies[k]:
            yield ("C03-object-history-changes-delivery",
                   where + ": same reads, different outcome than on a fresh connection object (state survived in the connection or its Codec)",
                   fresh_replies[k][:300], rep[:300])
