"""Reference reader of QuickFIX-style XML dictionaries, INDEPENDENT of asyncfix/protocol/schema.py.

It shares no code and no algorithm with the library's parser:
  * XML is read with xml.dom.minidom (the library uses ElementTree),
  * component references are expanded by memoised depth-first recursion with cycle detection
    (the library re-scans a work list until nothing is deferred any more),
  * the result is a plain abstract schema (tuples / lists / strings), members in document order.

Abstract schema (class RefSchema):
  fields    : list of RefField(tag, name, ftype, enums)          document order
  header    : list of members
  trailer   : list of members
  messages  : list of RefMessage(name, msgtype, msgcat, members) document order
  decls     : list of (component name, [raw declarations])       document order, for the resolver model
member      : ("f", tag, name, required) | ("g", tag, name, required, [members])
raw decl    : ("f", name, req) | ("c", name, req) | ("g", name, req, [raw decls])

`required` of a member is the member's own attribute; a `required` attribute on a <component .../>
reference is recorded in `comp_ref_flags` only (the dictionaries under test never mark a member
required inside a component that is referenced as optional - `optional_component_required_members`
reports how many such members there are, see notes/report_sch.md).
"""
from __future__ import annotations

import collections
from xml.dom import minidom

RefField = collections.namedtuple("RefField", "tag name ftype enums")
RefMessage = collections.namedtuple("RefMessage", "name msgtype msgcat members")


class RefError(Exception):
    pass


def _children(node):
    return [c for c in node.childNodes if c.nodeType == c.ELEMENT_NODE]


def _yes(node):
    return node.getAttribute("required").upper() == "Y"


def _raw(node):
    out = []
    for c in _children(node):
        if c.tagName == "field":
            out.append(("f", c.getAttribute("name"), _yes(c)))
        elif c.tagName == "component":
            out.append(("c", c.getAttribute("name"), _yes(c)))
        elif c.tagName == "group":
            out.append(("g", c.getAttribute("name"), _yes(c), _raw(c)))
        else:
            raise RefError(f"unexpected element <{c.tagName}>")
    return out


class RefSchema:
    def __init__(self, path_or_text, is_text=False):
        dom = minidom.parseString(path_or_text) if is_text else minidom.parse(path_or_text)
        root = dom.documentElement
        sect = {}
        for c in _children(root):
            sect.setdefault(c.tagName, c)
        self.fields = []
        for f in _children(sect["fields"]):
            enums = [v.getAttribute("enum") for v in _children(f)]
            self.fields.append(RefField(f.getAttribute("number"), f.getAttribute("name"), f.getAttribute("type"), enums))
        self.by_name = {}
        self.by_tag = {}
        for f in self.fields:
            self.by_name.setdefault(f.name, f)
            self.by_tag.setdefault(f.tag, f)
        self.decls = [(c.getAttribute("name"), _raw(c)) for c in _children(sect["components"])] if "components" in sect else []
        self._decl = {}
        for n, r in self.decls:
            if n in self._decl:
                raise RefError(f"duplicate component {n}")
            self._decl[n] = r
        self._memo = {}
        self.optional_component_required_members = []
        self.header = self._expand(_raw(sect["header"]), (), True, "header")
        self.trailer = self._expand(_raw(sect["trailer"]), (), True, "trailer") if "trailer" in sect else []
        self.messages = []
        for m in _children(sect["messages"]):
            self.messages.append(
                RefMessage(m.getAttribute("name"), m.getAttribute("msgtype"), m.getAttribute("msgcat"),
                           self._expand(_raw(m), (), True, m.getAttribute("name")))
            )
        # every component must be resolvable even when no message uses it (the library insists, too)
        for n, _ in self.decls:
            self._component(n, ())

    # -- expansion -----------------------------------------------------------------------------
    def _component(self, name, stack):
        if name in self._memo:
            return self._memo[name]
        if name in stack:
            raise RefError(f"circular component reference {' -> '.join(stack + (name,))}")
        if name not in self._decl:
            raise RefError(f"unknown component {name}")
        res = self._expand(self._decl[name], stack + (name,), True, name)
        self._memo[name] = res
        return res

    def _expand(self, raw, stack, eff, where):
        out = []
        for d in raw:
            if d[0] == "f":
                f = self._field(d[1])
                out.append(("f", f.tag, f.name, d[2]))
            elif d[0] == "g":
                f = self._field(d[1])
                out.append(("g", f.tag, f.name, d[2], self._expand(d[3], stack, True, where)))
            else:
                sub = self._component(d[1], stack)
                if not d[2]:
                    for m in sub:
                        if m[3]:
                            self.optional_component_required_members.append((where, d[1], m[2]))
                out.extend(sub)
        seen = set()
        for m in out:
            if m[1] in seen:
                raise RefError(f"member {m[2]} occurs twice in {where}")
            seen.add(m[1])
        return out

    def _field(self, name):
        if name not in self.by_name:
            raise RefError(f"member refers to undeclared field {name}")
        return self.by_name[name]

    # -- queries --------------------------------------------------------------------------------
    def message(self, msgtype):
        for m in self.messages:
            if m.msgtype == msgtype:
                return m
        return None

    def header_tags(self):
        return [m[1] for m in self.header]


def member_tags(members):
    return [m[1] for m in members]


def depth(members):
    return max([0] + [1 + depth(m[4]) for m in members if m[0] == "g"])


def walk_groups(members, path=()):
    """all groups of a member list with their tag path"""
    for m in members:
        if m[0] == "g":
            yield path + (m[1],), m
            yield from walk_groups(m[4], path + (m[1],))


# ---------------------------------------------------------------------------------------------
# canonical view of the LIBRARY's parsed objects (for the comparison reader vs. library parser)
# ---------------------------------------------------------------------------------------------
def lib_members(sset):
    from asyncfix.protocol.schema import SchemaField, SchemaGroup

    out = []
    for key, val in sset.members.items():
        req = sset.required[key]
        if not isinstance(req, bool):
            req = ("non-bool", type(req).__name__)
        if isinstance(val, SchemaGroup):
            if val.field_required is not req:
                req = ("field_required-differs", val.field_required, req)
            out.append(("g", val.field.tag, val.field.name, req, lib_members(val)))
        elif isinstance(val, SchemaField):
            out.append(("f", val.tag, val.name, req))
        else:
            out.append(("?", type(val).__name__))
    return out


def lib_view(schema):
    fields = [(f.tag, f.name, f.ftype, list(f.values.keys())) for f in schema._tag2field.values()]
    messages = [(m.name, m.msg_type, m.msg_cat, lib_members(m)) for m in schema._messages.values()]
    return {
        "fields": fields,
        "header": lib_members(schema._header),
        "trailer": lib_members(schema._trailer) if getattr(schema, "_trailer", None) is not None else "<no _trailer attribute>",
        "messages": messages,
        "types": {t: m.name for t, m in schema._messages_types.items()},
        "components": {n: lib_members(c) for n, c in schema._components.items()},
    }


def ref_view(ref: RefSchema):
    return {
        "fields": [(f.tag, f.name, f.ftype, list(f.enums)) for f in ref.fields],
        "header": ref.header,
        "trailer": ref.trailer,
        "messages": [(m.name, m.msgtype, m.msgcat, m.members) for m in ref.messages],
        "types": {m.msgtype: m.name for m in ref.messages},
        "components": {n: ref._component(n, ()) for n, _ in ref.decls},
    }


def diff_views(a, b, limit=5):
    """list of human-readable differences between two views (empty = equal)"""
    out = []
    for k in ("fields", "header", "trailer", "messages", "types", "components"):
        if a[k] != b[k]:
            if not isinstance(a[k], (list, dict)) or not isinstance(b[k], (list, dict)):
                out.append(f"{k}: ref={str(a[k])[:200]} lib={str(b[k])[:200]}")
            elif isinstance(a[k], list):
                for i, (x, y) in enumerate(zip(a[k], b[k])):
                    if x != y:
                        out.append(f"{k}[{i}]: ref={str(x)[:200]} lib={str(y)[:200]}")
                        break
                if len(a[k]) != len(b[k]):
                    out.append(f"{k}: length ref={len(a[k])} lib={len(b[k])}")
            else:
                for kk in sorted(set(a[k]) | set(b[k])):
                    if a[k].get(kk) != b[k].get(kk):
                        out.append(f"{k}[{kk}]: ref={str(a[k].get(kk))[:200]} lib={str(b[k].get(kk))[:200]}")
                        break
                if list(a[k]) != list(b[k]) and not out:
                    pass  # dict order of components is declaration-order dependent by design; not compared
        if len(out) >= limit:
            break
    return out
