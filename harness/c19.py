"""C19 – field value validation = FIX datatype lexical spaces.  DESIGN.md §6 C19.

tie:    hand-written model (Model/Lexical.lean over Py/PyStr, PyFloatLex, PyStrptime) compared with
        SchemaField.validate_value on the property's own quantifier: per datatype of the two
        dictionaries all strings up to length 3 (quick) / 4 (thorough) over a 16 character alphabet,
        all single-edit neighbours of ~40 date/time exemplars, boundary values, seeded random
        members and near-misses, every enumerated field with all enumerators and near-misses.
        Additionally the modelled CPython primitives are compared one level down (int() values,
        float() finiteness, strptime() field values, the two Unicode tables on ALL code points)
        and the Lean SPEC / `narrow` / `deviation` predicates the theorems are about are compared with
        independent Python versions.
oracle: FIX 4.4 lexical-space recognisers written in Python from the datatype table (nothing
        imported from the implementation, never calls the Lean model); failures are classified
        by (datatype family, deviation mark).
"""
from __future__ import annotations

import itertools
import json
import os
import re
import sys
import unicodedata
import warnings
import xml.etree.ElementTree as ET

from . import common as C

PROP = "C19"
PROPS_MODULES = ["AsyncFix.Props.C19"]
FINDINGS_MODULE = "AsyncFix.Findings.C19"
ASSUMPTIONS = [
    "the model is stateless: validate_value is a function of the field's CURRENT tag / ftype / values and the argument; histories on "
    "SchemaField objects (re-assigned attributes, shared values dicts, repeated use) are covered by correspondence + oracle only",
    "datatype names of the dictionaries are ASCII (checked on both XML files every run): str.upper() is modelled by ASCII upper-casing",
    "sys.get_int_max_str_digits() is a parameter of the model (Cfg.maxStrDigits); the run uses the interpreter's value",
    "values shorter than 10^9 characters (the MAX_DIGITS / MAX_ABS_EXP clipping of _Py_dg_strtod is not modelled)",
    "warnings.warn() for an unsupported datatype does not raise (no -W error filter)",
    "the C locale / default _strptime TimeRE (the directives used are locale independent)",
]
MODELLED_NOT_VERIFIED = [
    "C19: CPython 3.12 int(str), float(str) acceptance + finiteness, the re patterns of schema.py, _strptime regexes and datetime range checks are "
    "hand-modelled (AsyncFix/Py/*.lean) and compared with the running interpreter on every run",
    "C19: the Unicode decimal-digit / whitespace tables are generated from the interpreter (tools/gen_lex.py) and compared on all 0x110000 code points every run",
]

CORPUS = os.path.join(C.VERIF, "corpus", "lexical", "cases.json")

# ----------------------------------------------------------------------------------------------
# encoding for the driver
# ----------------------------------------------------------------------------------------------


_ENC = {}
_HEX = {}


def enc(s):
    if not isinstance(s, str):
        return "n"
    r = _ENC.get(s)
    if r is None:
        parts = []
        for ch in s:
            h = _HEX.get(ch)
            if h is None:
                h = _HEX[ch] = "%06x" % ord(ch)
            parts.append(h)
        r = "u" + "".join(parts)
        if len(s) <= 32:
            _ENC[s] = r
    return r


# ----------------------------------------------------------------------------------------------
# the dictionaries, read independently of schema.py
# ----------------------------------------------------------------------------------------------
def read_dictionary(path):
    root = ET.parse(path).getroot()
    out = []
    for f in root.find("fields"):
        out.append(
            {
                "tag": f.attrib["number"],
                "name": f.attrib["name"],
                "type": f.attrib["type"],
                "enums": [v.attrib["enum"] for v in f if v.tag == "value"],
            }
        )
    return out


def dictionaries():
    return {
        name: read_dictionary(os.path.join(C.REPO, "tests", name)) for name in ("FIX44.xml", "TT-FIX44.xml")
    }


# ----------------------------------------------------------------------------------------------
# implementation side
# ----------------------------------------------------------------------------------------------
def call_impl(ftype, tag, enums, value):
    from asyncfix.errors import FIXMessageError
    from asyncfix.protocol.schema import SchemaField

    f = SchemaField(tag, "Probe", ftype)
    if enums:
        f.values = {e: "" for e in enums}
    with warnings.catch_warnings():
        warnings.simplefilter("ignore")
        try:
            r = f.validate_value(value)
        except FIXMessageError:
            return "fme"
        except AssertionError:
            return "raised:Assertion"
        except OverflowError:
            return "raised:Overflow"
        except BaseException as e:  # noqa
            return "raised:" + type(e).__name__
    return "ok" if r is True else f"returned:{r!r}"


def model_line(ftype, tag, enums, value, maxdigits):
    return "lex.v %s %d %d %s%s" % (
        C.hx(ftype),
        1 if tag == "16" else 0,
        maxdigits,
        enc(value),
        "".join(" " + enc(e) for e in enums),
    )


# ----------------------------------------------------------------------------------------------
# SPEC in Python: FIX 4.4 datatype table (independent of the implementation and of Lean)
# ----------------------------------------------------------------------------------------------
D = "0123456789"


def all_digits(s):
    return len(s) > 0 and all(c in D for c in s)


def sp_int(s):
    return all_digits(s[1:] if s[:1] == "-" else s)


def sp_posint(s):
    return all_digits(s) and any(c != "0" for c in s)


def sp_dayofmonth(s):
    z = s.lstrip("0")
    return all_digits(s) and 1 <= len(z) <= 2 and 1 <= int(z) <= 31


def sp_float(s):
    b = s[1:] if s[:1] == "-" else s
    return all(c in D + "." for c in b) and any(c in D for c in b) and b.count(".") <= 1


def sp_string(s):
    return len(s) > 0 and "\x01" not in s


def sp_char(s):
    return len(s) == 1 and s != "\x01"


def sp_boolean(s):
    return s in ("Y", "N")


ALNUM = set("ABCDEFGHIJKLMNOPQRSTUVWXYZabcdefghijklmnopqrstuvwxyz0123456789")


def sp_code(n):
    return lambda s: 1 <= len(s) <= n and all(c in ALNUM for c in s)


def leap(y):
    return (y % 4 == 0 and y % 100 != 0) or y % 400 == 0


def month_len(y, m):
    return [31, 29 if leap(y) else 28, 31, 30, 31, 30, 31, 31, 30, 31, 30, 31][m - 1]


def sp_yearmonth(s):
    return len(s) == 6 and all(c in D for c in s) and 1 <= int(s[4:6]) <= 12


def sp_date(s):
    return (
        len(s) == 8
        and all(c in D for c in s)
        and 1 <= int(s[4:6]) <= 12
        and 1 <= int(s[6:8]) <= month_len(int(s[0:4]), int(s[4:6]))
    )


def sp_hms(s):
    return (
        len(s) == 8
        and s[2] == ":"
        and s[5] == ":"
        and all(s[i] in D for i in (0, 1, 3, 4, 6, 7))
        and int(s[0:2]) <= 23
        and int(s[3:5]) <= 59
        and int(s[6:8]) <= 60
    )


def sp_timeonly(s):
    return sp_hms(s) or (len(s) == 12 and sp_hms(s[:8]) and s[8] == "." and all(c in D for c in s[9:]))


def sp_timestamp(s):
    return len(s) >= 9 and sp_date(s[:8]) and s[8] == "-" and sp_timeonly(s[9:])


def sp_monthyear(s):
    return sp_yearmonth(s) or sp_date(s) or (len(s) == 8 and sp_yearmonth(s[:6]) and s[6] == "w" and s[7] in "12345")


def sp_data(s):
    return len(s) > 0


# datatype name (upper) -> (dtype name used by `lex.s`, recogniser, family)
SPEC = {
    "INT": ("int", sp_int, "int"),
    "SEQNUM": ("posInt", sp_posint, "int"),
    "NUMINGROUP": ("posInt", sp_posint, "int"),
    "DAYOFMONTH": ("dayOfMonth", sp_dayofmonth, "int"),
    "FLOAT": ("float", sp_float, "float"),
    "QTY": ("float", sp_float, "float"),
    "PRICE": ("float", sp_float, "float"),
    "PRICEOFFSET": ("float", sp_float, "float"),
    "AMT": ("float", sp_float, "float"),
    "PERCENTAGE": ("float", sp_float, "float"),
    "STRING": ("string", sp_string, "string"),
    "MULTIPLESTRINGVALUE": ("string", sp_string, "string"),
    "MULTIPLEVALUESTRING": ("string", sp_string, "string"),
    "CHAR": ("char", sp_char, "string"),
    "BOOLEAN": ("boolean", sp_boolean, "boolean"),
    "COUNTRY": ("code2", sp_code(2), "code"),
    "CURRENCY": ("code3", sp_code(3), "code"),
    "EXCHANGE": ("code4", sp_code(4), "code"),
    "LOCALMKTDATE": ("date", sp_date, "date"),
    "UTCDATEONLY": ("date", sp_date, "date"),
    "UTCTIMESTAMP": ("timestamp", sp_timestamp, "time"),
    "UTCTIMEONLY": ("timeOnly", sp_timeonly, "time"),
    "MONTHYEAR": ("monthYear", sp_monthyear, "date"),
    "DATA": ("data", sp_data, "data"),
    "LENGTH": ("length", sp_posint, "length"),
}


def spec_accepts(ftype, tag, s):
    if tag == "16" and s == "0":
        return True
    return SPEC[ftype.upper()][1](s)


# ----------------------------------------------------------------------------------------------
# marks (deviation classes) in Python – independent of Lean's LexClass
# ----------------------------------------------------------------------------------------------
def is_uni_digit(c):
    return ord(c) >= 128 and unicodedata.category(c) == "Nd"


def is_space_any(c):
    return c.isspace() and not ("\x1c" <= c <= "\x1f")


def time_layout(s):
    """number of fraction digits if HH:MM:SS is padded, else None"""
    if len(s) >= 8 and s[2] == ":" and s[5] == ":":
        if len(s) == 8:
            return 0
        if s[8] == ".":
            return len(s) - 9
    return None


def unpadded(ftype, s):
    t = ftype.upper()
    if t in ("LOCALMKTDATE", "UTCDATEONLY"):
        return len(s) != 8
    if t == "MONTHYEAR":
        return len(s) not in (6, 8)
    if t == "UTCTIMEONLY":
        return time_layout(s) is None
    if t == "UTCTIMESTAMP":
        return not (len(s) >= 9 and s[8] == "-" and time_layout(s[9:]) is not None)
    return False


def fraction_digits(ftype, s):
    t = ftype.upper()
    n = time_layout(s) if t == "UTCTIMEONLY" else time_layout(s[9:]) if t == "UTCTIMESTAMP" else None
    return n is not None and n not in (0, 3)


def wide_marks(ftype, s):
    fam = SPEC[ftype.upper()][2] if ftype.upper() in SPEC else "unsupported"
    t = ftype.upper()
    m = []
    if fam in ("int", "float"):
        if any(is_uni_digit(c) for c in s):
            m.append("non-ascii-digit")
        if any(is_space_any(c) for c in s):
            m.append("whitespace")
        if "+" in s:
            m.append("plus-sign")
        if "_" in s:
            m.append("underscore")
        if fam == "float" and ("e" in s or "E" in s):
            m.append("exponent")
    elif fam == "code":
        if "_" in s:
            m.append("underscore")
        if any(ord(c) >= 128 for c in s):
            m.append("non-ascii-alnum")
    elif fam in ("date", "time"):
        if any(is_uni_digit(c) for c in s):
            m.append("non-ascii-digit")
        if " " in s:
            m.append("space-padded-day")
        if unpadded(t, s):
            m.append("unpadded")
        if fraction_digits(t, s):
            m.append("fraction-digits")
    elif fam in ("length", "unsupported", "data"):
        m.append("unvalidated")
    return m


FLOAT_INF = 2**1024 - 2**970


def narrow_marks(ftype, s, maxdigits):
    fam = SPEC[ftype.upper()][2]
    t = ftype.upper()
    m = []
    body = s[1:] if s[:1] == "-" else s
    if fam == "int":
        if len(body) > 640 and 0 < maxdigits < len(body):
            m.append("digit-limit")
    elif fam == "float":
        ds = [c for c in body if c in D]
        frac = len([c for c in body[body.index(".") :] if c in D]) if "." in body else 0
        if ds and int("".join(ds)) >= FLOAT_INF * 10**frac:
            m.append("overflow")
    elif fam == "string":
        if "=" in s:
            m.append("equals-sign")
    elif fam == "date":
        if s[:4] == "0000":
            m.append("year-0000")
    elif fam == "time":
        if t == "UTCTIMESTAMP":
            if s[:4] == "0000":
                m.append("year-0000")
            if s[15:17] == "60":
                m.append("second-60")
        elif s[6:8] == "60":
            m.append("second-60")
    return m


def classify(ftype, tag, s, impl, maxdigits):
    """oracle verdict for one implementation result: None (fine) or (signature, what)"""
    t = ftype.upper()
    fam = SPEC[t][2]
    if impl.startswith("raised:") or impl.startswith("returned:"):
        return (f"C19-foreign-exception:{impl.split(':', 1)[1]}", "a rejection that is not the library's FIXMessageError")
    want = spec_accepts(ftype, tag, s) if isinstance(s, str) and s != "" else False
    got = impl == "ok"
    if want == got:
        return None
    if got:
        if fam == "length":
            return ("C19-length:unvalidated", "LENGTH values are not validated at all")
        if fam == "time" and fraction_digits(t, s) and len(s) in (15, 24) and spec_accepts(ftype, tag, s[:-3]) and all(c in D for c in s[-3:]):
            return ("C19-time:fraction-6-digits", f"{t} with six fraction digits accepted (FIX 4.4: none or three)")
        marks = wide_marks(ftype, s)
        return (f"C19-{fam}:accepts:{marks[0] if marks else 'unexplained'}", f"accepted outside the lexical space of {t} ({'+'.join(marks) or 'no known deviation class'})")
    marks = narrow_marks(ftype, s, maxdigits)
    if marks:
        return (f"C19-{fam}:{marks[0]}", f"member of the lexical space of {t} rejected ({'+'.join(marks)})")
    return (f"C19-{fam}:rejects:unexplained", f"member of the lexical space of {t} rejected, no known deviation class explains it")


# ----------------------------------------------------------------------------------------------
# generators
# ----------------------------------------------------------------------------------------------
AR = "٣"  # ARABIC-INDIC DIGIT THREE
NUM_ALPHA = ["0", "1", "3", "9", "-", "+", ".", "_", " ", "e", AR, "a", "n", "i", "f", " "]
STR_ALPHA = ["A", "Y", "N", "y", "z", "0", "9", "_", " ", "=", "\x01", "-", "é", AR, "€", "."]
DT_ALPHA = ["0", "1", "2", "3", "5", "6", "9", "-", ":", ".", " ", "w", AR, "_", "a", "+"]

NUM_TYPES = {"INT", "SEQNUM", "NUMINGROUP", "DAYOFMONTH", "FLOAT", "QTY", "PRICE", "PRICEOFFSET", "AMT", "PERCENTAGE", "LENGTH"}
DT_TYPES = {"LOCALMKTDATE", "UTCDATEONLY", "UTCTIMESTAMP", "UTCTIMEONLY", "MONTHYEAR"}


def alphabet(t):
    t = t.upper()
    return NUM_ALPHA if t in NUM_TYPES else DT_ALPHA if t in DT_TYPES else STR_ALPHA


EXEMPLARS = {
    "date": ["20230921", "20240229", "20230228", "19991231", "00010101", "99991231", "20231130", "20230101", "00000101", "20000229",
             "2023921", "202391", "2023111", "2023 921"[:7], "202309 1"],
    "timestamp": ["20230921-14:00:00", "20230921-14:00:00.123", "20230921-23:59:59.123456", "20240229-00:00:00", "20230921-14:00:60",
                  "20230921-09:05:07.1", "00000101-00:00:00", "20230921-1:2:3", "2023921-1:2:3.5", "20230921-19:59:59.999"],
    "timeOnly": ["14:00:00", "14:00:00.123", "23:59:59.123456", "00:00:00", "23:59:60", "09:05:07.1", "1:2:3", "1:2:3.45", "19:09:09"],
    "monthYear": ["202309", "20230921", "202309w1", "202312w5", "000001", "202311", "2023115", "20231 5", "20240229"],
}
EX_TYPES = {
    "date": ["LOCALMKTDATE", "UTCDATEONLY", "MONTHYEAR"],
    "timestamp": ["UTCTIMESTAMP"],
    "timeOnly": ["UTCTIMEONLY", "UTCTIMESTAMP"],
    "monthYear": ["MONTHYEAR", "UTCDATEONLY"],
}


def neighbours(s, alpha):
    out = {s}
    for i in range(len(s)):
        out.add(s[:i] + s[i + 1 :])
        for a in alpha:
            out.add(s[:i] + a + s[i + 1 :])
    for i in range(len(s) + 1):
        for a in alpha:
            out.add(s[:i] + a + s[i:])
    return sorted(out)


def boundary_values(maxdigits):
    T = FLOAT_INF
    vals = {
        "int": ["0", "-0", "00", "007", "31", "32", "031", "0031", "-1", "2147483648", "9" * 640, "9" * 641, "1" * 4300, "1" * 4301,
                "-" + "1" * 4300, "-" + "1" * 4301, "0" * 4301 + "1", "1_" * 2150 + "1", "1_" * 2151, " " + "1" * 4300 + " ",
                "0" * 4298 + "31", "0" * 4299 + "31", "+" + "1" * 4301],
        "float": [str(T - 1), str(T), str(T + 1), str(T - 1) + ".9999", str(T) + ".0", "-" + str(T), "1e308", "1e309", "1.7976931348623158e308",
                  "1.7976931348623159e308", "0." + "0" * 400 + "1", "1e-400", "0e99999", "1e99999", "1" + "0" * 308, "1" + "0" * 309,
                  "9" * 308 + ".9", "." + "9" * 400, "9" * 400, "0" * 400 + "." + "0" * 400, str(T * 10) + "e-1", str(T * 10 - 1) + "e-1",
                  str(T)[:200] + "." + str(T)[200:] + "e109", str(T - 1)[:200] + "." + str(T - 1)[200:] + "e109", "1e400", "1e401", "1e-99999999999",
                  "nan", "inf", "-inf", "+inf", "infinity", "Infinity", "-INFINITY", "iNf", "infinit", "nan0", "na", "1_0.0_1e1_0", "1e+5", "1E-5",
                  "1.e5", ".5e5", ".e5", "5.", ".5", "-.5", "-5.", ".", "-", "+.5", "1e", "1e+", "e5", "1__0", "_1", "1_", "1_.5", "1._5", "1e_5"],
    }
    return vals


def random_number_cases(rng, n):
    """members of the numeric lexical spaces and near-misses"""
    out = []
    deco = ["", " ", "+", "_", AR, "e1", " ", "\t", "-", ".", "E-2", "５"]
    for _ in range(n):
        ln = rng.choice([1, 2, 3, 5, 8, 13, 20])
        body = "".join(rng.choice(D) for _ in range(ln))
        if rng.random() < 0.5:
            p = rng.randrange(ln + 1)
            body = body[:p] + "." + body[p:]
        if rng.random() < 0.3:
            body = "-" + body
        k = rng.random()
        if k < 0.4:
            out.append(body)
        else:
            p = rng.randrange(len(body) + 1)
            out.append(body[:p] + rng.choice(deco) + body[p:])
    return out


def random_datetime_cases(rng, n):
    out = []
    for _ in range(n):
        y = rng.choice([0, 1, 4, 100, 400, 1900, 2000, 2023, 2024, 9999])
        m = rng.randrange(0, 14)
        d = rng.choice([0, 1, 9, 10, 28, 29, 30, 31, 32])
        h, mi, se = rng.choice([0, 5, 12, 23, 24]), rng.choice([0, 7, 59, 60]), rng.choice([0, 9, 59, 60, 61, 62])
        pad = rng.random() < 0.7
        f2 = (lambda v: "%02d" % v) if pad else (lambda v: "%d" % v)
        date = "%04d%s%s" % (y, f2(m), f2(d))
        tm = "%s:%s:%s" % (f2(h), f2(mi), f2(se))
        if rng.random() < 0.5:
            tm += "." + "".join(rng.choice(D) for _ in range(rng.randrange(0, 8)))
        out.append(("date", date))
        out.append(("timeOnly", tm))
        out.append(("timestamp", date + "-" + tm))
        out.append(("monthYear", "%04d%s" % (y, f2(m)) + rng.choice(["", "w1", "w5", "w6", f2(d)])))
    return out


def python_formatted_values(rng, tier):
    """What a careless application produces by str()-ing / formatting a Python value: fixed points of
    Python's own formatting (repr(float), str(int), str(Decimal), %g, %e, float.hex(), isoformat(), str(bool) …)
    over a spread of magnitudes and signs.  Returns [(formatter name, string)], no special-casing of any form."""
    import datetime as dtm
    from decimal import Decimal
    from fractions import Fraction

    out = []

    def emit(name, fn, x):
        try:
            r = fn(x)
        except Exception:
            return
        if isinstance(r, str) and r != "":
            out.append((name, r))

    thorough = tier == "thorough"
    exps = list(range(-12, 25)) + [-324, -308, -100, -30, -20, 30, 100, 300, 308]
    if not thorough:
        exps = [-324, -308, -100, -20, -7, -5, -4, -3, -1, 0, 1, 5, 15, 16, 17, 22, 100, 308]
    mants = [1.0, 1.5, 2.5, 3.0, 9.999, 1.2345678901234567, 0.1, 7.25] if thorough else [1.0, 2.5, 1.2345678901234567]
    floats = [0.0, -0.0, float("inf"), float("-inf"), float("nan"), 0.1 + 0.2, 1 / 3, 2**53 + 0.0, 1e22, 1e23, 5e-324]
    for e in exps:
        for m in mants:
            for sg in (1, -1):
                try:
                    floats.append(sg * float("%re%d" % (m, e)))
                except (ValueError, OverflowError):
                    pass
    for _ in range(400 if thorough else 30):
        floats.append(rng.uniform(-10, 10) * 10 ** rng.randint(-25, 25))
    ints = [0, 1, -1, 7, -7, 31, 32, 255, 2**31, 2**63, -(2**63), 10**16, 10**22, 123456789012345678901234567890]
    ints += [10**k for k in range(0, 26, 1 if thorough else 4)] + [-(10**k) for k in range(1, 26, 5)]
    ints += [rng.randint(-10**9, 10**9) for _ in range(100 if thorough else 20)]
    num_fmt = [
        ("str", str), ("repr", repr), ("%g", lambda x: "%g" % x), ("%e", lambda x: "%e" % x), ("%E", lambda x: "%E" % x),
        ("%f", lambda x: "%f" % x), ("%.2f", lambda x: "%.2f" % x), ("%.10g", lambda x: "%.10g" % x), ("%.17g", lambda x: "%.17g" % x),
        ("%d", lambda x: "%d" % x), ("%05d", lambda x: "%05d" % x), ("%5d", lambda x: "%5d" % x), ("%x", lambda x: "%x" % x),
        ("%+d", lambda x: "%+d" % x), ("format ,", lambda x: format(x, ",")), ("format _", lambda x: format(x, "_")),
        ("format +", lambda x: format(x, "+")), ("format .3e", lambda x: format(x, ".3e")), ("format %", lambda x: format(x, "%")),
        ("format n", lambda x: format(x, "n")), ("format g", lambda x: format(x, "g")), ("format .0f", lambda x: format(x, ".0f")),
        ("float.hex", lambda x: float(x).hex()), ("str(Decimal(x))", lambda x: str(Decimal(x))),
        ("str(Decimal(repr))", lambda x: str(Decimal(repr(x)))), ("Decimal.normalize", lambda x: str(Decimal(repr(x)).normalize())),
        ("Decimal %E", lambda x: format(Decimal(repr(x)), "E")), ("str(Fraction)", lambda x: str(Fraction(x))),
        ("str(complex)", lambda x: str(complex(x))), ("str(float(int))", lambda x: str(float(x))), ("hex", lambda x: hex(x)),
        ("oct", lambda x: oct(x)), ("bin", lambda x: bin(x)), ("repr(str)", lambda x: repr(str(x))), ("bytes", lambda x: str(str(x).encode())),
        ("str([x])", lambda x: str([x])),
    ]
    for x in floats + ints:
        kind = "float" if isinstance(x, float) else "int"
        for name, fn in num_fmt:
            emit(f"{kind}:{name}", fn, x)
    for d in ("1E+16", "1E-7", "0.00001", "1.50", "-0", "0E-10", "123.4500", "1E+2", "NaN", "Infinity", "-Infinity", "0.1", "1e-05"):
        for name, fn in (("str", str), ("repr", repr), ("normalize", lambda v: str(v.normalize())), ("format f", lambda v: format(v, "f")),
                         ("to_eng_string", lambda v: v.to_eng_string()), ("quantize", lambda v: str(v.quantize(Decimal("0.01"))))):
            emit(f"Decimal:{name}", fn, Decimal(d))
    for b in (True, False, None):
        for name, fn in (("str", str), ("repr", repr), ("int", lambda v: str(int(v))), ("lower", lambda v: str(v).lower()), ("YN", lambda v: "YN"[not v]), ("[0]", lambda v: str(v)[0])):
            emit(f"bool:{name}", fn, b)
    moments = [dtm.datetime(2023, 9, 21, 14, 0, 0), dtm.datetime(2024, 2, 29, 23, 59, 59, 123000), dtm.datetime(2023, 1, 5, 1, 2, 3, 123456),
               dtm.datetime(1, 1, 1), dtm.datetime(9999, 12, 31, 23, 59, 59, 999999), dtm.datetime(1999, 12, 31, 9, 5, 7, 7)]
    if thorough:
        for _ in range(40):
            moments.append(dtm.datetime(rng.randint(1, 9999), rng.randint(1, 12), rng.randint(1, 28), rng.randint(0, 23), rng.randint(0, 59),
                                        rng.randint(0, 59), rng.choice([0, 0, rng.randint(0, 999) * 1000, rng.randint(0, 999999)])))
    dt_fmt = [
        ("str", str), ("repr", repr), ("isoformat", lambda t: t.isoformat()), ("isoformat ms", lambda t: t.isoformat(timespec="milliseconds")),
        ("isoformat basic", lambda t: t.isoformat().replace("-", "").replace("T", "-")), ("ctime", lambda t: t.ctime()),
        ("timestamp", lambda t: repr(t.replace(tzinfo=dtm.timezone.utc).timestamp())), ("date", lambda t: str(t.date())), ("time", lambda t: str(t.time())),
        ("date.isoformat basic", lambda t: t.date().isoformat().replace("-", "")), ("time.isoformat ms", lambda t: t.time().isoformat(timespec="milliseconds")),
        ("toordinal", lambda t: str(t.toordinal())), ("isocalendar", lambda t: "%04dw%d" % (t.year, t.isocalendar()[1])),
        ("%Y%m%d-%H:%M:%S", lambda t: t.strftime("%Y%m%d-%H:%M:%S")), ("%Y%m%d-%H:%M:%S.%f", lambda t: t.strftime("%Y%m%d-%H:%M:%S.%f")),
        ("%Y%m%d-%H:%M:%S.ms", lambda t: t.strftime("%Y%m%d-%H:%M:%S.") + "%03d" % (t.microsecond // 1000)), ("%Y%m%d", lambda t: t.strftime("%Y%m%d")),
        ("%H:%M:%S", lambda t: t.strftime("%H:%M:%S")), ("%H:%M:%S.%f", lambda t: t.strftime("%H:%M:%S.%f")), ("%Y%m", lambda t: t.strftime("%Y%m")),
        ("%y%m%d", lambda t: t.strftime("%y%m%d")), ("%Y-%m-%d", lambda t: t.strftime("%Y-%m-%d")), ("%c", lambda t: t.strftime("%c")),
        ("unpadded", lambda t: "%d%d%d-%d:%d:%d" % (t.year, t.month, t.day, t.hour, t.minute, t.second)),
        ("tz isoformat", lambda t: t.replace(tzinfo=dtm.timezone.utc).isoformat()), ("timedelta", lambda t: str(t - dtm.datetime(2023, 1, 1))),
    ]
    for t in moments:
        for name, fn in dt_fmt:
            emit(f"datetime:{name}", fn, t)
    return out


# ----------------------------------------------------------------------------------------------
# Unicode specials per character class; component boundaries; histories
# ----------------------------------------------------------------------------------------------
_LOOK = None


def unicode_lookalikes():
    """ascii char -> (all code points that NFKC/NFKD-normalise, casefold, lower() or upper() to it, or carry its
    decimal/digit value; combining marks ignored), (the subset reached through a CASE mapping: K/ſ/İ/ı …)"""
    global _LOOK
    if _LOOK is not None:
        return _LOOK
    cache = os.path.join(C.LEAN, ".lake", "c19_lookalikes_%s_%d%d.json" % (unicodedata.unidata_version, *sys.version_info[:2]))
    try:
        with open(cache) as f:
            j = json.load(f)
        _LOOK = (j["all"], j["case"])
        return _LOOK
    except (OSError, ValueError, KeyError):
        pass
    allm, casem = {}, {}

    def base(r):
        r = "".join(x for x in r if unicodedata.category(x) != "Mn")
        return r if len(r) == 1 and ord(r) < 128 else None

    for c in range(128, 0x110000):
        ch = chr(c)
        if unicodedata.category(ch) in ("Cn", "Co", "Cs"):
            continue
        t_all, t_case = set(), set()
        for f in (str.casefold, str.lower, str.upper):
            b = base(f(ch))
            if b:
                t_case.add(b)
        for form in ("NFKC", "NFKD"):
            b = base(unicodedata.normalize(form, ch))
            if b:
                t_all.add(b)
        for f in (unicodedata.decimal, unicodedata.digit):
            try:
                v = f(ch)
                if 0 <= v <= 9:
                    t_all.add(str(v))
            except ValueError:
                pass
        for a in t_all | t_case:
            allm.setdefault(a, []).append(c)
        for a in t_case:
            casem.setdefault(a, []).append(c)
            casem.setdefault(a.swapcase(), []).append(c)
    _LOOK = (allm, casem)
    try:
        os.makedirs(os.path.dirname(cache), exist_ok=True)
        with open(cache, "w") as f:
            json.dump({"all": allm, "case": casem}, f)
    except OSError:
        pass
    return _LOOK


LOOKALIKE_EXEMPLARS = {
    "int": ["12", "-7", "31", "1"],
    "float": ["1.5", "-0.25", "7"],
    "code": ["US", "UK", "USD", "NYSE", "Ab1", "is", "SKI", "k"],
    "boolean": ["Y", "N"],
    "string": ["A", "a=b"],
    "date": ["20230921", "202309", "202309w1"],
    "time": ["20230921-14:00:00.123", "14:00:00", "23:59:59.123"],
    "length": ["12"],
    "data": ["x"],
}


def lookalike_cases(ctx, upper_seen):
    """every position of every exemplar replaced by the non-ASCII code points that fold / normalise to its character"""
    allm, casem = unicode_lookalikes()
    per_pos = ctx.n(24, 10**9)
    out, nvar, ncase = [], 0, 0
    fam_types = {}
    for t in sorted(upper_seen):
        if t in SPEC:
            fam_types.setdefault(SPEC[t][2], []).append(t)
    for fam, exs in LOOKALIKE_EXEMPLARS.items():
        for ex in exs:
            for i, ch in enumerate(ex):
                special = sorted(set(casem.get(ch, [])))
                others = [c for c in allm.get(ch, []) + allm.get(ch.swapcase(), []) if c not in special]
                if len(others) > per_pos:
                    others = ctx.rng.sample(others, per_pos)
                for c in special + others:
                    v = ex[:i] + chr(c) + ex[i + 1 :]
                    nvar += 1
                    ncase += c in special
                    for t in fam_types.get(fam, []):
                        out.append((t, "1", (), v))
    return out, {"variants": nvar, "through a case mapping": ncase,
                 "ascii characters with non-ASCII equivalents": len(allm), "equivalent code points": sum(len(v) for v in allm.values())}


GRAFT_EXEMPLARS = {
    "date": ["20230921", "20240229"], "monthyear": ["202309", "202309w1"], "time": ["14:00:00", "23:59:59.123"],
    "timestamp": ["20230921-14:00:00", "20230921-14:00:00.123"], "int": ["12", "-7", "0"], "float": ["1.5", ".5", "5."],
    "char": ["A"], "boolean": ["Y", "N"], "code": ["US", "USD", "NYSE"], "string": ["ab"],
}
GRAFT_SUFFIXES = [".123", ".123456", ".1", ".000", "-14:00:00", "-14:00:00.123", "Z", "+00:00", "T14:00:00", "21", "w1", ".0", "e0", "E0",
                  "e+0", "A", " ", "Y", "N", ":00", "00", "-", ".", "0", "1", ".5", "D"]
GRAFT_PREFIXES = ["20230921-", "20230921", "2023", "-", "+", "0", " ", "Y", "T", "w1", "14:00:00.", "1.", "A"]


def cross_type_grafts(upper_seen):
    """a valid value of one type extended by a suffix / prefix that is legal in a SIBLING type (date + '.mmm', date + '-HH:MM:SS',
    time + 'Z', MonthYear + day, time + date prefix, int + '.0', float + 'e0', char + second char, boolean + blank …);
    every graft goes to EVERY datatype and must get the verdict of that type's lexical space"""
    strings = {}
    for kind, exs in GRAFT_EXEMPLARS.items():
        for e in exs:
            for x in GRAFT_SUFFIXES:
                strings.setdefault(e + x, f"{kind}+suffix")
            for x in GRAFT_PREFIXES:
                strings.setdefault(x + e, f"prefix+{kind}")
    out = [(t, "1", (), v) for v in sorted(strings) for t in sorted(upper_seen)]
    by = {}
    for k in strings.values():
        by[k] = by.get(k, 0) + 1
    in_space = sum(1 for (t, _, _, v) in out if t in SPEC and spec_accepts(t, "1", v))
    return out, {"strings": len(strings), "by graft": by, "cases in the lexical space of their target type": in_space}


def component_boundary_cases(upper_seen):
    """boundary values (00, 01, max, max+1, 99) of every numeric component of the date / time / MonthYear forms,
    component-wise around valid bases and pairwise for year/month/day; week codes w0..w6"""
    years = ["0000", "0001", "0004", "0100", "0400", "1900", "2000", "2023", "2024", "2100", "2400", "9999"]
    months = ["00", "01", "02", "04", "12", "13", "99"]
    days = ["00", "01", "28", "29", "30", "31", "32", "99"]
    hours = ["00", "23", "24", "99"]
    mins = ["00", "59", "60", "99"]
    secs = ["00", "59", "60", "61", "62", "99"]
    fracs = ["", ".", ".0", ".00", ".000", ".999", ".0000", ".00000", ".000000", ".999999", ".0000000"]
    weeks = ["w0", "w1", "w2", "w3", "w4", "w5", "w6", "w", "W1", "w10", "ww"]
    dates = [y + m + d for y in years for m in months for d in days]
    times = [h + ":" + "30" + ":" + "30" for h in hours] + ["12:" + m + ":30" for m in mins] + ["12:30:" + x for x in secs]
    times += [h + ":" + m + ":" + x for h in ("00", "23", "24") for m in ("00", "59", "60") for x in ("00", "59", "60")]
    times = [t + f for t in times for f in fracs[:1]] + ["12:30:30" + f for f in fracs] + ["23:59:60" + f for f in fracs[:6]]
    stamps = [d + "-" + t for d in ("20240229", "20230229", "00000101", "99991231", "20231301", "20230100") for t in times[:40]]
    # the calendar pool for every date-bearing type: Feb 29 in century years, Feb 30, month 00 / 13, day 00 / 32
    cal = [y + "0229" for y in ("1900", "2000", "2100", "2400", "2023", "2024", "0004", "0100")] + ["20240230", "20230001", "20231301", "20230100", "20230132", "20230431", "20230631"]
    stamps += [d + "-" + t for d in cal for t in ("00:00:00", "23:59:59.999", "12:30:30.123456")]
    stamps += [d + "-12:30:30" for d in dates[::3]]
    monthyears = [y + m for y in years for m in months] + [y + m + w for y in ("0000", "2023", "9999") for m in months for w in weeks] + dates[::2]
    out = []
    plan = {"LOCALMKTDATE": dates, "UTCDATEONLY": dates, "UTCTIMEONLY": times, "UTCTIMESTAMP": stamps, "MONTHYEAR": monthyears}
    for t, vals in plan.items():
        if t in upper_seen:
            for v in vals:
                out.append((t, "1", (), v))
    # day-of-month and the numeric families get the same boundary strings
    for t in ("DAYOFMONTH", "INT", "SEQNUM"):
        if t in upper_seen:
            for v in days + months + ["031", "0031", "-31", "+31"]:
                out.append((t, "1", (), v))
    return out, {k: len(v) for k, v in plan.items()}


HISTORY_POOL = ["5", "-1", "0", "1.5", "Y", "US", "USD1", "20230921", "14:00:00", "20230921-14:00:00", "202309w1", "abc", "a=b", "="]


def history_scenarios(ctx, types):
    """operation sequences on SchemaField objects: validate, re-assign public attributes (ftype, tag, values),
    validate again; the same value twice; two fields sharing one `values` dict.  Each scenario is a JSON-able op list:
    ["new", i, ftype, tag, enums] | ["validate", i, value] | ["set", i, attr, value] | ["share_values", i, j] | ["values_add", i, key]"""
    ts = sorted({t.upper() for t in types})
    sc = []
    for a in ts:
        for b in ts:
            if a == b:
                continue
            ops = [["new", 0, a, "1", []], ["validate", 0, "5"], ["validate", 0, "5"], ["set", 0, "ftype", b]]
            ops += [["validate", 0, v] for v in HISTORY_POOL]
            sc.append(ops)
    for a in ts:
        # case of the type name, tag 16 switched on and off, enumerators added and removed
        sc.append([["new", 0, a, "1", []], ["validate", 0, "0"], ["set", 0, "tag", "16"], ["validate", 0, "0"], ["validate", 0, "00"],
                   ["set", 0, "tag", "1"], ["validate", 0, "0"], ["set", 0, "ftype", a.lower()], ["validate", 0, "0"], ["validate", 0, "Y"]])
        sc.append([["new", 0, a, "1", []], ["validate", 0, "Y"], ["set", 0, "values", ["A", "B"]], ["validate", 0, "Y"], ["validate", 0, "A"],
                   ["set", 0, "values", []], ["validate", 0, "A"], ["validate", 0, "Y"]])
        b = ts[(ts.index(a) + 7) % len(ts)]
        # two fields: interleaved use, then sharing one values dict that is extended afterwards
        sc.append([["new", 0, a, "1", []], ["new", 1, b, "1", []], ["validate", 0, "5"], ["validate", 1, "5"], ["validate", 0, "Y"], ["validate", 1, "Y"],
                   ["set", 0, "values", ["1"]], ["share_values", 0, 1], ["validate", 1, "1"], ["validate", 1, "5"], ["values_add", 0, "5"],
                   ["validate", 1, "5"], ["validate", 0, "5"]])
    return sc


DATE_PARTS = ["20230921", "20240229", "20230229", "19000229", "202309 1", "2023921", "２０２３0921", "2023092１", "00000921", "20231301"]
TIME_PARTS = ["14:00:00", "23:59:59.123", "1:2:3", "24:00:00", "14:00:60", "14:00:00.123456"]
SHARED_POOLS = {
    "UTCTIMESTAMP": [d + "-" + t for d in DATE_PARTS for t in TIME_PARTS[:4]],
    "UTCTIMEONLY": TIME_PARTS + ["14:00:0", "14:00:00.1", "14:0０:00", "14:00"],
    "LOCALMKTDATE": DATE_PARTS + ["2023092", "202309211"],
    "UTCDATEONLY": DATE_PARTS + ["2023092", "202309211"],
    "MONTHYEAR": ["202309", "202309w1", "202300w1", "202309w6", "20230921", "202309 1", "２０２３09", "000009", "2023091", "202313"],
    "INT": ["12", "12 ", "1_2", "+12", "１２", "12.0", "-12", "012", "1e2"],
    "FLOAT": ["1.5", "1.5e3", "1.5 ", "+1.5", "１.5", "1.5.", "15e-1", "1e-05", "1e+16", "-1.5"],
    "STRING": ["ab", "a=b", "ab\x01", "a", "abc"],
    "BOOLEAN": ["Y", "N", "y", "YN", " Y"],
    "COUNTRY": ["US", "U_", "U\u212a", "us", "USA", "U"],
}
SHARED_LIKE = {"SEQNUM": "INT", "NUMINGROUP": "INT", "DAYOFMONTH": "INT", "LENGTH": "INT", "QTY": "FLOAT", "PRICE": "FLOAT", "PRICEOFFSET": "FLOAT",
               "AMT": "FLOAT", "PERCENTAGE": "FLOAT", "CHAR": "STRING", "MULTIPLEVALUESTRING": "STRING", "MULTIPLESTRINGVALUE": "STRING", "DATA": "STRING",
               "CURRENCY": "COUNTRY", "EXCHANGE": "COUNTRY"}


def shared_component_histories(ctx, types):
    """2-3 validations of DIFFERENT values that share a prefix / suffix / component (bad date + any time then the same
    bad date + a valid time; a member then a near-miss with the same first n characters; the same near-miss two and
    three times) on one field object and across two field objects (module-level state)"""
    ts = sorted({t.upper() for t in types})
    sc = []
    for t in ts:
        pool = SHARED_POOLS.get(t) or SHARED_POOLS.get(SHARED_LIKE.get(t, ""), [])
        if not pool:
            continue
        pairs = [(a, b) for a in pool for b in pool]
        if ctx.tier != "thorough" and len(pairs) > 100:
            # keep every pair that shares its first component, sample the rest
            share = [(a, b) for (a, b) in pairs if a != b and (a[:8] == b[:8] or a[-8:] == b[-8:])]
            sset = set(share)
            rest = [p for p in pairs if p not in sset]
            pairs = share[:120] + ctx.rng.sample(rest, min(len(rest), 30))
        other = "UTCTIMESTAMP" if t != "UTCTIMESTAMP" and t in ("LOCALMKTDATE", "UTCDATEONLY", "UTCTIMEONLY", "MONTHYEAR") else t
        for a, b in pairs:
            sc.append([["new", 0, t, "1", []], ["validate", 0, a], ["validate", 0, b], ["validate", 0, b], ["validate", 0, a]])
            sc.append([["new", 0, t, "1", []], ["new", 1, t, "1", []], ["validate", 0, a], ["validate", 1, b], ["validate", 0, b]])
        for a in pool:
            sc.append([["new", 0, t, "1", []], ["validate", 0, a], ["validate", 0, a], ["validate", 0, a]])
            if other != t and other in ts:
                # the same component travels through a field of another date-bearing type first
                for b in SHARED_POOLS[other][:8]:
                    sc.append([["new", 0, other, "1", []], ["new", 1, t, "1", []], ["validate", 0, b], ["validate", 1, a], ["validate", 0, b]])
    return sc


def run_history(ops):
    """-> list of (step index, (ftype, tag, enums) at that moment, value, implementation result on the persistent objects)"""
    from asyncfix.protocol.schema import SchemaField

    fields, out = {}, []
    for k, op in enumerate(ops):
        if op[0] == "new":
            f = SchemaField(op[3], "Probe%d" % op[1], op[2])
            if op[4]:
                f.values = {e: "" for e in op[4]}
            fields[op[1]] = f
        elif op[0] == "set":
            f = fields[op[1]]
            if op[2] == "values":
                f.values = {e: "" for e in op[3]}
            else:
                setattr(f, op[2], op[3])
        elif op[0] == "share_values":
            fields[op[2]].values = fields[op[1]].values
        elif op[0] == "values_add":
            fields[op[1]].values[op[2]] = ""
        elif op[0] == "validate":
            f = fields[op[1]]
            out.append((k, (f.ftype, f.tag, tuple(f.values.keys())), op[2], impl_on(f, op[2])))
    return out


def impl_on(f, value):
    from asyncfix.errors import FIXMessageError

    with warnings.catch_warnings():
        warnings.simplefilter("ignore")
        try:
            r = f.validate_value(value)
        except FIXMessageError:
            return "fme"
        except BaseException as e:  # noqa
            return "raised:" + type(e).__name__.replace("Error", "")
    return "ok" if r is True else f"returned:{r!r}"


def history_verdicts(ops, maxdigits):
    """oracle for one history: every validate step must behave like a FRESH field with the same attributes and get the SPEC verdict"""
    res = []
    for k, (ft, tag, es), v, got in run_history(ops):
        fresh = call_impl(ft, tag, es, v)
        if got != fresh:
            res.append((k, "C19-history:differs-from-fresh-field", f"step {k}: {ft} field (tag {tag}) answers {got} for {v!r}, a fresh field with the same attributes answers {fresh}", got))
            continue
        c = (ft, tag, es, v)
        verdict = enum_verdict(c, got) if es else classify(ft, tag, v, got, maxdigits) if ft.upper() in SPEC else None
        if verdict:
            res.append((k, verdict[0], verdict[1], got))
    return res


def dictionary_types(dicts):
    types = []
    for name, fields in dicts.items():
        for f in fields:
            if f["type"] not in types:
                types.append(f["type"])
    return types


def typed_cases(ctx, types, maxdigits):
    """(ftype, tag, enums, value) – everything that goes through the type dispatch"""
    maxlen = ctx.n(3, 4)
    cases = []
    stats = {}
    upper_seen = set()
    for t in types:
        if t.upper() in upper_seen:
            continue
        upper_seen.add(t.upper())
        alpha = alphabet(t)
        n0 = len(cases)
        for ln in range(0, maxlen + 1):
            for tup in itertools.product(alpha, repeat=ln):
                cases.append((t, "1", (), "".join(tup)))
        stats[f"{t}:small-scope<= {maxlen}".replace(" ", "")] = len(cases) - n0
    # exemplar neighbours
    n0 = len(cases)
    for kind, exs in EXEMPLARS.items():
        for ex in exs:
            for nb in neighbours(ex, DT_ALPHA):
                for t in EX_TYPES[kind]:
                    if t in upper_seen:
                        cases.append((t, "1", (), nb))
    stats["datetime:exemplar-neighbours"] = len(cases) - n0
    # boundaries
    n0 = len(cases)
    bv = boundary_values(maxdigits)
    for t in sorted(upper_seen):
        fam = SPEC.get(t, (None, None, None))[2]
        if fam == "int" or t == "LENGTH":
            for v in bv["int"] + bv["float"][:12]:
                cases.append((t, "1", (), v))
        if fam == "float":
            for v in bv["float"] + bv["int"][:12]:
                cases.append((t, "1", (), v))
    stats["numeric:boundaries"] = len(cases) - n0
    # seeded random members / near-misses
    n0 = len(cases)
    for v in random_number_cases(ctx.rng, ctx.n(1500, 12000)):
        for t in ("INT", "SEQNUM", "DAYOFMONTH", "FLOAT", "PRICE", "LENGTH"):
            if t in upper_seen:
                cases.append((t, "1", (), v))
    kinds = {"date": "UTCDATEONLY", "timeOnly": "UTCTIMEONLY", "timestamp": "UTCTIMESTAMP", "monthYear": "MONTHYEAR"}
    for k, v in random_datetime_cases(ctx.rng, ctx.n(1500, 12000)):
        if kinds[k] in upper_seen:
            cases.append((kinds[k], "1", (), v))
    stats["random:members+near-misses"] = len(cases) - n0
    # fixed points of Python's own formatting, for EVERY datatype
    n0 = len(cases)
    pf = python_formatted_values(ctx.rng, ctx.tier)
    by_fmt, seen_str = {}, {}
    for name, v in pf:
        by_fmt[name.split(":")[0]] = by_fmt.get(name.split(":")[0], 0) + 1
        seen_str.setdefault(v, name)
    pf_strings = sorted(seen_str)
    if ctx.tier != "thorough" and len(pf_strings) > 800:
        keep = [v for v in pf_strings if seen_str[v].split(":")[1] in ("str", "repr", "isoformat", "%g", "%e")]
        kset = set(keep)
        rest = [v for v in pf_strings if v not in kset]
        pf_strings = sorted(set(keep[:500] + ctx.rng.sample(rest, max(0, 800 - min(len(keep), 500)))))
    for v in pf_strings:
        for t in sorted(upper_seen):
            cases.append((t, "1", (), v))
    stats["python-formatted:strings used (quick tier samples)"] = len(pf_strings)
    stats["python-formatted:cases"] = len(cases) - n0
    stats["python-formatted:distinct strings"] = len(seen_str)
    stats["python-formatted:produced by value kind"] = by_fmt
    stats["python-formatted:formatters"] = len({n for n, _ in pf})
    stats["python-formatted:length histogram"] = {
        k: sum(1 for v in seen_str if lo <= len(v) <= hi) for k, (lo, hi) in
        {"1-4": (1, 4), "5-8": (5, 8), "9-16": (9, 16), "17-32": (17, 32), ">32": (33, 10**9)}.items()
    }
    stats["python-formatted:with exponent marker"] = sum(1 for v in seen_str if re.fullmatch(r"-?[0-9.]+[eE][+-]?[0-9]+", v))
    ctx.c19_pf = set(pf_strings)
    # Unicode specials per character class, for every datatype that restricts its alphabet
    n0 = len(cases)
    lc, lstats = lookalike_cases(ctx, upper_seen)
    cases += lc
    stats["unicode-equivalents:cases"] = len(cases) - n0
    stats["unicode-equivalents:detail"] = lstats
    # boundary values of every numeric component of the date / time / MonthYear forms
    n0 = len(cases)
    bc, bstats = component_boundary_cases(upper_seen)
    cases += bc
    stats["component-boundaries:cases"] = len(cases) - n0
    stats["component-boundaries:values per type"] = bstats
    # cross-type grafts
    n0 = len(cases)
    gc, gstats = cross_type_grafts(upper_seen)
    cases += gc
    stats["cross-type-grafts:cases"] = len(cases) - n0
    stats["cross-type-grafts:detail"] = gstats
    ctx.c19_grafts = {c[3] for c in gc}
    # tag 16, case variants of type names, unknown type, non-str / empty
    n0 = len(cases)
    for t in sorted(upper_seen):
        for v in ("0", "00", " 0", "1", "-0", "=", "x"):
            cases.append((t, "16", (), v))
        cases.append((t, "1", (), None))
        cases.append((t, "1", (), ""))
        cases.append((t.lower(), "1", (), "1"))
        cases.append((t.capitalize(), "1", (), "Y"))
    for t in ("UNSUPPORTED", "TZTIMESTAMP", "", "INT ", "LANGUAGE"):
        for v in ("x", "\x01", "=", ""):
            cases.append((t, "1", (), v))
    stats["tag16+type-names+guards"] = len(cases) - n0
    return cases, stats


MULTI_NAMES = {"MULTIPLEVALUESTRING", "MULTIPLESTRINGVALUE"}


def is_multi(ftype):
    return ftype.upper() in MULTI_NAMES


def member_list(es, v):
    """SPEC of an enumerated MultipleValueString: one or more values delimited by single blanks, each enumerated
    (written as a character walk; not str.split)"""
    cur, ok = "", True
    for ch in v:
        if ch == " ":
            ok = ok and cur in es
            cur = ""
        else:
            cur += ch
    return ok and cur in es


def enum_cases(ctx, dicts):
    cases = []
    for name, fields in dicts.items():
        for f in fields:
            if not f["enums"]:
                continue
            es = tuple(f["enums"])
            probes = set(es)
            for e in es:
                probes.update({e + " ", " " + e, e.swapcase(), e + e, e[:-1], e + "\x01", e.lower(), e.upper(), "0" + e})
            probes.update({"", "?", "Y", "N", "0", "1", "ZZZ", "="})
            # lists of enumerators (members of the lexical space only for MultipleValueString fields) and their near-misses
            a, b, c3 = es[0], es[-1], es[len(es) // 2]
            for x, y in {(a, b), (b, a), (a, a), (c3, a)}:
                probes.update({x + " " + y, x + "  " + y, " " + x + " " + y, x + " " + y + " ", x + "\t" + y, x + "," + y, x + " ?", "? " + y,
                               x + " " + y + " " + c3, x + " " + y.swapcase(), x + "\u00a0" + y})
            probes.update({" ", "  ", a + " " + " ".join(es[:6])})
            # lists of enumerators (a MultipleValueString reading of a plain enumerated field), other separators
            for i in range(min(len(es), 4)):
                for j in range(min(len(es), 4)):
                    for sep in (" ", ",", "|", "  "):
                        probes.add(es[i] + sep + es[j])
            for p in sorted(probes):
                cases.append((f["type"], f["tag"], es, p))
    return cases


# ----------------------------------------------------------------------------------------------
# correspondence
# ----------------------------------------------------------------------------------------------
def check_tables(drv):
    """compiled Unicode tables == the running interpreter, on all non-ASCII code points"""
    dis = []
    zeros = [int(x) for x in drv.batch(["lex.tables digits"])[0].split()]
    spaces = set(int(x) for x in drv.batch(["lex.tables spaces"])[0].split())
    dec = {}
    for z in zeros:
        for i in range(10):
            dec[z + i] = i
    rng_ = range(128, 0x110000)
    py_dec = {c: d for c in rng_ if (d := unicodedata.decimal(chr(c), None)) is not None}
    py_space = {c for c in rng_ if chr(c).isspace()}
    every = "".join(map(chr, rng_))
    re_digits = {ord(ch) for ch in re.findall(r"\d", every)}
    int_ok = set()
    for c in set(py_dec) | set(dec):
        try:
            if int(chr(c)) == py_dec.get(c):
                int_ok.add(c)
        except ValueError:
            pass
    for c in sorted(set(dec) ^ set(py_dec))[:10]:
        dis.append({"input": f"decimal U+{c:04X}", "model": dec.get(c), "impl": py_dec.get(c)})
    for c in sorted(c for c in dec if c in py_dec and dec[c] != py_dec[c])[:10]:
        dis.append({"input": f"decimal value U+{c:04X}", "model": dec[c], "impl": py_dec[c]})
    for c in sorted((re_digits ^ set(py_dec)) | (int_ok ^ set(py_dec)))[:10]:
        dis.append({"input": f"re \\d / int() vs unicodedata.decimal U+{c:04X}", "model": c in dec, "impl": (c in re_digits, c in int_ok)})
    for c in sorted(spaces ^ py_space)[:10]:
        dis.append({"input": f"space U+{c:04X}", "model": c in spaces, "impl": c in py_space})
    return len(rng_), dis


def py_int(s):
    try:
        return str(int(s))
    except ValueError:
        return "none"


def py_float(s):
    from math import isfinite

    try:
        v = float(s)
    except ValueError:
        return "valueError"
    return "finite" if isfinite(v) else "nonFinite"


FMT = {"ymd": "%Y%m%d", "ym": "%Y%m", "hms": "%H:%M:%S", "hmsf": "%H:%M:%S.%f", "ts": "%Y%m%d-%H:%M:%S", "tsf": "%Y%m%d-%H:%M:%S.%f"}


def py_strp(fmt, s):
    import datetime as dtm

    try:
        t = dtm.datetime.strptime(s, FMT[fmt])
    except ValueError as e:
        m = str(e)
        if "does not match format" in m:
            return "noMatch"
        if "unconverted data remains" in m:
            return "unconverted"
        if "out of range" in m or "day is out of range" in m:
            return "badDate"
        return "badTime"
    return f"ok {t.year} {t.month} {t.day} {t.hour} {t.minute} {t.second} {t.microsecond}"


def load_corpus():
    try:
        with open(CORPUS) as f:
            return [(c["type"], c.get("tag", "1"), tuple(c.get("enums", ())), c["value"]) for c in json.load(f)]
    except FileNotFoundError:
        return []


def correspondence(ctx):
    drv = C.Driver()
    maxdigits = sys.get_int_max_str_digits()
    dicts = dictionaries()
    dis = []
    branches = {}
    distribution = {}

    # 0. dictionaries: independent reader == library's parser; type names ASCII; enumerators sane
    from asyncfix.protocol.schema import FIXSchema

    nfields = 0
    for name, fields in dicts.items():
        sch = FIXSchema(os.path.join(C.REPO, "tests", name))
        for f in fields:
            nfields += 1
            lf = sch._tag2field.get(f["tag"])
            mine = (f["name"], f["type"], f["enums"])
            theirs = (lf.name, lf.ftype, list(lf.values.keys())) if lf is not None else None
            if mine != theirs:
                dis.append({"input": f"{name} field {f['tag']}", "model": mine, "impl": theirs})
            if not f["type"].isascii() or any(e == "" or " " in e for e in f["enums"]) or len(set(f["enums"])) != len(f["enums"]):
                dis.append({"input": f"{name} field {f['tag']}", "model": "ASCII type name, non-empty distinct enumerators without blanks", "impl": mine})
    types = dictionary_types(dicts)
    distribution["dictionary_fields"] = nfields
    distribution["datatypes"] = sorted(set(t.upper() for t in types))
    unknown = [t for t in distribution["datatypes"] if t not in SPEC]
    if unknown:
        ctx.note(f"datatypes without a SPEC recogniser in the oracle (only model/impl compared): {unknown}")

    # 1. Unicode tables, exhaustive
    ntab, tdis = check_tables(drv)
    dis += tdis
    distribution["unicode_table_code_points"] = ntab

    # 2. validate_value: corpus, typed cases, enumerated fields
    corpus = load_corpus()
    typed, stats = typed_cases(ctx, types, maxdigits)
    enums = enum_cases(ctx, dicts)
    distribution.update(stats)
    distribution["corpus"] = len(corpus)
    distribution["enumerated-field probes"] = len(enums)
    cases = corpus + typed + enums
    model = drv.batch([model_line(t, tag, es, v, maxdigits) for (t, tag, es, v) in cases])
    distinct = set()
    impl_results = []
    for c, ml in zip(cases, model):
        il = call_impl(*c)
        impl_results.append(il)
        key = (c[0].upper(), c[1] == "16", bool(c[2]), il)
        branches[f"{'enum' if c[2] else c[0].upper()}:{il}"] = branches.get(f"{'enum' if c[2] else c[0].upper()}:{il}", 0) + 1
        distinct.add((c[0].upper(), c[1] == "16", c[2], c[3]))
        if il != ml:
            dis.append({"input": {"type": c[0], "tag": c[1], "enums": list(c[2])[:8], "value": c[3]}, "model": ml, "impl": il, "level": "validate_value"})
    nval = len(cases)
    impl_of = dict(zip(cases, impl_results))

    # 2b. histories on SchemaField objects: the model is stateless, so every validate step must equal the model on
    #     the attributes the object has at that moment
    hist = history_scenarios(ctx, types)
    shared = shared_component_histories(ctx, types)
    distribution["history:shared-component scenarios"] = len(shared)
    distribution["history:shared-component scenarios across two field objects"] = sum(1 for ops in shared if sum(1 for o in ops if o[0] == "new") == 2)
    hist = hist + shared
    hsteps, hlines = [], []
    for hi, ops in enumerate(hist):
        for k, (ft, tag, es), v, got in run_history(ops):
            hsteps.append((hi, k, ft, tag, es, v, got))
            hlines.append(model_line(ft, tag, es, v, maxdigits))
    hmodel = drv.batch(hlines)
    bad_hist = set()
    for (hi, k, ft, tag, es, v, got), ml in zip(hsteps, hmodel):
        if got != ml and hi not in bad_hist:
            bad_hist.add(hi)
            dis.append({"input": {"history": hist[hi], "step": k}, "model": ml, "impl": got, "level": "history"})
    distribution["history:scenarios"] = len(hist)
    distribution["history:validate steps"] = len(hsteps)
    distribution["history:ops"] = {o: sum(1 for ops in hist for op in ops if op[0] == o) for o in ("new", "validate", "set", "share_values", "values_add")}
    ctx.c19_hist = hist

    # 3. the modelled CPython primitives one level down, on the distinct values of the typed cases
    values = sorted({c[3] for c in typed if isinstance(c[3], str) and c[0].upper() in NUM_TYPES})
    lines = [f"lex.int {maxdigits} {enc(v)}" for v in values] + [f"lex.float {enc(v)}" for v in values]
    out = drv.batch(lines)
    for i, v in enumerate(values):
        if out[i] != py_int(v):
            dis.append({"input": {"int()": v}, "model": out[i], "impl": py_int(v), "level": "primitive"})
        if out[len(values) + i] != py_float(v):
            dis.append({"input": {"float()": v}, "model": out[len(values) + i], "impl": py_float(v), "level": "primitive"})
    dvals = sorted({c[3] for c in typed if isinstance(c[3], str) and c[0].upper() in DT_TYPES})
    if ctx.tier != "thorough" and len(dvals) > 12000:
        dvals = ctx.rng.sample(dvals, 12000)
    lines = [f"lex.strp {f} {enc(v)}" for v in dvals for f in FMT]
    out = drv.batch(lines)
    k = 0
    for v in dvals:
        for f in FMT:
            want = py_strp(f, v)
            if out[k] != want:
                dis.append({"input": {"strptime": v, "format": FMT[f]}, "model": out[k], "impl": want, "level": "primitive"})
            k += 1
    nprim = 2 * len(values) + len(lines)
    distribution["primitive int()/float() comparisons"] = 2 * len(values)
    distribution["primitive strptime() comparisons"] = len(lines)

    # 4. the predicates the theorems are about: Lean SPEC == Python SPEC, Lean narrow marks == Python's,
    #    and the theorem's shape itself on the implementation: accepted == (spec and not narrow) or deviation
    sub = [c for c in typed if isinstance(c[3], str) and c[0].upper() in SPEC]
    if ctx.tier != "thorough" and len(sub) > 45000:
        sub = ctx.rng.sample(sub, 45000)
    lines = []
    for (t, tag, es, v) in sub:
        lines.append(f"lex.s {SPEC[t.upper()][0]} {1 if tag == '16' else 0} {enc(v)}")
        lines.append(f"lex.n {C.hx(t)} {maxdigits} {enc(v)}")
        lines.append(f"lex.d {C.hx(t)} {maxdigits} {enc(v)}")
    out = drv.batch(lines)
    for i, (t, tag, es, v) in enumerate(sub):
        ls, ln_, ld = out[3 * i], out[3 * i + 1], out[3 * i + 2]
        ps = "1" if (spec_accepts(t, tag, v) if v != "" else False) else "0"
        if ls != ps:
            dis.append({"input": {"spec": SPEC[t.upper()][0], "tag": tag, "value": v}, "model": ls, "impl": ps, "level": "spec-recogniser"})
        pm = "n=" + ",".join(narrow_marks(t, v, maxdigits))
        if ps == "1" and ln_ != pm:  # marks are meaningful on the lexical space only
            dis.append({"input": {"narrow-marks": t, "value": v}, "model": ln_, "impl": pm, "level": "marks"})
        if tag != "16" and v != "" and t.upper() != "LENGTH":
            il = impl_of[(t, tag, es, v)]
            shape = (ls == "1" and ln_ == "n=") or ld == "1"
            if shape != (il == "ok"):
                dis.append({"input": {"theorem-shape": t, "value": v}, "model": f"spec={ls} {ln_} dev={ld}", "impl": il, "level": "theorem-shape"})
    ml = [c for c in enums if is_multi(c[0]) and isinstance(c[3], str)]
    mlout = drv.batch(["lex.ml %s%s" % (enc(v), "".join(" " + enc(e) for e in es)) for (t, tag, es, v) in ml])
    for (t, tag, es, v), lo in zip(ml, mlout):
        ps = "1" if member_list(es, v) else "0"
        if lo != ps:
            dis.append({"input": {"spec": "memberList", "enums": list(es)[:8], "value": v}, "model": lo, "impl": ps, "level": "spec-recogniser"})
    distribution["enumerated MultipleValueString probes"] = len(ml)
    distribution["enumerated MultipleValueString probes in the lexical space"] = sum(1 for c in ml if member_list(c[2], c[3]))
    npred = len(lines) + len(ml)
    distribution["spec/narrow/deviation predicate comparisons"] = npred

    samples = []
    for i in (0, len(corpus) + 5, len(corpus) + 4000, len(corpus) + len(typed) - 3, len(cases) - 7):
        if 0 <= i < len(cases):
            c = cases[i]
            samples.append({"type": c[0], "tag": c[1], "enums": list(c[2])[:6], "value": c[3], "model": model[i], "impl": impl_results[i]})
    ctx.c19_cache = (cases, impl_results, maxdigits)
    return {
        "evaluations": nval + nprim + npred + ntab + len(hsteps),
        "distinct_nontrivial": len(distinct),
        "rule": "distinct (datatype, is-tag-16, enumerators, value) tuples sent through validate_value on both sides "
        "(every tuple selects a dispatch branch and a path through int()/float()/re/strptime); the primitive-level, "
        "predicate-level and Unicode-table comparisons are counted in `evaluations` only",
        "samples": samples,
        "exhaustive": True,
        "branches": branches,
        "distribution": distribution,
        "disagreements": dis,
    }


# ----------------------------------------------------------------------------------------------
# oracle
# ----------------------------------------------------------------------------------------------
def finding_witnesses():
    out = []
    for k in C.load_findings(PROP):
        w = k.get("witness")
        if isinstance(w, dict) and "type" in w and "value" in w:
            out.append((w["type"], w.get("tag", "1"), tuple(w.get("enums", ())), w["value"]))
    return out


def enum_verdict(c, impl):
    t, tag, es, v = c
    if impl.startswith("raised:") or impl.startswith("returned:"):
        return (f"C19-foreign-exception:{impl.split(':', 1)[1]}", "a rejection that is not the library's FIXMessageError")
    if is_multi(t):
        want = isinstance(v, str) and v != "" and member_list(es, v)
        if want and impl != "ok":
            return ("C19-enum:rejects-member-list", "a blank-delimited list of enumerated values of a MultipleValueString field is rejected")
    else:
        want = isinstance(v, str) and v != "" and v in es
    if want and impl != "ok":
        return ("C19-enum:rejects-enumerator", "an enumerated value of the field is rejected")
    if not want and impl == "ok":
        return ("C19-enum:accepts-non-member", "a value that is not enumerated for the field is accepted")
    return None


def oracle(ctx, disagreements, broken):
    maxdigits = sys.get_int_max_str_digits()
    failures = []
    n = 0
    todo = []
    for d in disagreements:
        i = d.get("input")
        if isinstance(i, dict) and "type" in i and "value" in i:
            todo.append((i["type"], i.get("tag", "1"), tuple(i.get("enums", ())), i["value"]))
    todo += load_corpus() + finding_witnesses()
    cached = getattr(ctx, "c19_cache", None)
    results = {}
    if cached:
        cases, impl_results, _ = cached
        if broken:
            pool = list(zip(cases, impl_results))
        else:
            # modest sample: everything of length <= 2, every 7th longer case, all enumerated-field probes
            pf = getattr(ctx, "c19_pf", set()) | getattr(ctx, "c19_grafts", set())
            pool = [(c, r) for k, (c, r) in enumerate(zip(cases, impl_results))
                    if c[2] or not isinstance(c[3], str) or len(c[3]) <= 2 or k % 7 == 0 or c[3] in pf]
        for c, r in pool:
            results[c] = r
    else:
        dicts = dictionaries()
        typed, _ = typed_cases(ctx, dictionary_types(dicts), maxdigits)
        todo += typed + enum_cases(ctx, dicts)
    for c in todo:
        if c not in results:
            results[c] = call_impl(*c)
    for c, impl in results.items():
        t, tag, es, v = c
        n += 1
        if es:
            verdict = enum_verdict(c, impl)
        elif t.upper() in SPEC:
            verdict = classify(t, tag, v, impl, maxdigits)
        else:
            verdict = None
            if impl.startswith("raised:"):
                verdict = (f"C19-foreign-exception:{impl.split(':', 1)[1]}", "a rejection that is not the library's FIXMessageError")
        if verdict:
            failures.append(
                {
                    "signature": verdict[0],
                    "what": verdict[1],
                    "input": {"type": t, "tag": tag, "enums": list(es), "value": v},
                    "expected": "accepted" if impl != "ok" else "FIXMessageError",
                    "observed": impl,
                }
            )
    # histories: the disagreeing ones first, then all scenarios (cheap)
    hists = [d["input"]["history"] for d in disagreements if isinstance(d.get("input"), dict) and "history" in d["input"]]
    hists += getattr(ctx, "c19_hist", None) or history_scenarios(ctx, dictionary_types(dictionaries()))
    nh = 0
    seen_h = set()
    for ops in hists:
        key = json.dumps(ops)
        if key in seen_h:
            continue
        seen_h.add(key)
        for k, sig, what, got in history_verdicts(ops, maxdigits):
            nh += 1
            if sig.startswith("C19-history:"):
                # shrink: keep the ops up to the failing step
                failures.append({"signature": sig, "what": what, "input": {"history": ops[: k + 1], "value": ops[k][2]},
                                 "expected": "the answer of a fresh field with the same attributes", "observed": got})
            else:
                failures.append({"signature": sig, "what": what, "input": {"history": ops[: k + 1], "value": ops[k][2]},
                                 "expected": "lexical-space verdict", "observed": got})
    # smallest witness first per signature
    failures.sort(key=lambda f: (f["signature"], "history" in f["input"], len(f["input"]["value"]) if isinstance(f["input"]["value"], str) else 0))
    by_sig = {}
    for f in failures:
        by_sig[f["signature"]] = by_sig.get(f["signature"], 0) + 1
    ctx.oracle_stats = {"evaluations": n, "failures": len(failures), "by_signature": by_sig, "searched_harder": bool(broken)}
    return failures


def replay(ctx, rp):
    i = rp["input"]
    maxdigits = sys.get_int_max_str_digits()
    if "history" in i:
        vs = history_verdicts(i["history"], maxdigits)
        print("replay history:", i["history"], "->", vs)
        return any(sig == rp["signature"] for _, sig, _, _ in vs)
    c = (i["type"], i.get("tag", "1"), tuple(i.get("enums", ())), i["value"])
    impl = call_impl(*c)
    verdict = enum_verdict(c, impl) if c[2] else classify(c[0], c[1], c[3], impl, maxdigits) if c[0].upper() in SPEC else None
    print("replay:", i, "->", impl, verdict)
    return bool(verdict) and verdict[0] == rp["signature"]
