"""./check Cxx [--tier quick|thorough] [--replay FILE]   — see DESIGN.md §2.5

exit 0  property held on everything explored (KNOWN-FINDING lines for listed findings)
exit 1  VIOLATION property=<id> replay=<path> [no-failing-input-found]
exit 2  infrastructure failure / timeout (no verdict)
"""
from __future__ import annotations

import argparse
import importlib
import json
import os
import random
import sys
import time
import traceback

from . import common as C


class Ctx:
    def __init__(self, prop, tier, seed):
        self.prop, self.tier, self.seed = prop, tier, seed
        self.rng = random.Random(f"{prop}/{seed}")
        self.t0 = time.time()
        self.notes = []

    def n(self, quick, thorough):
        return thorough if self.tier == "thorough" else quick

    def elapsed(self):
        return time.time() - self.t0

    def note(self, s):
        self.notes.append(s)


def load_module(prop):
    return importlib.import_module(f"harness.{prop.lower()}")


def main(argv=None):
    ap = argparse.ArgumentParser()
    ap.add_argument("prop")
    ap.add_argument("--tier", default=os.environ.get("VERIF_TIER", "quick"), choices=["quick", "thorough"])
    ap.add_argument("--replay")
    args = ap.parse_args(argv)
    prop = args.prop.upper()
    seed = int(os.environ.get("VERIF_SEED", "0") or 0)
    ctx = Ctx(prop, args.tier, seed)
    try:
        mod = load_module(prop)
    except ModuleNotFoundError as e:
        print(f"no check for {prop}: {e}")
        return 2

    if args.replay:
        return do_replay(ctx, mod, args.replay)

    ev = {
        "property_id": prop,
        "tier": args.tier,
        "seed": seed,
        "level": "proof",
        "coverage": {},
        "assumptions": list(getattr(mod, "ASSUMPTIONS", [])),
        "wall_s": 0.0,
        "violations": 0,
    }
    cov = ev["coverage"]
    cov["trusted_base"] = C.TRUSTED_BASE + list(getattr(mod, "MODELLED_NOT_VERIFIED", []))
    rc = 2
    try:
        rc = run_check(ctx, mod, ev)
    except Exception:
        traceback.print_exc()
        cov.setdefault("explanation", "")
        cov["explanation"] += " INFRASTRUCTURE FAILURE: " + traceback.format_exc()[-1500:]
        rc = 2
    finally:
        ev["wall_s"] = round(ctx.elapsed(), 2)
        if ctx.notes:
            cov["notes"] = ctx.notes
        # evidence schema needs these keys even when an early stage failed
        cov.setdefault("obligations", 0)
        cov.setdefault("discharged", 0)
        cov.setdefault("checker_cmd", "cd lean && lake build")
        cov.setdefault("evaluations", 0)
        cov.setdefault("distinct_nontrivial", 0)
        C.write_evidence(prop, ev)
    return rc


def run_check(ctx, mod, ev):
    prop = ctx.prop
    cov = ev["coverage"]
    broken = []  # reasons the proof / tie no longer checks

    # 1 translator --------------------------------------------------------------
    ok, log = C.translate()
    cov["translator"] = log.strip().split("\n")
    if not ok:
        # a generator that refuses the changed source concerns the properties whose theorems (or whose part of the
        # model driver) are built on that generated file - not every property
        refused = [ln.split(":")[1].strip() for ln in log.split("\n") if "TRANSLATOR-REFUSED" in ln and ln.count(":") >= 2]
        mine = generated_used_by(list(mod.PROPS_MODULES) + list(getattr(mod, "EXTRA_TARGETS", [])) + list(getattr(mod, "DRIVER_MODULES", [])))
        hit = [r for r in refused if (not r.endswith(".lean")) or r[:-5] in mine]
        if hit:
            broken.append({"kind": "translator-refused", "detail": log.strip()[-2000:], "files": hit})
        else:
            ctx.note("translator refused " + ", ".join(refused) + " - not used by this property's modules")

    # 2 build ---------------------------------------------------------------------
    props_modules = list(mod.PROPS_MODULES)
    targets = props_modules + list(getattr(mod, "EXTRA_TARGETS", [])) + ["driver"]
    theorems = []
    for m in props_modules:
        theorems += C.theorems_in(m.replace(".", "/") + ".lean")
    cov["obligations"] = len(theorems)
    cov["obligation_names"] = theorems
    cov["checker_cmd"] = (
        "cd lean && lake build " + " ".join(targets) + " && lake env lean .lake/audit/Audit_%s.lean  (#print axioms)" % prop
    )
    build_ok = False
    if ok:
        build_ok, blog, bdt = C.lake_build(targets)
        cov["build_s"] = round(bdt, 1)
        if not build_ok:
            broken.append({"kind": "proof-broken", "detail": tail_errors(blog)})
    driver_ok = os.path.exists(C.DRIVER)
    if not build_ok and driver_ok:
        # the model driver may still be buildable although a theorem is not
        dok, dlog, _ = C.lake_build(["driver"])
        driver_ok = dok
    if not driver_ok and not broken:
        raise RuntimeError("driver does not build although nothing is broken")

    # 3 audit -----------------------------------------------------------------------
    discharged = 0
    if build_ok:
        hits = C.forbidden_tokens()
        if hits:
            raise RuntimeError("forbidden tokens in Lean sources: " + "; ".join(hits[:10]))
        aok, axioms, bad, alog = C.axiom_audit(props_modules, theorems, prop)
        cov["axioms"] = {k: v for k, v in axioms.items()}
        if not aok:
            raise RuntimeError(f"axiom audit failed: {bad} {alog[-800:]}")
        discharged = len(theorems)
        if ctx.tier == "thorough":
            rcx, out, dt = C.run(["lake", "env", "leanchecker"] + props_modules, cwd=C.LEAN, timeout=3000)
            cov["leanchecker"] = {"rc": rcx, "s": round(dt, 1), "tail": out.strip()[-300:]}
            if rcx != 0:
                raise RuntimeError("leanchecker rejected the compiled proofs: " + out[-800:])
    cov["discharged"] = discharged

    # non-gating: machine-checked counter-examples of the open findings
    fm = getattr(mod, "FINDINGS_MODULE", None)
    if fm and build_ok:
        fok, flog, _ = C.lake_build([fm])
        cov["findings_module"] = {"module": fm, "builds": fok}
        if not fok:
            ctx.note(f"{fm} no longer builds: a recorded finding may have been repaired: " + tail_errors(flog)[:400])

    # 4 correspondence -----------------------------------------------------------------
    import logging as _logging

    _logging.disable(_logging.CRITICAL)     # pass 1 configuration: nothing is enabled (see the oracle stage)
    corr = {"disagreements": []}
    if driver_ok:
        try:
            corr = mod.correspondence(ctx)
        except Exception as e:  # noqa: BLE001
            crash = impl_crash(e)
            if crash is None:
                raise
            # an exception escaping from the implementation where the harness (validated on the unchanged tree)
            # expects none: the code no longer behaves like the model at this call - the tie is broken
            corr = {"disagreements": [{"input": "harness call into the implementation", "model": "returns",
                                       "impl": crash}], "evaluations": 0}
        for k in ("evaluations", "distinct_nontrivial", "rule", "samples", "exhaustive", "branches", "distribution"):
            if k in corr:
                cov[k] = corr[k]
        cov["correspondence_disagreements"] = len(corr["disagreements"])
        if corr["disagreements"]:
            broken.append(
                {
                    "kind": "correspondence-broken",
                    "detail": corr["disagreements"][:5],
                    "count": len(corr["disagreements"]),
                }
            )
    else:
        ctx.note("driver not available: correspondence skipped")

    # 5 oracle / failing-input search --------------------------------------------------------
    findings = C.load_findings(prop)
    def run_oracle():
        try:
            return mod.oracle(ctx, corr.get("disagreements", []), bool(broken))
        except Exception as e:  # noqa: BLE001
            crash = impl_crash(e)
            if crash is None:
                raise
            broken.append({"kind": "oracle-crashed-in-implementation", "detail": crash})
            return []

    # The application's logging configuration is part of "every configuration": the correspondence and the first
    # oracle pass run with logging switched off (what a production deployment above DEBUG sees); when that pass
    # finds nothing new, the oracle runs once more with every logger at DEBUG and a handler that formats each
    # record (what the repository's own test fixtures use), so log statements and isEnabledFor() guards execute.
    failures = run_oracle()
    cov["oracle_logging_modes"] = ["disabled"]
    known_sigs = {k["signature"] for k in findings}
    if os.environ.get("VERIF_LOGMODE", "both") == "both" and all(f["signature"] in known_sigs for f in failures):
        stats_a = getattr(ctx, "oracle_stats", {})
        with debug_logging():
            more = run_oracle()
        cov["oracle_logging_modes"].append("debug")
        cov["oracle_debug_pass"] = getattr(ctx, "oracle_stats", {})
        ctx.oracle_stats = stats_a
        have = {f["signature"] for f in failures}
        for f in more:
            if f["signature"] not in known_sigs:
                f = dict(f, logging="DEBUG")
            if f["signature"] not in have or f["signature"] not in known_sigs:
                failures.append(f)
    cov["oracle"] = getattr(ctx, "oracle_stats", {})
    known, unknown = [], []
    for f in failures:
        hit = [k for k in findings if k["signature"] == f["signature"]]
        (known if hit else unknown).append(f)
    reproduced = sorted({f["signature"] for f in known})
    cov["known_findings_reproduced"] = reproduced
    for k in findings:
        if k["signature"] in reproduced:
            print(f"KNOWN-FINDING: property={prop} {k['signature']}: {k['what']}")
        else:
            ctx.note(f"open finding {k['signature']} did not reproduce in this run")

    rc = 0
    nrep = 0
    if unknown:
        # group by signature: one replay per distinct signature (first = smallest found)
        seen = {}
        for f in unknown:
            seen.setdefault(f["signature"], f)
        for sig, f in seen.items():
            nrep += 1
            path = C.write_replay(
                prop,
                nrep,
                {
                    "property": prop,
                    "kind": "impl-violation",
                    "seed": ctx.seed,
                    "tier": ctx.tier,
                    "signature": sig,
                    "what": f.get("what"),
                    "input": f.get("input"),
                    "expected": f.get("expected"),
                    "observed": f.get("observed"),
                    "how_to_run": f"./check {prop} --replay <this file>",
                    "broken": broken,
                },
            )
            print(f"VIOLATION property={prop} replay={path}")
        rc = 1
    elif broken:
        nrep += 1
        path = C.write_replay(
            prop,
            nrep,
            {
                "property": prop,
                "kind": broken[0]["kind"],
                "seed": ctx.seed,
                "tier": ctx.tier,
                "no_longer_checks": broken,
                "theorems": theorems,
                "note": "the proof obligations / the model-code correspondence named here no longer check "
                "and the search found no input on which the implementation violates the property",
                "how_to_run": f"./check {prop} --tier {ctx.tier}",
            },
        )
        print(f"VIOLATION property={prop} replay={path} no-failing-input-found")
        rc = 1
    ev["violations"] = nrep if rc else 0
    cov["broken"] = broken
    print(
        f"{prop} {ctx.tier}: obligations={cov['obligations']} discharged={cov['discharged']} "
        f"corr_evals={cov.get('evaluations', 0)} disagreements={cov.get('correspondence_disagreements', 0)} "
        f"oracle_failures={len(failures)} (known {len(known)}) -> exit {rc} in {ctx.elapsed():.1f}s"
    )
    return rc


class _FormatAndDrop(__import__("logging").Handler):
    def emit(self, record):
        self.format(record)


class debug_logging:
    """every logger at DEBUG, each record formatted and dropped; logging.disable() made a no-op meanwhile"""

    def __enter__(self):
        import logging

        self.lg = logging
        self.saved = (logging.disable, logging.root.manager.disable, logging.root.level, list(logging.root.handlers))
        logging.disable(logging.NOTSET)
        logging.disable = lambda *a, **k: None
        self.h = _FormatAndDrop()
        logging.root.handlers = [self.h]
        logging.root.setLevel(logging.DEBUG)
        return self

    def __exit__(self, *exc):
        lg = self.lg
        lg.disable = self.saved[0]
        lg.root.handlers = self.saved[3]
        lg.root.setLevel(self.saved[2])
        lg.disable(self.saved[1])
        return False


def generated_used_by(modules):
    """names (without .lean) of the lean/AsyncFix/Generated files in the import closure of the given Lean modules"""
    import re

    seen, todo, gen = set(), [m for m in modules if m != "driver"], set()
    while todo:
        m = todo.pop()
        if m in seen:
            continue
        seen.add(m)
        path = os.path.join(C.LEAN, m.replace(".", "/") + ".lean")
        if not os.path.exists(path):
            continue
        for imp in re.findall(r"^import\s+([A-Za-z0-9_.]+)", open(path).read(), re.M):
            if imp.startswith("AsyncFix.Generated."):
                gen.add(imp.split(".")[-1])
            if imp.startswith("AsyncFix.") or imp.startswith("Driver"):
                todo.append(imp)
    return gen


def impl_crash(e):
    """traceback text if the exception was raised by code of the implementation under test (innermost frame in
    $VERIF_REPO/asyncfix), else None (= a defect of the harness itself: infrastructure error, exit 2)"""
    import traceback

    tb = traceback.extract_tb(e.__traceback__)
    root = os.path.realpath(os.path.join(os.environ.get("VERIF_REPO", "/repo"), "asyncfix")) + os.sep
    where = " | " + " <- ".join(f"{os.path.basename(f.filename)}:{f.lineno}:{f.name}" for f in reversed(tb[-6:]))
    if tb and os.path.realpath(tb[-1].filename).startswith(root):
        return "raised " + type(e).__name__ + ": " + str(e)[:300] + where
    if isinstance(e, (OSError, RuntimeError, MemoryError, ImportError, SyntaxError)):
        return None         # infrastructure: driver / file system / build - exit 2
    # The harness is validated on the unchanged tree (many seeds, both tiers) without ever raising. When its own
    # bookkeeping trips over a value the implementation returned (None where a string is always returned, a
    # missing key, ...), the implementation has left the behaviour the comparison is written for: the tie can no
    # longer be evaluated, which is reported like any other broken correspondence - not as an infrastructure error.
    return "harness could not evaluate the implementation's answer: " + type(e).__name__ + ": " + str(e)[:300] + where


def tail_errors(log):
    lines = [l for l in log.split("\n") if l.strip()]
    errs = [l for l in lines if "error" in l.lower()]
    return "\n".join((errs[:15] + ["..."] + lines[-15:]) if errs else lines[-30:])


def do_replay(ctx, mod, path):
    with open(path if os.path.isabs(path) else os.path.join(C.VERIF, path)) as f:
        rp = json.load(f)
    if rp.get("kind") != "impl-violation":
        print("replay names broken proof obligations / correspondence; re-running the whole check")
        return main([ctx.prop, "--tier", rp.get("tier", "quick")])
    still = mod.replay(ctx, rp)
    if still:
        print(f"VIOLATION property={ctx.prop} replay={path}")
        return 1
    print(f"{ctx.prop}: replay {path} no longer fails")
    return 0


if __name__ == "__main__":
    sys.exit(main())
