"""C12 – the heartbeat watchdog detects dead peers and spares live ones.  DESIGN.md §6 C12.

tie:    whole scenarios under a virtual clock (multiples of 125 ms): a scripted peer (arrival patterns of
        the property's quantifier) x heartbeat interval x tick grid (gap pattern, phase) – every scenario is
        a history of tick / recv events applied to ONE real AsyncFIXConnection (harness.sess_common.Impl:
        the REAL heartbeat_timer_task coroutine runs one iteration per tick under the patched clock, the
        REAL _process_message handles every inbound frame) and, step by step from the same pre-state, to
        the Lean session model (`sess.step`); effects (frames with their virtual SendingTime, hooks,
        socket close) and complete post-states are compared after every event.
oracle: the sentences of C12 with explicit slack, evaluated on the implementation's time line only
        (never calls the model): TestRequest at the first tick at or after a + h (so by a + h + delta) after the last arrival a; a TestRequest
        unanswered for 2h (and no frame for 2h) is dropped at the next tick; a silent peer is
        disconnected by a + 3h + 2*delta; a watchdog disconnect needs a TestRequest that stayed unanswered
        for more than 2h - 1 s (liveness by echo) and no valid frame within the last 2h s (liveness by
        traffic - judged separately and in EVERY connected state, e.g. RESENDREQ_AWAITING during a replay; "valid" =
        carrying the expected MsgSeqNum; was known finding C12-traffic-does-not-answer-testrequest until fix e3d9663); echo of inbound TestRequests; at most one outstanding; wrong id =>
        Logout + disconnect; missing id ignored.
"""
from __future__ import annotations

import glob
import json
import os
import random

from . import common as C
from . import sess_common as S

PROP = "C12"
PROPS_MODULES = ["AsyncFix.Props.C12"]
FINDINGS_MODULE = "AsyncFix.Findings.C12"
ASSUMPTIONS = [
    "time is the patched clock: time.time() = now_ms/1000 with now_ms a multiple of 125 (exact floats); "
    "real scheduling delay of the timer task enters only through delta = the largest gap between two ticks "
    "(asyncio.sleep(1.0) returns after 1 s + jitter); ticks and inbound frames are atomic events, interleaved "
    "in every order the scenario grid produces (a frame arriving at the instant of a tick is tried both ways)",
    "the clock is past 1970-01-01 00:00:01 (a TestReqID of 0 is falsy in the loop: Findings/C12 id_zero_watchdog_stuck)",
    "inbound frames are 'benign' in the liveness theorems: integrity-valid, carrying exactly the expected MsgSeqNum, "
    "not Logon / Logout / SequenceReset / ResendRequest (those change the connection state: C11, C04-C06)",
    "testreq_sent / testrequest_echoed / wrong_id_logout assume the frame can be sent (encodable as latin-1, no "
    "journal row under the next outbound number - C05's invariant); dead_peer_disconnected and both liveness "
    "theorems need no such assumption (a failed send still records the id / is swallowed)",
    "application hooks (on_state_change, on_disconnect, on_message) return normally",
    "every duration in C12 is read on the connection's own clock, time.time(): 'within the allowed time' = before a "
    "tick at which time.time() exceeds the time of the probe's SENDING by more than 2h (and nothing valid arrived for "
    "2h on that clock). A clock step or a starved timer task that makes that much clock time pass while a probe is "
    "outstanding costs the peer its time - dropping it then is consistent with the property; what must never happen is "
    "a teardown in the very tick that sends the probe, or with nothing outstanding while a frame arrived within 2h. "
    "A teardown is judged premature only if the peer had less than its time on BOTH clocks (time.time() and real "
    "elapsed time): after a BACKWARDS step a later frame stamps an earlier _message_last_time than the probe did, and "
    "the 'message last time' test may then drop a peer whose probe looks young on the stepped clock although more than "
    "2h have really passed (observed on the clean tree, h = 5, clock stepped back 15 s while a probe was outstanding) "
    "- consistent with the property. "
    "The step theorems (no_outstanding_tick_never_disconnects, outstanding_tick, live_peer_spared) hold for ANY tick "
    "times - forwards jumps, backwards steps, a standing clock; only the 'how soon' bounds (testreq_sent, "
    "dead_peer_disconnected) assume tick gaps <= delta. The scenarios feed such clocks: one gap of h+1 .. 100h at the "
    "first tick / around the probe / anywhere, clock steps of the same sizes forwards and backwards, a standing clock",
    "the heartbeat interval is the constructor's heartbeat_period, an integer number of seconds in the model and the "
    "theorems (every h >= 1); the library never adopts the HeartBtInt(108) of the peer's Logon (an acceptor echoes it "
    "back but watches with its own configured period) - a deviation from FIX noted in the report, not a C12 violation; "
    "non-integer periods (1.5, 2.5, 7.25 s) are covered by the implementation-only oracle",
]
MODELLED_NOT_VERIFIED = [
    "C12: the session model (lean/AsyncFix/Model/Session*.lean) is hand-written from asyncfix/connection.py and tied to "
    "it by the step-by-step scenario comparison of this check plus the single-step table of the session family",
    "C12: which thread of control runs when (timer task vs. reader task) is not modelled beyond atomic events; "
    "suspension inside send_msg (drain) is the subject of C14",
    "C12: the model takes DECODED frames; reassembly of frames from socket reads (Codec.decode on a growing buffer, "
    "C03's subject) is outside the theorems and is tied in by the byte transport of this check: a fifth of the scenarios "
    "feed the frames' bytes through the real socket_read_task in reads of at most 4096 / 1500 / 700 bytes, with "
    "application frames of 100 B .. 70 KiB, against an independent framing on the harness side",
]

T0 = S.T0
HS = [1, 2, 3, 5, 30, 60, 3600]   # 60 / 3600: coarse tick grids (8 ticks per interval)
WRONG_TEXT = "Invalid TestRequest(TestReqID) received"


# ------------------------------------------------------------------------------------------
# scenario specs (plain JSON-able dicts) and the scripted peer
# ------------------------------------------------------------------------------------------
def make_spec(h, peer, gaps, phase, t0_off=0, tie="tick", role=1, counters=(5, 7), journal="empty", horizon=None):
    """gaps: list of tick-to-tick distances in ms, cycled; phase: first tick at t0 + phase."""
    delta = max(max(gaps), phase)
    if horizon is None:
        horizon = int((3 * h + 2) * 1000) + 3 * delta
    return {"h": h, "peer": peer, "gaps": list(gaps), "phase": phase, "t0_off": t0_off, "tie": tie,
            "role": role, "counters": list(counters), "journal": journal, "horizon": horizon}


def spec_delta(spec):
    return max([max(spec["gaps"]), spec["phase"]] + [abs(ms) for _k, _kind, ms in spec.get("clock", [])])


def stamp_of(now_ms):
    return S.stamp(now_ms)


ADMIN = ("0", "1", "2", "4", "5", "A")


class Peer:
    """the counterparty, with its OWN outbound counter: decides from the frames the connection writes what
    arrives when, and numbers what it sends itself.

    base kinds: silent | periodic | burst | answer | prober | gap; options common to all kinds:
      answer: None | {"delay": ms, "flavour": right|wrong|missing|nonnum, "stop_after": k|None, "num": NUM,
                      "cross": REL|None, "cross_delay": ms}   cross: the peer probes us too when it sees our probe (two
                      idle asyncfix-like peers on the same interval: both ids are int(time.time()))
      extras: [[t_off_ms, ACTION], ...]  extra events at fixed times, whatever the base behaviour is
      serve:  how our ResendRequest is served: "gapfill" (one SequenceReset-GapFill up to the peer's counter,
              default) | "replay" (lost application frames again as PossDup, `pace` ms apart, the rest
              gap-filled) | "never";  serve_delay: ms
    NUM (numbering relation of a frame): "new" (the peer's next number) | "gap:k" (k numbers were lost on the
      way: the frame arrives k too high) | "dup" (the previous frame again, PossDupFlag=Y: too low).
    ACTION: {"op": "frame", "mtype", "body", "num": NUM} | {"op": "skip", "k"} |
            {"op": "treq", "id": REL, "num": NUM}  (the peer's own TestRequest; REL = value of its TestReqID relative to
               OUR state: "ours" = the id of our last TestRequest (outstanding or just cleared), "now" = int(time.time())
               - what another asyncfix would send -, "0", "absent", "abc", "long") |
            {"op": "rr", "rel": "valid"|"high"|"zero"}  (a ResendRequest for numbers we did / never sent).
    periodic: "nums": [NUM, ...] cycled over its frames.  gap: a frame `k` too high at t0+start (= "gap:k")."""

    def __init__(self, spec, t0):
        p = spec["peer"]
        self.p, self.h, self.t0 = p, spec["h"], t0
        self.queue = []  # (due, order, action)
        self.n = 0
        self.answered = 0
        self.pseq = spec["counters"][0]          # next number for a new frame
        self.our_top = spec["counters"][1] - 1   # highest MsgSeqNum seen from the connection
        self.sent = {}                           # seq -> (mtype, body) of what the peer has sent / lost
        self.last = None
        self.horizon = t0 + spec["horizon"]
        self.pads, self.npad = p.get("pads"), 0   # sizes of the Text(58) of the application frames, cycled
        self.our_tid = None                       # TestReqID of the last TestRequest seen from the connection
        k = p["kind"]
        if k == "periodic":
            t, i, nums = t0 + p["period"], 0, p.get("nums", ["new"])
            while t <= self.horizon:
                mt = p.get("mtype", "0")
                self.frame(t, mt, [(58, "tick")] if mt != "0" else [], nums[i % len(nums)])
                t += p["period"]
                i += 1
        elif k == "burst":
            for i in range(p["n"]):
                self.frame(t0 + p["start"] + i * 125, p.get("mtype", "D"), [(11, f"b{i}")])
        elif k == "prober":
            t, i, nums = t0 + p["period"], 0, p.get("nums", ["new"])
            while t <= self.horizon:
                if p.get("id_rel"):
                    self._push(t, {"op": "treq", "id": p["id_rel"], "num": nums[i % len(nums)]})
                else:
                    self.frame(t, "1", [(112, f"PEER{i}")] if p.get("with_id", True) else [], nums[i % len(nums)])
                t += p["period"]
                i += 1
        elif k == "gap":
            self.frame(t0 + p["start"], "D", [(11, "live")], f"gap:{p['k']}")
            if p.get("noise"):
                t = t0 + p["start"] + p["noise"]
                while t <= self.horizon:
                    self.frame(t, "0", [])
                    t += p["noise"]
        for off, act in p.get("extras", []):
            self._push(t0 + off, dict(act))

    def _push(self, due, action):
        self.n += 1
        self.queue.append((due, self.n, action))
        self.queue.sort(key=lambda q: (q[0], q[1]))

    def frame(self, due, mtype, body, num="new"):
        self._push(due, {"op": "frame", "mtype": mtype, "body": list(body), "num": num})

    def emit(self, now, act):
        """resolve an action at the moment it happens -> (mtype, body, seq) or None (nothing is sent)"""
        op = act["op"]
        if op == "skip":
            self._lose(act["k"])
            return None
        if op == "treq":
            rel = act["id"]
            tid = {"ours": self.our_tid or str(now // 1000), "now": str(now // 1000), "0": "0", "abc": "abc",
                   "latin1": "id\xe9\xff", "long": "9" * 60, "absent": None}[rel]
            act = {"op": "frame", "mtype": "1", "body": [] if tid is None else [(112, tid)], "num": act.get("num", "new")}
            op = "frame"
        if op == "rr":
            b = {"valid": max(1, self.our_top - 1), "high": self.our_top + 1, "zero": 0}[act["rel"]]
            act = {"op": "frame", "mtype": "2", "body": [(7, str(b)), (16, "0")], "num": "new"}
        if op == "fill":
            if self.pseq <= act["begin"]:
                return None
            return ("4", [(123, "Y"), (43, "Y"), (122, stamp_of(now)), (36, str(self.pseq))], act["begin"])
        if op == "resend":
            mt, body = self.sent[act["seq"]]
            return (mt, [(43, "Y"), (122, stamp_of(now))] + list(body), act["seq"])
        num = act.get("num", "new")
        if num == "dup":
            if self.last is None:
                return None
            seq, mt, body = self.last
            return (mt, [(43, "Y"), (122, stamp_of(now))] + [f for f in body if f[0] not in (43, 122)], seq)
        if num.startswith("gap:"):
            self._lose(int(num[4:]))
        seq = self.pseq
        self.pseq += 1
        if self.pads and act["mtype"] == "D":
            size = self.pads[self.npad % len(self.pads)]
            self.npad += 1
            act = dict(act, body=[f for f in act["body"] if f[0] != 58] + [(58, "p" * size)])
        self.sent[seq] = (act["mtype"], list(act["body"]))
        self.last = (seq, act["mtype"], list(act["body"]))
        return (act["mtype"], list(act["body"]), seq)

    def _lose(self, k):
        for _ in range(k):   # k application frames that never arrive
            self.sent[self.pseq] = ("D", [(11, f"lost{self.pseq}")])
            self.pseq += 1

    def saw_frame(self, now, mtype, fields):
        fd = dict(fields)
        if fd.get(43) == "Y":
            return  # a retransmission
        if 34 in fd:
            self.our_top = max(self.our_top, int(fd[34]))
        if mtype == "2":
            self._serve(now, int(fd[7]))
            return
        a = self.p.get("answer")
        if mtype == "1":
            self.our_tid = fd.get(112)
        if mtype == "1" and a:
            if a.get("cross"):
                self._push(now + a.get("cross_delay", 0), {"op": "treq", "id": a["cross"]})
            if a.get("stop_after") is not None and self.answered >= a["stop_after"]:
                return
            self.answered += 1
            tid = fd.get(112, "0")
            fl = a.get("flavour", "right")
            if fl == "right":
                body = [(112, tid)]
            elif fl == "wrong":
                body = [(112, str(int(tid) + 1))]
            elif fl == "nonnum":
                body = [(112, "abc")]
            else:
                body = []
            self.frame(now + a["delay"], "0", body, a.get("num", "new"))

    def _serve(self, now, b):
        mode = self.p.get("serve", "replay" if self.p["kind"] == "gap" else "gapfill")
        if self.p.get("replay") is False:
            mode = "never"
        pace = self.p.get("pace", 125)
        t = now + self.p.get("serve_delay", pace)
        if mode == "never":
            return
        if mode == "gapfill":
            self._push(t, {"op": "fill", "begin": b})
            return
        n = b
        one_fill = self.p.get("gapfill")
        while n < self.pseq:
            mt = self.sent.get(n, ("0", []))[0]
            if mt in ADMIN or (one_fill and n == b + 1 and n + 1 < self.pseq):
                # administrative frames (and, with "gapfill", one pair of numbers) are gap-filled, not resent
                m = n + 1
                if one_fill and n == b + 1:
                    m = n + 2
                else:
                    while m < self.pseq and self.sent.get(m, ("0", []))[0] in ADMIN:
                        m += 1
                self._push(t, {"op": "fillto", "begin": n, "to": m})
                n = m
            else:
                self._push(t, {"op": "resend", "seq": n})
                n += 1
            t += pace
        if self.p["kind"] == "gap" and self.p.get("then", "heartbeat") == "heartbeat":
            while t <= self.horizon:
                self.frame(t, "0", [])
                t += pace

    def next_due(self):
        return self.queue[0][0] if self.queue else None

    def pop(self):
        return self.queue.pop(0)


class _ByteLog(S._Log):
    """logger for the byte mode: an exception logged by socket_read_task itself is one that ESCAPED
    `_process_message` (the model's `raised`), everything else is a swallowed one (`caught`)"""

    def exception(self, *a, **k):
        import sys
        kind = S.exc_kind(sys.exc_info()[0])
        self.eff.append(("R" if C.log_origin() == "task" else "C", kind))


def feed_bytes(impl, ev, chunk, pre, cur):
    """byte mode: the frame of `ev` reaches the REAL socket_read_task as reads of at most `chunk` bytes (one task
    iteration per read: read -> buffer -> Codec.decode -> _process_message).  Yields one time-line step per read:
    kind "chunk" for a read that cannot complete the frame, "recv" (with the frame) for the one that does."""
    now, (mtype, fields) = ev[1], ev[2]
    raw = S.fields_to_bytes(fields)
    c = impl.conn
    parts = [raw[i:i + chunk] for i in range(0, len(raw), chunk)]
    for i, part in enumerate(parts):
        if c._socket_reader is None:
            break
        del impl.eff[:]
        impl.now_ms, impl.declined = now, None
        c._socket_reader = S._Reader([part])
        try:
            S.run_coro(c.socket_read_task())
        except S._Done:
            pass
        if c._socket_reader is not None:
            c._socket_reader = object()
        eff, post = impl.effects(), impl.dump()
        nxt = parse_post(post)
        last = i == len(parts) - 1
        yield {"t": now, "kind": "recv" if last else "chunk", "ev": ev if last else ("chunk", now, len(part)),
               "pre": pre, "eff": eff, "post": post, "a_pre": cur, "a_post": nxt, "bytes": len(raw)}
        pre, cur = post, nxt


def run_scenario(impl: S.Impl, spec):
    saved = impl.conn.log
    if spec.get("bytes"):
        impl.conn.log = _ByteLog(impl.eff)
    try:
        return _run_scenario(impl, spec)
    finally:
        impl.conn.log = saved


def parse_post(post):
    """S.parse_conn_tokens, tolerating a non-integer heartbeat period (oracle-only configurations)"""
    t = post.split(" ")
    try:
        int(t[10])
        return S.parse_conn_tokens(post)
    except ValueError:
        hb = float(t[10])
        a = S.parse_conn_tokens(" ".join(t[:10] + ["0"] + t[11:]))
        a.hb = hb
        return a


def _run_scenario(impl: S.Impl, spec):
    """run one scenario on the REAL connection.  Returns the time line: list of dicts
    {t, kind, ev, pre, eff, post, a_pre, a_post} (pre/post = canonical state tokens)."""
    h = spec["h"]
    t0 = T0 + spec["t0_off"]
    ni, no = spec["counters"]
    # "last0": the connection has never stamped a receive time (_message_last_time = 0.0, which is falsy)
    a = S.AbsConn(state=17, role=spec["role"], was_active=True, next_in=ni, next_out=no,
                  last_time=0 if spec.get("last0") else t0, hb=h, sock=True,
                  max_resend=spec.get("max_resend", 0),
                  sender="S" if spec["role"] == 1 else "A", target="T" if spec["role"] == 1 else "I")
    a = S.with_journal(a, spec["journal"])
    a.state = spec.get("state", 17)   # 10 RESENDREQ_HANDLING / 11 RECV_SEQNUM_TOO_HIGH / 12 RESENDREQ_AWAITING
    impl.load(a)
    peer = Peer(spec, t0)      # the peer lives in MONOTONIC scenario time
    gaps, gi = spec["gaps"], 0
    next_tick = t0 + spec["phase"]
    for k_, kind_, ms_ in spec.get("clock", []):
        if k_ == 0 and kind_ == "stall":
            next_tick = t0 + ms_
    end = t0 + spec["horizon"]
    # the connection's clock: time.time() = monotonic time + offset.  spec["clock"] = [[k, kind, ms], ...]:
    #   "stall": the k-th watchdog tick comes `ms` after the previous one instead of the grid's gap (timer task
    #            starved / host suspended: one tick gap of h+1 .. 100h);  "step": from the k-th tick on the clock
    #            shows `ms` more (negative: it was stepped backwards);  "still": the k-th tick reads the same time as
    #            the previous one (the clock stands still across ticks)
    clock = {}
    for k_, kind_, ms_ in spec.get("clock", []):
        clock.setdefault(k_, []).append((kind_, ms_))
    offset, prev_tick_wall = 0, None
    line = []
    pre = impl.dump()
    cur = a
    after_down = 0
    while True:
        due = peer.next_due()
        if due is not None and (due < next_tick or (due == next_tick and spec["tie"] == "recv")):
            mono, _, act = peer.pop()
            if mono > end:
                break
            now = mono + offset
            if act["op"] == "fillto":
                out = ("4", [(123, "Y"), (43, "Y"), (122, stamp_of(now)), (36, str(act["to"]))], act["begin"])
            else:
                out = peer.emit(now, act)
            if out is None:
                continue
            mtype, body, seq = out
            ev = ("recv", now, S.inbound(cur, mtype, body, seq=seq, now_ms=now))
            kind = "recv"
            if spec.get("bytes"):
                if cur.sock:   # a closed transport delivers nothing
                    for step in feed_bytes(impl, ev, spec["bytes"]["chunk"], pre, cur):
                        step["mono"] = mono
                        line.append(step)
                        for e in step["eff"]:
                            if e.startswith("W="):
                                mt, fs = S.parse_msg_tok(e[2:])
                                peer.saw_frame(mono, mt, fs)
                        pre, cur = step["post"], step["a_post"]
                if cur.state <= 3 or not cur.sock:
                    after_down += 1
                    if after_down > 2:
                        break
                continue
        else:
            mono = next_tick
            if mono > end:
                break
            for kind_, ms_ in clock.get(gi, []):
                if kind_ == "step":
                    offset += ms_
                elif kind_ == "still" and prev_tick_wall is not None:
                    offset = prev_tick_wall - mono
            now = mono + offset
            prev_tick_wall = now
            ev = ("tick", now)
            kind = "tick"
            gap = gaps[gi % len(gaps)]
            for kind_, ms_ in clock.get(gi + 1, []):
                if kind_ == "stall":
                    gap = ms_
            next_tick += gap
            gi += 1
        del impl.eff[:]
        impl.apply("all", ev)
        eff, post = impl.effects(), impl.dump()
        nxt = parse_post(post)
        line.append({"t": now, "mono": mono, "kind": kind, "ev": ev, "pre": pre, "eff": eff, "post": post, "a_pre": cur,
                     "a_post": nxt})
        for e in eff:
            if e.startswith("W="):
                mt, fs = S.parse_msg_tok(e[2:])
                peer.saw_frame(mono, mt, fs)
        pre, cur = post, nxt
        if cur.state <= 3 or not cur.sock:
            after_down += 1
            if after_down > 2:
                break
    return line


# ------------------------------------------------------------------------------------------
# scenario grid
# ------------------------------------------------------------------------------------------
def peers_for(h):
    """arrival patterns of the property's quantifier for interval h (seconds)"""
    H = h * 1000
    out = [{"kind": "silent"}]
    # periodic below / at / above the interval (Heartbeats or application traffic), not answering TestRequests
    periods = sorted({max(125, (h - 1) * 1000 - 125), max(125, (h - 1) * 1000), max(250, H - 125), H, H + 125,
                      H + H // 2, 2 * H, 2 * H + 125, max(125, H // 2)})
    for p in periods:
        out.append({"kind": "periodic", "period": p, "mtype": "0"})
        out.append({"kind": "periodic", "period": p, "mtype": "D"})
        out.append({"kind": "periodic", "period": p, "mtype": "0", "answer": {"delay": 125, "flavour": "right"}})
    # bursts then silence
    for n in (1, 3):
        for start in (125, H // 2, H):
            out.append({"kind": "burst", "n": n, "start": start, "mtype": "D"})
            out.append({"kind": "burst", "n": n, "start": start, "mtype": "0",
                        "answer": {"delay": 250, "flavour": "right", "stop_after": 1}})
    # answers delayed by 0 .. 2 intervals (and a bit more)
    delays = sorted({0, 125, H // 2, H - 125, H, H + H // 2, max(0, 2 * H - 2000), max(0, 2 * H - 1125),
                     max(0, 2 * H - 1000), 2 * H - 875, 2 * H - 125, 2 * H, 2 * H + 125, 2 * H + 1000})
    for d in delays:
        out.append({"kind": "answer", "answer": {"delay": d, "flavour": "right"}})
    for d in (0, 125, H // 2, H, 2 * H - 125):
        for fl in ("wrong", "missing", "nonnum"):
            out.append({"kind": "answer", "answer": {"delay": d, "flavour": fl}})
    out.append({"kind": "answer", "answer": {"delay": 125, "flavour": "right", "stop_after": 1}})
    out.append({"kind": "answer", "answer": {"delay": 125, "flavour": "right", "stop_after": 2}})
    # the peer probes us
    out.append({"kind": "prober", "period": max(250, H // 2), "with_id": True, "answer": {"delay": 125, "flavour": "right"}})
    out.append({"kind": "prober", "period": max(250, H // 2), "with_id": False})
    # a sequence gap, then the replay of the missing frames at various paces (RESENDREQ_AWAITING in between)
    for pace in sorted({max(125, (2 * H) // 5 - ((2 * H) // 5) % 125), max(125, (4 * H) // 5 - ((4 * H) // 5) % 125),
                        H + H // 2, 2 * H - 125, 2 * H, 2 * H + 125, 2 * H + H // 2}):
        for k in (2, 4):
            out.append({"kind": "gap", "start": 250, "k": k, "pace": pace, "then": "heartbeat"})
        out.append({"kind": "gap", "start": H // 2 + 125 - (H // 2) % 125, "k": 3, "pace": pace, "then": "silent",
                    "gapfill": True})
    # ---- numbering relations: every frame kind arrives expected / too high (gap) / too low (PossDup duplicate)
    r125 = lambda x: max(125, x - x % 125)
    for num in ("gap:1", "gap:3", "dup"):
        for d in (125, r125(H // 2), H, max(125, 2 * H - 1125)):
            for fl in ("right", "wrong", "missing"):
                if fl != "right" and d != 125:
                    continue
                for serve in ("gapfill", "replay", "never"):
                    if serve != "gapfill" and (fl != "right" or d not in (125, H)):
                        continue
                    out.append({"kind": "answer", "answer": {"delay": d, "flavour": fl, "num": num}, "serve": serve,
                                "pace": r125(H // 2)})
    for nums in (["new", "new", "gap:1"], ["gap:2", "new", "new", "new"], ["new", "dup"], ["new", "gap:1", "dup"]):
        for per in (r125(H // 2), H, H + 125):
            for mt in ("0", "D"):
                out.append({"kind": "periodic", "period": per, "mtype": mt, "nums": nums})
            out.append({"kind": "periodic", "period": per, "mtype": "0", "nums": nums,
                        "answer": {"delay": 125, "flavour": "right"}, "serve": "replay", "pace": 125})
        out.append({"kind": "prober", "period": r125(H // 2), "with_id": True, "nums": nums,
                    "answer": {"delay": 125, "flavour": "right"}})
    # ---- inbound ResendRequests (for numbers we sent / never sent), lost frames, stray frames: as extra events on
    #      top of quiet-but-responsive, chatty and silent peers
    bases = [{"kind": "silent"}, {"kind": "answer", "answer": {"delay": 125, "flavour": "right"}},
             {"kind": "answer", "answer": {"delay": H, "flavour": "right"}},
             {"kind": "periodic", "period": H, "mtype": "0", "answer": {"delay": 250, "flavour": "right"}},
             {"kind": "periodic", "period": r125(H // 2), "mtype": "D"},
             {"kind": "gap", "start": 250, "k": 2, "pace": r125(H // 2), "then": "heartbeat",
              "answer": {"delay": 125, "flavour": "right"}}]
    acts = [{"op": "rr", "rel": "valid"}, {"op": "rr", "rel": "high"}, {"op": "rr", "rel": "zero"}, {"op": "skip", "k": 2},
            {"op": "frame", "mtype": "0", "body": [], "num": "gap:2"}, {"op": "frame", "mtype": "1", "body": [[112, "X"]], "num": "gap:1"},
            {"op": "frame", "mtype": "D", "body": [[11, "x"]], "num": "dup"}]
    for base in bases:
        for act in acts:
            for off in (250, r125(H // 2) + 125, H + 250, 2 * H + 375):
                b = json.loads(json.dumps(base))
                b["extras"] = [[off, act]]
                if act["op"] == "rr" and act["rel"] == "valid":
                    b["extras"] = [[off, act], [off + H + 125, {"op": "rr", "rel": "high"}]]
                out.append(b)
    # ---- the VALUE of the peer's TestReqID relative to our state, in every state (probe outstanding / not)
    for rel in ("ours", "now", "0", "absent", "abc", "latin1", "long"):
        for d in (125, H, 2 * H + 125):      # echo delay: our probe is outstanding for that long
            for cd in (0, 125, d + 125):      # the peer's own probe arrives with ours / before its echo / after it
                out.append({"kind": "answer", "answer": {"delay": d, "flavour": "right", "cross": rel, "cross_delay": cd}})
        out.append({"kind": "silent", "extras": [[(h - 1) * 1000 + 2250, {"op": "treq", "id": rel}]]})   # unanswered probe out
        out.append({"kind": "prober", "period": H, "id_rel": rel, "answer": {"delay": 125, "flavour": "right"}})
        out.append({"kind": "prober", "period": r125(H // 2), "id_rel": rel})
    out.append({"kind": "gap", "start": 250, "k": 2, "pace": H, "replay": False})                      # request ignored
    out.append({"kind": "gap", "start": 250, "k": 2, "pace": H, "replay": False, "noise": max(125, H // 2)})  # … but chatty
    return out


def state_variants(rng, h):
    """extra spec fields: connections that ARE in a non-ACTIVE logged-on state when the scenario starts"""
    return rng.choice([{"state": 12, "max_resend_off": 3}, {"state": 12, "max_resend_off": 1}, {"state": 10}, {"state": 11}])


GRIDS = [  # (gaps, label)
    [1000], [1125], [1000, 1250], [1875], [1000, 1000, 1500], [1250, 1000, 1125, 1875],
]


def all_specs(rng, n):
    """structured product, sampled down to n specs deterministically from rng"""
    specs = []
    for h in HS:
        for peer in peers_for(h):
            for gaps in (GRIDS if h < 60 else [[125 * h], [125 * h, 250 * h], [1000 * h - 125]]):
                step = gaps[0]
                for phase in sorted({125, 500, step // 2 + 125 - (step // 2) % 125, step - 125, step}):
                    specs.append((h, peer, gaps, phase))
    rng.shuffle(specs)
    # stratify: every (h, peer) pair appears before any pair repeats
    seen, first, rest = set(), [], []
    for s in specs:
        k = (s[0], json.dumps(s[1], sort_keys=True))
        (rest if k in seen else first).append(s)
        seen.add(k)
    chosen = (first + rest)[:n]
    out = []
    for i, (h, peer, gaps, phase) in enumerate(chosen):
        out.append(make_spec(h, peer, gaps, phase, t0_off=rng.choice([0, 125, 500, 875]),
                             tie=rng.choice(["tick", "recv"]), role=rng.choice([1, 2]),
                             counters=rng.choice([(5, 7), (1, 1), (12, 4), (2**32 + 3, 2**33 + 1)]),
                             journal=rng.choice(["empty", "empty", "app", "sess"])))
        # transport and size dimensions: every 5th scenario feeds BYTES through the real socket_read_task in reads of
        # at most `chunk` bytes; application frames get Text(58) of 100 B .. 70 KiB (also with the decoded transport)
        sends_app = peer.get("mtype") == "D" or peer["kind"] == "gap" or "D" in json.dumps(peer.get("extras", ""))
        if i % 5 == 1:
            out[-1]["bytes"] = {"chunk": rng.choice([4096, 4096, 1500, 700])}
        if sends_app and h <= 5 and i % 5 in (1, 2):
            # one or two large frames among small ones (every later step carries the journal: keep them few)
            out[-1]["peer"] = dict(peer, pads=rng.choice([[100], [100, 4096, 100, 100, 100], [100, 10240, 100, 100, 100, 100],
                                                            [9900, 100, 10100, 100, 100, 100], [100, 12000, 4000, 100, 100, 100]]))
            if h <= 2 and i % 25 in (1, 2):
                out[-1]["peer"]["pads"] = [100, 70000, 100, 100, 100, 100, 100, 100]
        # clock dimension: every 4th scenario has a tick gap that no small delta bounds (h+1 .. 100h, at the first
        # tick, around the probe, later), or a clock that is stepped forwards / backwards or stands still
        if i % 4 == 3:
            H_ = h * 1000
            nprobe = max(0, ((h - 1) * 1000 - phase) // gaps[0] + 1)     # index of the tick that probes a silent peer
            k = rng.choice([0, 1, nprobe, nprobe + 1, nprobe + 2, nprobe + 2 * (H_ // gaps[0]), rng.randrange(0, 3 * (H_ // gaps[0]) + 4)])
            J = rng.choice([H_ + 1000, H_ + 1125, 2 * H_, 2 * H_ + 125, 3 * H_, 100 * H_])
            kind = rng.choice(["stall", "stall", "step", "step", "back", "still"])
            if kind == "back":
                out[-1]["clock"] = [[max(1, k), "step", -rng.choice([125, 1000, H_, 2 * H_ + 125, 3 * H_])]]
            elif kind == "still":
                out[-1]["clock"] = [[max(1, k) + j, "still", 0] for j in range(rng.choice([1, 3]))]
            else:
                out[-1]["clock"] = [[k, kind, J]]
        if peer["kind"] in ("silent", "periodic", "burst") and not peer.get("answer") and i % 3 == 0:
            v = state_variants(rng, h)
            out[-1]["state"] = v["state"]
            if "max_resend_off" in v:
                out[-1]["max_resend"] = out[-1]["counters"][0] + v["max_resend_off"]
    return out


def corpus_specs():
    out = []
    for p in sorted(glob.glob(os.path.join(C.VERIF, "corpus", "session", "c12_*.json"))):
        with open(p) as f:
            d = json.load(f)
        for s in d["scenarios"]:
            out.append(s)
    return out


# ------------------------------------------------------------------------------------------
# correspondence
# ------------------------------------------------------------------------------------------
def outcome(line):
    tr = sum(1 for s in line for e in s["eff"] if e.startswith("W=") and S.parse_msg_tok(e[2:])[0] == "1")
    wd = any(s["kind"] == "tick" and "CS" in s["eff"] for s in line)
    lo = any(s["kind"] == "recv" and "CS" in s["eff"] for s in line)
    return f"testreq={min(tr, 3)}{'+' if tr > 3 else ''},{'watchdog-disconnect' if wd else ('logout' if lo else 'spared')}"


def correspondence(ctx):
    impl = S.Impl()
    drv = C.Driver()
    try:
        specs = corpus_specs() + all_specs(ctx.rng, ctx.n(600, 10000))
        runs, lines, index = [], [], []
        for si, spec in enumerate(specs):
            line = run_scenario(impl, spec)
            runs.append((spec, line))
            # stateful conversation per scenario (the pre-state is sent once: journals may hold 70 KiB frames)
            if line:
                lines.append("sess.load " + line[0]["pre"])
                index.append(None)
            for k, s in enumerate(line):
                if s["kind"] == "chunk":
                    continue   # part of a frame: expected = nothing happens (checked below without the driver)
                lines.append(f"sess.ev all {S.event_tokens(s['ev'])}")
                index.append((si, k))
        model = drv.batch(lines) if lines else []
        assert all(m == "ok" for m, ix in zip(model, index) if ix is None), "sess.load refused"
        model = [m for m, ix in zip(model, index) if ix is not None]
        index = [ix for ix in index if ix is not None]
        nev = len(index)
        nchunk = 0
        for si, (spec, line) in enumerate(runs):
            for k, s in enumerate(line):
                if s["kind"] == "chunk":
                    nchunk += 1
                    index.append((si, k))
                    model.append(S.reply([], s["pre"]))
    finally:
        impl.close()
    dis, bad = [], set()
    dist = {"h": {}, "peer": {}, "outcome": {}, "event": {}, "effect": {}, "start_state": {}, "tick_in_state": {},
            "transport": {}, "frame_bytes": {}, "clock": {}}

    def inc(d, k):
        dist[d][k] = dist[d].get(k, 0) + 1

    for (si, k), ml in zip(index, model):
        spec, line = runs[si]
        s = line[k]
        il = S.reply(s["eff"], s["post"])
        inc("event", s["kind"])
        if s["kind"] == "recv":
            n = s.get("bytes") or len(S.fields_to_bytes(s["ev"][2][1]))
            inc("frame_bytes", "<256" if n < 256 else "<4096" if n < 4096 else "<9999" if n <= 9999 else "<65536" if n < 65536 else ">=65536")
        if s["kind"] == "tick":
            inc("tick_in_state", str(s["a_pre"].state))
        for e in s["eff"] or ["(none)"]:
            inc("effect", e.split("=")[0])
        if il != ml and si not in bad:
            bad.add(si)
            dis.append({"input": {"scenario": spec, "step": k, "pre": s["pre"][:2000],
                                  "event": S.event_tokens(s["ev"])[:2000] if s["kind"] != "chunk" else f"chunk {s['ev'][2]} bytes"},
                        "model": ml, "impl": il})
    for spec, line in runs:
        inc("h", str(spec["h"]))
        inc("start_state", str(spec.get("state", 17)))
        inc("transport", f"bytes/{spec['bytes']['chunk']}" if spec.get("bytes") else "decoded")
        ck = spec.get("clock")
        inc("clock", "steady" if not ck else ("back" if ck[0][2] < 0 else ck[0][1]) + (":first-tick" if ck[0][0] == 0 else ""))
        p = spec["peer"]
        inc("peer", p["kind"] + ("+answer:" + p["answer"].get("flavour", "right") if p.get("answer") else ""))
        inc("outcome", outcome(line))
    ctx._c12_runs = runs
    samples = []
    for spec, line in runs[:: max(1, len(runs) // 4)][:4]:
        samples.append({"scenario": spec, "timeline": [[s["t"] - T0, s["kind"], [e.split("=")[0] for e in s["eff"]]]
                                                       for s in line if s["eff"]][:12]})
    return {
        "evaluations": nev + nchunk,
        "distinct_nontrivial": len({(s["pre"], S.event_tokens(s["ev"])) for _, l in runs for s in l if s["kind"] != "chunk"}),
        "rule": "scenarios = corpus + stratified sample of {h in 1,2,3,5,30,60,3600} x {arrival patterns: silent; periodic "
                "Heartbeat / application traffic below, at, above the interval, answering or not; bursts then silence; "
                "echo delayed 0..2 intervals (+); wrong / missing / non-numeric TestReqID; peer probing us; a sequence gap "
                "followed by the PossDup / GapFill replay at paces 0.4h..2.5h (RESENDREQ_AWAITING in between), the "
                "ResendRequest ignored with and without too-high chatter; connections starting in RESENDREQ_AWAITING / "
                "RESENDREQ_HANDLING / RECV_SEQNUM_TOO_HIGH; numbering relation of every frame kind (expected / gap = "
                "too high / PossDup duplicate = too low) for echoes, Heartbeats, TestRequests, application frames; "
                "the peer's own TestRequests with a TestReqID equal to our outstanding / last id, to int(time.time()) (two "
                "asyncfix-like peers crossing probes), 0, absent, non-numeric, 60 digits, before / with / after its echo; "
                "inbound ResendRequests (valid / for never-sent numbers), lost frames and stray frames as extra events on "
                "quiet-but-responsive, chatty and silent peers; the peer keeps its own counter and serves our "
                "ResendRequests by gap fill / replay / never} x {transport: decoded frames handed to "
                "_process_message | bytes through the real socket_read_task in reads of <= 4096 / 1500 / 700 bytes} x "
                "{application frame sizes 100 B .. 70 KiB} x {h also 60 and 3600 s on coarse tick grids} x {clock: steady | one tick gap of h+1 .. 100h "
                "(stall) at the first tick / around the probe / anywhere | the clock stepped forwards or backwards by "
                "such amounts | standing still across ticks} x {tick gap "
                "patterns 1000..1875 ms} x {phase of the grid relative to the last frame} x {sub-second offset of t0, "
                "tick-or-frame first on ties, role, counters, journal shape}; every event of every scenario is one "
                "evaluation (real coroutine vs. model from the same pre-state, effects with SendingTime + full "
                "post-state compared); distinct = distinct model inputs (state x event) among them",
        "samples": samples,
        "exhaustive": False,
        "distribution": dist,
        "scenarios": len(runs),
        "disagreements": dis,
    }


# ------------------------------------------------------------------------------------------
# oracle: the property's sentences on the implementation's time line
# ------------------------------------------------------------------------------------------
def frames(step):
    return [S.parse_msg_tok(e[2:]) for e in step["eff"] if e.startswith("W=")]


def judge(spec, line):
    """yield (signature, what, detail) for every clause of C12 the time line violates"""
    h, H = spec["h"], int(spec["h"] * 1000)
    delta = spec_delta(spec)
    t0 = T0 + spec["t0_off"]
    last_arrival = t0      # time of the last valid inbound frame (the scripted peer only sends valid ones)
    last_arrival_m = t0    # … in real (monotonic) time; differs from the clock's view only when the clock is stepped
    probe_due_from = t0    # start of the current "nothing received, none outstanding" period
    outstanding = None     # (id:str, t_sent) of the TestRequest not yet echoed
    attempted = False      # a probe was due but send_test_req() raised
    # the connection has asked for a resend (it wrote a ResendRequest) and the replay has not yet reached the number
    # that revealed the gap: while that lasts it is not expected to probe.  Tracked from the frames alone.
    awaiting = spec.get("max_resend") if spec.get("state") == 12 else None
    start_stuck = spec.get("state") in (10, 11)   # scenario starts in a state the code only passes through
    up = True
    for k, s in enumerate(line):
        t, eff = s["t"], s["eff"]
        tm = s.get("mono", t)
        # "the peer had less than X": on BOTH clocks (time.time() and real elapsed time) - a stepped clock must not
        # turn a peer that really had its time into a victim, nor the other way round
        within = lambda wall0, mono0, bound: max(t - wall0, tm - mono0) <= bound
        fr = frames(s)
        if not up:
            if eff and s["kind"] == "tick":
                yield ("C12-tick-after-disconnect", "the watchdog acts on a disconnected connection", {"step": k})
            continue
        disconnected = "CS" in eff or "DC" in eff
        if s["kind"] == "chunk":
            if eff:
                yield ("C12-partial-frame-acted-on", "a read that cannot complete a frame had effects", {"step": k})
            continue
        if s["kind"] == "tick":
            treqs = [f for f in fr if f[0] == "1"]
            if [f for f in fr if f[0] != "1"]:
                yield ("C12-tick-writes-other-frame", "a watchdog iteration wrote something else than a TestRequest", {"step": k})
            if len(treqs) > 1 or (treqs and outstanding):
                yield ("C12-second-testrequest", "a TestRequest was sent while one is outstanding", {"step": k, "t": t - t0})
            # sentence 1: TestRequest by a + h + delta, delta = distance to the next tick: the first tick at or after
            # a + h (which comes no later than a + h + delta) must find the TestRequest sent or send it
            if awaiting is None and not start_stuck and not outstanding and not treqs and not attempted \
                    and not any(e.startswith("R=") for e in eff) and t >= probe_due_from + H:
                yield ("C12-testrequest-late", f"nothing received since {probe_due_from - t0} ms, none outstanding, "
                       f"tick at {t - t0} ms >= h later and still no TestRequest", {"step": k})
            raised = any(e.startswith("R=") for e in eff)
            if raised and not treqs and not outstanding:
                attempted = True   # send_test_req() raised (journal / encoding): the id is recorded, no frame went out
            if treqs:
                tid = dict(treqs[0][1]).get(112)
                if tid != str(t // 1000):
                    yield ("C12-testreqid-not-time", "TestReqID is not int(time.time())", {"step": k, "id": tid})
                if t - last_arrival <= H - 1000:
                    yield ("C12-testrequest-early", "TestRequest although a frame arrived less than h - 1 s ago", {"step": k})
                outstanding = (tid, t, tm)
            if disconnected:
                # liveness by echo: a watchdog disconnect needs a TestRequest unanswered for more than 2h - 1 s
                if outstanding is None:
                    # legitimate only as "nothing valid for 2h" (e.g. the TestRequest could not be sent)
                    # … or the connection is not ACTIVE (awaiting / serving a resend): it never probes there
                    if within(last_arrival, last_arrival_m, 2 * H) or (awaiting is None and not start_stuck and not attempted):
                        yield ("C12-disconnect-nothing-outstanding", "the watchdog disconnected although no TestRequest "
                               "was unanswered", {"step": k, "t": t - t0})
                elif within(outstanding[1], outstanding[2], 2 * H - 1000):
                    yield ("C12-disconnect-before-deadline", "the watchdog disconnected although the TestRequest was sent "
                           f"only {t - outstanding[1]} ms ago (<= 2h - 1 s)", {"step": k})
                # liveness by traffic (judged separately): a valid frame within the last two intervals
                if within(last_arrival, last_arrival_m, 2 * H):
                    yield ("C12-traffic-does-not-answer-testrequest", "the watchdog disconnected a peer whose last valid "
                           f"frame arrived {t - last_arrival} ms ago (<= 2h): inbound traffic must count as a sign of "
                           "life even when a TestRequest stays unanswered (fix e3d9663)", {"step": k, "t": t - t0})
            else:
                # sentence 2: a TestRequest still unanswered 2h after it was sent => disconnected at that tick at the
                # latest (with sentence 1: a silent peer is disconnected by a + 3h + 2 delta, checked as well)
                if outstanding and t > outstanding[1] + 2 * H and t > last_arrival + 2 * H:
                    yield ("C12-unanswered-testrequest-not-dropped", f"TestRequest sent {t - outstanding[1]} ms ago (> 2h), "
                           f"no echo, last frame {t - last_arrival} ms ago (> 2h), and the connection is still up", {"step": k})
                if t > last_arrival + 3 * H + 2 * delta:
                    yield ("C12-dead-peer-not-disconnected", f"no frame for {t - last_arrival} ms > 3h + 2 delta and the "
                           "connection is still up", {"step": k})
        else:  # recv
            mtype, fields = s["ev"][2]
            fd = dict(fields)
            # "valid traffic" = a frame the connection can accept: it carries exactly the expected MsgSeqNum
            accepted = fd.get(34) == str(s["a_pre"].next_in)
            too_low = int(fd[34]) < s["a_pre"].next_in      # a duplicate: not this property's business (C04 / C11)
            rr = [f for f in fr if f[0] == "2"]             # our ResendRequest when the frame revealed a gap
            if rr and awaiting is None:
                awaiting = int(fd[34])
            fr = [f for f in fr if f[0] != "2"]
            if too_low:
                pass
            elif mtype == "1":
                hb = [f for f in fr if f[0] == "0"]
                want = fd.get(112, "0")
                if len(fr) != 1 or len(hb) != 1 or dict(hb[0][1]).get(112) != want:
                    yield ("C12-testrequest-not-echoed", "inbound TestRequest not answered by exactly one Heartbeat carrying "
                           "its TestReqID", {"step": k, "frames": [f[0] for f in fr]})
            elif mtype == "0" and outstanding and 112 in fd:
                try:
                    same = int(fd[112]) == int(outstanding[0])
                except ValueError:
                    same = False
                if same:
                    if fr or disconnected:
                        yield ("C12-echo-not-accepted", "the right echo caused a frame / disconnect", {"step": k})
                    if s["a_post"].test_req_id is not None:
                        yield ("C12-echo-does-not-clear", "the right echo left the TestReqID outstanding", {"step": k})
                    outstanding = None
                    if accepted:
                        probe_due_from = t
                else:
                    lo = [f for f in fr if f[0] == "5"]
                    if not (len(lo) == 1 and dict(lo[0][1]).get(58) == WRONG_TEXT and "CS" in eff and "DC" in eff
                            and s["a_post"].state == 3):
                        yield ("C12-wrong-id-no-logout", "a Heartbeat echoing a wrong TestReqID did not end the session with "
                               "a Logout", {"step": k, "effects": [e.split('=')[0] for e in eff]})
                        if s["a_post"].test_req_id is None:
                            outstanding = None
            elif mtype == "0" and outstanding and 112 not in fd:
                if fr or disconnected or s["a_post"].test_req_id is None:
                    yield ("C12-heartbeat-without-id-not-ignored", "an interval Heartbeat touched the outstanding TestRequest",
                           {"step": k})
            elif disconnected and accepted:
                yield ("C12-valid-frame-disconnects", "a valid in-sequence frame caused a disconnect", {"step": k})
            if accepted and awaiting is not None:
                reached = int(fd[36]) - 1 if mtype == "4" and fd.get(36, "").isdigit() else int(fd[34])
                if reached >= awaiting:
                    awaiting = None
            if up and s["a_post"].state > 3 and accepted:
                last_arrival, last_arrival_m = t, tm
                attempted = False if s["a_post"].test_req_id is None else attempted
                if not outstanding:
                    probe_due_from = t
                if s["a_post"].last_time != t:
                    yield ("C12-last-time-not-refreshed", "_message_last_time was not set by a valid frame", {"step": k})
        # whatever was expected: go on from what the connection actually is
        up = s["a_post"].state > 3 and s["a_post"].sock
        if not up:
            outstanding = None
            awaiting = None


def judge_all(runs, limit_per_sig=3):
    failures, per = [], {}
    for spec, line in runs:
        for sig, what, detail in judge(spec, line):
            per[sig] = per.get(sig, 0) + 1
            if per[sig] <= limit_per_sig:
                failures.append({"signature": sig, "what": what, "input": spec, "observed": detail,
                                 "expected": "C12 sentence holds on the time line"})
    return failures, per


def config_specs():
    """configurations outside the model's quantifier (its `hb` is an integer number of seconds): non-integer
    heartbeat periods, judged by the oracle only"""
    out = []
    for h in (1.5, 2.5, 7.25):
        H = int(h * 1000)
        peers = [{"kind": "silent"}, {"kind": "answer", "answer": {"delay": 125, "flavour": "right"}},
                 {"kind": "answer", "answer": {"delay": 2 * H - 1125, "flavour": "right"}},
                 {"kind": "answer", "answer": {"delay": 2 * H + 125, "flavour": "right"}},
                 {"kind": "answer", "answer": {"delay": 125, "flavour": "wrong"}},
                 {"kind": "periodic", "period": H, "mtype": "0"}, {"kind": "periodic", "period": 2 * H - 125, "mtype": "D"},
                 {"kind": "periodic", "period": H - 1125, "mtype": "0"},
                 {"kind": "gap", "start": 250, "k": 2, "pace": H - H % 125, "then": "heartbeat"}]
        for peer in peers:
            for gaps, phase in (([1000], 500), ([1125], 125), ([1875], 1000)):
                out.append(make_spec(h, peer, gaps, phase))
    return out


def finding_witnesses():
    out = []
    for f in C.load_findings(PROP):
        w = f.get("witness")
        if isinstance(w, dict) and "scenario" in w:
            out.append(w["scenario"])
    return out


def oracle(ctx, disagreements, broken):
    import logging

    # the second (DEBUG-logging) pass must EXECUTE the implementation again: results cached from the
    # correspondence were produced with logging disabled
    debug_pass = logging.root.manager.disable < logging.DEBUG
    runs = [] if debug_pass else list(getattr(ctx, "_c12_runs", []))
    impl = S.Impl()
    try:
        extra = finding_witnesses() + [d["input"]["scenario"] for d in disagreements[:50]] + config_specs()
        if not runs:
            extra += corpus_specs() + all_specs(ctx.rng, ctx.n(150, 600))
        if broken:
            # search harder: the whole grid for the intervals of the disagreeing scenarios (or all), every phase
            hs = sorted({d["input"]["scenario"]["h"] for d in disagreements}) or HS
            rng = random.Random(f"C12-oracle/{ctx.seed}")
            more = [s for s in all_specs(rng, ctx.n(1500, 6000)) if s["h"] in hs]
            extra += more
        runs = [(spec, run_scenario(impl, spec)) for spec in extra] + runs
    finally:
        impl.close()
    failures, per = judge_all(runs)
    ctx.oracle_stats = {"scenarios": len(runs), "events": sum(len(l) for _, l in runs), "failures_by_signature": per,
                        "searched_harder": bool(broken)}
    return failures


def replay(ctx, rp):
    impl = S.Impl()
    try:
        line = run_scenario(impl, rp["input"])
    finally:
        impl.close()
    sigs = [sig for sig, _, _ in judge(rp["input"], line)]
    print("replay:", json.dumps(rp["input"]), "->", sorted(set(sigs)))
    for s in line:
        if s["eff"]:
            print("  t=%d %s %s" % (s["t"] - T0, s["kind"], [e.split("=")[0] for e in s["eff"]]))
    return rp["signature"] in sigs
