"""Shared machinery of the checks: translator, lake build, axiom audit, driver I/O,
known findings, replays, evidence.  See DESIGN.md §2.5.

Run with /venv/bin/python (asyncfix importable from /repo's working tree)."""
from __future__ import annotations

import fcntl
import json
import os
import re
import subprocess
import sys
import time

VERIF = os.path.dirname(os.path.dirname(os.path.abspath(__file__)))
REPO = os.environ.get("VERIF_REPO", "/repo")
LEAN = os.path.join(VERIF, "lean")
DRIVER = os.path.join(LEAN, ".lake", "build", "bin", "driver")
PY = "/venv/bin/python"
ALLOWED_AXIOMS = {"propext", "Classical.choice", "Quot.sound"}
FORBIDDEN = re.compile(
    r"\b(sorry|admit|native_decide|bv_decide|implemented_by|unsafe)\b|^\s*axiom\s|maxHeartbeats\s+0\b",
    re.M,
)

TRUSTED_BASE = [
    "Lean 4.33.0 kernel (thorough tier: re-checked by leanchecker)",
    "axioms per theorem audited ⊆ {propext, Classical.choice, Quot.sound}; no native_decide / bv_decide / sorry",
    "tools/gen_lean.py (translator of tables, enum values and literal sets)",
    "harness/*.py correspondence + oracle code, compiled Lean driver (Lean compiler + C toolchain; only runs model functions)",
    "the formal statements in lean/AsyncFix/Props and the spec definitions they use",
    "CPython / sqlite3 / asyncio semantics as listed in DESIGN.md §3 (modelled, sampled by correspondence)",
]


def env_for_repo():
    e = dict(os.environ)
    e["PYTHONPATH"] = REPO + (":" + e["PYTHONPATH"] if e.get("PYTHONPATH") else "")
    e["PYTHONDONTWRITEBYTECODE"] = "1"
    return e


class BuildLock:
    def __enter__(self):
        os.makedirs(os.path.join(LEAN, ".lake"), exist_ok=True)
        self.f = open(os.path.join(LEAN, ".lake", "verif.lock"), "w")
        fcntl.flock(self.f, fcntl.LOCK_EX)
        return self

    def __exit__(self, *a):
        fcntl.flock(self.f, fcntl.LOCK_UN)
        self.f.close()


def run(cmd, cwd=None, timeout=3600, env=None, input=None):
    t0 = time.time()
    try:
        p = subprocess.run(
            cmd, cwd=cwd, capture_output=True, text=True, timeout=timeout, env=env, input=input
        )
        return p.returncode, p.stdout + p.stderr, time.time() - t0
    except subprocess.TimeoutExpired as e:
        return 124, f"TIMEOUT after {timeout}s: {cmd}\n{e.stdout or ''}", time.time() - t0


def translate():
    """Regenerate lean/AsyncFix/Generated from /repo. Returns (ok, log)."""
    rc, out, _ = run([PY, os.path.join(VERIF, "tools", "gen_lean.py")], env=env_for_repo())
    return rc == 0, out


def lake_build(targets, timeout=3000):
    with BuildLock():
        rc, out, dt = run(["lake", "build"] + list(targets), cwd=LEAN, timeout=timeout)
    return rc == 0, out, dt


def strip_comments(src: str) -> str:
    # remove nested /- -/ block comments and -- line comments (string literals are rare enough
    # in proof files that a forbidden word inside one would be flagged, which is the safe side)
    out, depth, i = [], 0, 0
    while i < len(src):
        if src.startswith("/-", i):
            depth += 1
            i += 2
        elif depth and src.startswith("-/", i):
            depth -= 1
            i += 2
        elif depth:
            if src[i] == "\n":
                out.append("\n")
            i += 1
        elif src.startswith("--", i):
            while i < len(src) and src[i] != "\n":
                i += 1
        else:
            out.append(src[i])
            i += 1
    return "".join(out)


def lean_sources(exclude_findings=True):
    files = []
    for root in ("AsyncFix", "Driver"):
        for d, _, fs in os.walk(os.path.join(LEAN, root)):
            for f in fs:
                if f.endswith(".lean"):
                    files.append(os.path.join(d, f))
    files.append(os.path.join(LEAN, "AsyncFix.lean"))
    return sorted(files)


def forbidden_tokens():
    hits = []
    for f in lean_sources():
        try:
            src = strip_comments(open(f).read())
        except FileNotFoundError:
            continue
        for m in FORBIDDEN.finditer(src):
            line = src.count("\n", 0, m.start()) + 1
            hits.append(f"{os.path.relpath(f, LEAN)}:{line}: {m.group(0).strip()}")
    return hits


THM_RE = re.compile(r"^(?:@\[[^\]]*\]\s*)?(?:private\s+|protected\s+)?theorem\s+([^\s:({\[]+)", re.M)
NS_RE = re.compile(r"^(namespace|end)\s+(\S+)", re.M)


def theorems_in(relpath):
    """Fully qualified names of all `theorem`s of a Props file (namespace aware)."""
    src = strip_comments(open(os.path.join(LEAN, relpath)).read())
    events = []
    for m in NS_RE.finditer(src):
        events.append((m.start(), m.group(1), m.group(2)))
    for m in THM_RE.finditer(src):
        events.append((m.start(), "theorem", m.group(1)))
    events.sort()
    ns, names = [], []
    for _, kind, name in events:
        if kind == "namespace":
            ns.append(name)
        elif kind == "end":
            if ns and ns[-1].split(".")[-1] == name.split(".")[-1]:
                ns.pop()
        else:
            names.append(".".join(ns + [name]) if not name.startswith("_root_.") else name[7:])
    return names


def axiom_audit(modules, theorems, tag):
    """`#print axioms` for every theorem. Returns (ok, per-theorem dict, log)."""
    os.makedirs(os.path.join(LEAN, ".lake", "audit"), exist_ok=True)
    path = os.path.join(LEAN, ".lake", "audit", f"Audit_{tag}.lean")
    with open(path, "w") as f:
        for m in modules:
            f.write(f"import {m}\n")
        for t in theorems:
            f.write(f"#print axioms {t}\n")
    rc, out, _ = run(["lake", "env", "lean", path], cwd=LEAN, timeout=1200)
    res = {}
    for m in re.finditer(r"'([^']+)' depends on axioms: \[([^\]]*)\]", out.replace("\n ", " ")):
        res[m.group(1)] = [a.strip() for a in m.group(2).replace("\n", " ").split(",") if a.strip()]
    for m in re.finditer(r"'([^']+)' does not depend on any axioms", out):
        res[m.group(1)] = []
    ok = rc == 0
    bad = {}
    for t in theorems:
        if t not in res:
            ok = False
            bad[t] = "not found / not printed"
        elif not set(res[t]) <= ALLOWED_AXIOMS:
            ok = False
            bad[t] = res[t]
    return ok, res, bad, out


class Driver:
    """The compiled Lean model driver, batch mode: send lines, get one reply per line."""

    def __init__(self):
        if not os.path.exists(DRIVER):
            raise RuntimeError(f"driver binary missing: {DRIVER}")

    def batch(self, lines, timeout=3600):
        data = "\n".join(lines) + "\n"
        p = subprocess.run([DRIVER], input=data, capture_output=True, text=True, timeout=timeout)
        out = p.stdout.split("\n")
        if out and out[-1] == "":
            out.pop()
        if p.returncode != 0 or len(out) != len(lines):
            raise RuntimeError(
                f"driver failed rc={p.returncode} replies={len(out)}/{len(lines)} stderr={p.stderr[:500]}"
            )
        return out


class LiveDriver:
    """Interactive driver (stateful conversations); every call is flushed with a `sync` line."""

    def __init__(self):
        self.p = subprocess.Popen(
            [DRIVER], stdin=subprocess.PIPE, stdout=subprocess.PIPE, text=True, bufsize=1 << 20
        )

    def ask(self, lines):
        self.p.stdin.write("\n".join(lines) + "\nsync\n")
        self.p.stdin.flush()
        out = []
        while True:
            l = self.p.stdout.readline()
            if not l:
                raise RuntimeError("driver died")
            l = l.rstrip("\n")
            if l == "sync":
                break
            out.append(l)
        if len(out) != len(lines):
            raise RuntimeError(f"driver replies {len(out)} != {len(lines)}")
        return out

    def close(self):
        try:
            self.p.stdin.close()
            self.p.wait(timeout=10)
        except Exception:
            self.p.kill()


def hx(b) -> str:
    if isinstance(b, str):
        b = b.encode("utf-8")
    return "x" + bytes(b).hex()


def cp(s) -> str:
    """token of a Python str / bytes as a list of CODE POINTS (latin-1 hex when all < 256)"""
    if isinstance(s, (bytes, bytearray)):
        return "x" + bytes(s).hex()
    if all(ord(c) < 256 for c in s):
        return "x" + s.encode("latin-1").hex()
    return "u" + ".".join("%x" % ord(c) for c in s)


def uncp(t: str) -> str:
    if t.startswith("x"):
        return bytes.fromhex(t[1:]).decode("latin-1")
    assert t.startswith("u"), t
    return "".join(chr(int(p, 16)) for p in t[1:].split(".") if p)


def unhx(t: str) -> bytes:
    assert t.startswith("x"), t
    return bytes.fromhex(t[1:])


# ----------------------------------------------------------------------------
# known findings
# ----------------------------------------------------------------------------
def load_findings(prop):
    """Open known findings of a property: known_findings.json plus the per-family files
    notes/findings_<family>.json (lists of entries; merged into known_findings.json at integration).
    Read-only at run time."""
    import glob

    with open(os.path.join(VERIF, "known_findings.json")) as f:
        kf = json.load(f)
    entries = list(kf.get("open", []))
    for path in sorted(glob.glob(os.path.join(VERIF, "notes", "findings_*.json"))):
        with open(path) as f:
            entries += json.load(f)
    seen, out = set(), []
    for e in entries:
        if e["property"] == prop and e["signature"] not in seen:
            seen.add(e["signature"])
            out.append(e)
    return out


def write_replay(prop, n, data):
    d = os.path.join(VERIF, "replays")
    os.makedirs(d, exist_ok=True)
    path = os.path.join(d, f"{prop}-{n}.json")
    with open(path, "w") as f:
        json.dump(data, f, indent=1, default=repr)
    return os.path.relpath(path, VERIF)


def write_evidence(prop, ev):
    # VERIF_EVIDENCE_DIR: used by tools/seed_verify.py so that runs against a mutated copy of the
    # repository never overwrite the evidence of the real tree
    d = os.environ.get("VERIF_EVIDENCE_DIR") or os.path.join(VERIF, "evidence")
    os.makedirs(d, exist_ok=True)
    with open(os.path.join(d, f"{prop}.json"), "w") as f:
        json.dump(ev, f, indent=1, default=repr)


class LogBase:
    """Base of every logger stand-in of the harnesses: whatever logging.Logger method the code under test calls
    exists (isEnabledFor, critical, log, getEffectiveLevel, ...), so that a change in HOW the library logs is
    never mistaken for a change in behaviour.  Subclasses define debug / info / warning / error / exception."""

    def debug(self, *a, **k):
        pass

    info = warning = error = debug

    def isEnabledFor(self, level):
        # follows the logging configuration of the current pass: the correspondence and the first oracle pass run
        # with logging.disable(CRITICAL) (nothing is enabled), the second oracle pass with everything at DEBUG
        import logging

        try:
            return int(level) > logging.root.manager.disable
        except Exception:  # noqa: BLE001
            return True

    def getEffectiveLevel(self):
        import logging

        return 10 if logging.root.manager.disable < 10 else 60

    def critical(self, *a, **k):
        return self.error(*a, **k)

    fatal = critical

    def warn(self, *a, **k):
        return self.warning(*a, **k)

    def log(self, level, *a, **k):
        try:
            lv = int(level)
        except Exception:  # noqa: BLE001
            lv = 20
        if k.get("exc_info"):
            return self.exception(*a)
        return (self.error if lv >= 40 else self.warning if lv >= 30 else self.info if lv >= 20 else self.debug)(*a, **k)

    def getChild(self, *a, **k):
        return self

    def __getattr__(self, name):
        if name.startswith("__"):
            raise AttributeError(name)
        return lambda *a, **k: None


def log_origin(depth=2):
    """Where a logged exception was caught, read off the call stack (never off the message text): "task" if the
    handler belongs to one of the connection's long-running tasks (socket_read_task / heartbeat_timer_task, possibly
    through a helper they call), "inner" if it is the swallowing handler of _process_message or anything else."""
    import sys

    f = sys._getframe(depth)
    while f is not None:
        n = f.f_code.co_name
        if n == "_process_message":
            return "inner"
        if n in ("socket_read_task", "heartbeat_timer_task"):
            return "task"
        f = f.f_back
    return "inner"


def clock_patch(module, now):
    """what to bind to `module.time` so that the code under test reads `now()` seconds, whichever way the module
    imported its clock: `import time` (then `time.time()`), or `from time import time` (then `time()`)."""
    import types

    cur = getattr(module, "time", None)
    if cur is not None and callable(cur) and not hasattr(cur, "time"):
        return now                                   # `from time import time`
    return types.SimpleNamespace(time=now, monotonic=now, perf_counter=now, time_ns=lambda: int(now() * 1e9),
                                 sleep=lambda *_a: None)
