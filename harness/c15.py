"""C15 – schema validation accepts exactly the messages the FIX dictionary allows.  DESIGN.md §6 C15.

tie:     (1) reference XML reader (harness/xmlschema_ref.py, independent of schema.py) -> abstract
             schema -> Lean driver (`sch.*`); its output is compared with the library's parsed objects
             for both dictionaries and for random permutations of <components>;
         (2) FIXSchema.validate vs the Lean `validate` on schema-directed valid instances and
             single-fault mutants of every message type of both dictionaries (outcome incl.
             exception kind); value verdicts come from the real SchemaField.validate_value
             (value-level logic is C19's business);
         (3) the resolver model (`sch.resolve`) vs FIXSchema._parse on the <components> of the
             dictionaries, on permutations, and on small malformed dictionaries (corpus/schema/*.xml).
oracle:  `Allowed` written in Python over the reference reader's schema (never calls Lean).
"""
from __future__ import annotations

import copy
import glob
import json
import os
import random
import shutil
import tempfile
import warnings
from xml.dom import minidom

from . import common as C
from . import xmlschema_ref as X
from . import c15_values as V

PROP = "C15"
PROPS_MODULES = ["AsyncFix.Props.C15", "AsyncFix.Props.C15Resolve"]
FINDINGS_MODULE = "AsyncFix.Findings.C15"
ASSUMPTIONS = [
    "value validity (SchemaField.validate_value) is a parameter vv of the model and of the theorems; in the "
    "correspondence its verdict for every (field, value) is taken from the real validate_value (C19 covers it)",
    "a message is a tree of nodes: plain string | class object (as stored by the decoder for repeated tags) | group "
    "= list of items; msg_type is a string; container keys are what FIXContainer.set produces (str of an int-like)",
    "schemaWF (tags/names of fields in bijection, member tags distinct at every level, members declared, group "
    "counters acceptable to SchemaSet.__init__, message types distinct) is evaluated by the compiled driver on the "
    "abstract schema of both dictionaries every run (reported under coverage.branches.schemaWF)",
    "tag 10 (CheckSum) is exempt in the specification as in the code: it is the framing layer's field (C01/C02/C10)",
    "ground truth of a VALUE for the oracle: the enumeration, and for non-enumerated fields the hand-labelled near-valid pool "
    "of harness/c15_values.py (FIX 4.4 datatype table; grey areas that are open C19 findings left out); only values outside the "
    "pool fall back to the library's own verdict. The Lean model always takes the library's verdict (vv is a parameter), so a "
    "value-level defect shows in the oracle, not in the correspondence",
    "the model's message is the abstract tree; that every way of assembling it through the FIXContainer API (constructor dict, "
    "set, set(replace=True), __setitem__, add_group / set_group with dicts or containers, del, int/float/Decimal/enum/str-subclass "
    "values, int or str tags) stores that tree is C18's subject - here it is covered by correspondence/oracle only (5 recipes on a "
    "sample of every run, signature C15-verdict-depends-on-construction:<recipe>)",
    "top-level order: the model and `Allowed` depend on the top-level nodes through membership only, so every re-ordering of the "
    "top-level tags is a correspondence case (signature C15-verdict-depends-on-top-level-order:<order>); order is significant only "
    "inside repeating-group items",
    "message size is unbounded in the theorems; the correspondence includes groups of 300 (thorough 1500) items and the deepest "
    "message type with every group multiplied at every level; two FIXSchema instances over the two dictionaries are alive and "
    "used alternately in one pass (signature C15-verdict-depends-on-other-instance)",
    "the model is a pure function of (dictionary, message); that FIXSchema.validate keeps no state between calls is not a "
    "theorem but is checked every run: targeted 'valid in field A / invalid in field B' value pairs and a sample of all cases are "
    "re-validated on fresh instances in same / reversed / shuffled order (signature C15-verdict-depends-on-history)",
]
MODELLED_NOT_VERIFIED = [
    "C15: parse-time exceptions other than RuntimeError (unresolvable components) and AssertionError (duplicate "
    "field / duplicate component) are not modelled (KeyError for undeclared names, ValueError for a bad group counter)",
    "C15: Python dict semantics of SchemaSet.members (hash by field name, asymmetric __eq__) are modelled only for "
    "well-formed dictionaries, where lookup by name and lookup by tag coincide",
]

DICTS = ["FIX44.xml", "TT-FIX44.xml"]
CORPUS = os.path.join(C.VERIF, "corpus", "schema")
HEADER_PLAIN = {"8": "FIX.4.4", "9": "120", "35": None, "49": "SENDER", "56": "TARGET", "34": "7",
                "52": "20230115-10:20:30.123"}


def dict_path(name):
    return os.path.join(C.REPO, "tests", name)


# ---------------------------------------------------------------------------------------------
# loading
# ---------------------------------------------------------------------------------------------
class Loaded:
    def __init__(self, path):
        from asyncfix.protocol import FIXSchema

        self.path = path
        self.name = os.path.basename(path)
        self.ref = X.RefSchema(path)
        with warnings.catch_warnings():
            warnings.simplefilter("ignore")
            self.lib = FIXSchema(path)
            # value verdicts come from a second instance that never validates a message, so that state
            # kept by the validator (memoisation, ...) cannot leak into the verdicts given to the model
            self.vlib = FIXSchema(path)
        self.hdr = set(self.ref.header_tags())
        self.trl = set(X.member_tags(self.ref.trailer))
        self._vcache = {}

    def valid(self, tag, value):
        """ground truth used by the oracle: the hand-labelled pool / the enumeration where they decide
        (independent of the library), otherwise the library's own verdict"""
        f = self.ref.by_tag.get(tag)
        if f is not None:
            lab = V.label(f.ftype, f.enums, tag, value)
            if lab is not None:
                return lab
        return self.verdict(tag, value) is True

    def verdict(self, tag, value):
        """what the real validate_value says: True / False (FIXMessageError) / 'assert' / 'exc:..'"""
        from asyncfix.errors import FIXMessageError

        k = (tag, value)
        if k in self._vcache:
            return self._vcache[k]
        f = self.vlib._tag2field.get(tag)
        if f is None:
            r = False
        else:
            try:
                with warnings.catch_warnings():
                    warnings.simplefilter("ignore")
                    r = f.validate_value(value) is True
            except FIXMessageError:
                r = False
            except AssertionError:
                r = "assert"
            except Exception as e:  # noqa
                r = "exc:" + type(e).__name__
        self._vcache[k] = r
        return r


_loaded = {}


def load(name):
    p = dict_path(name)
    if p not in _loaded:
        _loaded[p] = Loaded(p)
    return _loaded[p]


# ---------------------------------------------------------------------------------------------
# neutral message trees  <->  FIXMessage / driver tokens
#   node = ["p", tag, value] | ["c", tag, "n"|"r"|"o"] | ["g", tag, [item, ...]],  item = [node, ...]
# ---------------------------------------------------------------------------------------------
def _cls(kind):
    from asyncfix.errors import RepeatingTagError, TagNotFoundError

    return {"n": TagNotFoundError, "r": RepeatingTagError, "o": ValueError}[kind]


RECIPES = ["set-str", "ctor-dict-native", "setitem-native", "set-replace-native", "del-reset-native", "str-subclass"]


class _S(str):
    """a str subclass (values handed over by other libraries are often one)"""


def native(value, recipe):
    """a non-str Python object whose str() is `value` (int, float, Decimal), else the string itself;
    deterministic in (value, recipe)"""
    import decimal

    if recipe == "str-subclass":
        return _S(value)
    cands = []
    try:
        if str(int(value)) == value:
            cands.append(int(value))
    except ValueError:
        pass
    try:
        if repr(float(value)) == value:
            cands.append(float(value))
    except ValueError:
        pass
    try:
        if str(decimal.Decimal(value)) == value and not cands:
            cands.append(decimal.Decimal(value))
    except (decimal.InvalidOperation, ValueError):
        pass
    if not cands:
        return value
    return cands[(len(value) + len(recipe)) % len(cands)]


def _key(tag, alt):
    return int(tag) if alt and tag.isascii() and tag.isdigit() and str(int(tag)) == tag else tag


def _as_dict(nodes, recipe):
    d = {}
    for k, n in enumerate(nodes):
        key = _key(n[1], k % 2 == 0)
        if n[0] == "p":
            d[key] = native(n[2], recipe)
        elif n[0] == "c":
            d[key] = _cls(n[2])
        else:
            d[key] = [_as_dict(it, recipe) if j % 2 == 0 else _container(it, recipe) for j, it in enumerate(n[2])]
    return d


def _container(nodes, recipe):
    from asyncfix.message import FIXContainer

    c = FIXContainer()
    _fill(c, nodes, recipe)
    return c


def _fill(cont, nodes, recipe="set-str"):
    for k, n in enumerate(nodes):
        tag = n[1]
        if n[0] == "c":
            cont.set(tag, _cls(n[2]))
        elif n[0] == "p":
            if recipe == "set-str":
                cont.set(tag, n[2])
            elif recipe in ("setitem-native", "str-subclass"):
                cont[_key(tag, k % 2 == 1)] = native(n[2], recipe)
            elif recipe == "set-replace-native":
                cont.set(tag, "~placeholder~")
                cont.set(_key(tag, True), native(n[2], recipe), replace=True)
            elif recipe == "del-reset-native":
                cont.set(tag, "~junk~")
                del cont[_key(tag, True)]
                cont.set(_key(tag, True), native(n[2], recipe))
            else:
                cont.set(tag, native(n[2], recipe))
        else:
            items = n[2]
            if recipe == "set-str" or not items:
                cont.set_group(tag, [_container(it, recipe) for it in items])
            elif recipe == "setitem-native":
                for j, it in enumerate(items):
                    cont.add_group(_key(tag, True), _as_dict(it, recipe) if j % 2 else _container(it, recipe))
            elif recipe == "del-reset-native":
                cont.set_group(tag, [{}])
                del cont[tag]
                for it in reversed(items):
                    cont.add_group(tag, _container(it, recipe), index=0)
            else:
                cont.set_group(_key(tag, True), [_as_dict(it, recipe) if j % 2 == 0 else _container(it, recipe)
                                                 for j, it in enumerate(items)])


def build_fix(msgtype, nodes, recipe="set-str"):
    from asyncfix import FIXMessage, FMsg

    if recipe == "ctor-dict-native":
        mt = msgtype
        try:
            mt = FMsg(msgtype)          # enum member instead of the plain string
        except Exception:  # noqa
            pass
        return FIXMessage(mt, _as_dict(nodes, recipe))
    m = FIXMessage(msgtype)
    _fill(m, nodes, recipe)
    return m


def dump_container(cont):
    """what the container really holds (for diagnosis): same shape as the neutral tree"""
    from asyncfix.message import _FIXRepeatingGroupContainer

    out = []
    for t, v in cont.tags.items():
        if isinstance(v, _FIXRepeatingGroupContainer):
            out.append(["g", t, [dump_container(c) for c in v.groups]])
        elif isinstance(v, str):
            out.append(["p", t, str(v)])
        else:
            out.append(["?", t, repr(v)])
    return out


def impl_outcome(ld, msgtype, nodes, recipe="set-str"):
    from asyncfix.errors import FIXMessageError

    try:
        m = build_fix(msgtype, nodes, recipe)
    except Exception as e:  # noqa
        return "build-exc:" + type(e).__name__
    try:
        with warnings.catch_warnings():
            warnings.simplefilter("ignore")
            r = ld.lib.validate(m)
        return "ok" if r is True else f"ret:{r!r}"
    except FIXMessageError:
        return "raised msgError"
    except AssertionError:
        return "raised assertion"
    except Exception as e:  # noqa
        return "exc:" + type(e).__name__


def _tok_nodes(ld, nodes, out):
    out.append(str(len(nodes)))
    for n in nodes:
        if n[0] == "p":
            out += ["p", C.hx(n[1]), C.hx(n[2]), "1" if ld.verdict(n[1], n[2]) is True else "0"]
        elif n[0] == "c":
            out += ["c", C.hx(n[1]), n[2]]
        else:
            out += ["g", C.hx(n[1]), str(len(n[2]))]
            for it in n[2]:
                _tok_nodes(ld, it, out)


def validate_line(ld, msgtype, nodes):
    out = ["sch.validate", C.hx(msgtype)]
    _tok_nodes(ld, nodes, out)
    return " ".join(out)


def _tok_members(members, out):
    out.append(str(len(members)))
    for m in members:
        if m[0] == "f":
            out += ["f", C.hx(m[1]), "1" if m[3] else "0"]
        else:
            out += ["g", C.hx(m[1]), "1" if m[3] else "0"]
            _tok_members(m[4], out)


def schema_lines(ref):
    lines = ["sch.reset"]
    for f in ref.fields:
        lines.append("sch.field %s %s %s %d" % (C.hx(f.tag), C.hx(f.name), C.hx(f.ftype), 1 if f.enums else 0))
    for cmd, ms in (("sch.header", ref.header), ("sch.trailer", ref.trailer)):
        out = [cmd]
        _tok_members(ms, out)
        lines.append(" ".join(out))
    for m in ref.messages:
        out = ["sch.msg", C.hx(m.msgtype)]
        _tok_members(m.members, out)
        lines.append(" ".join(out))
    lines.append("sch.wf")
    return lines


# ---------------------------------------------------------------------------------------------
# the specification, in Python, over the reference reader's schema (oracle; independent of Lean)
# ---------------------------------------------------------------------------------------------
def _find(members, tag):
    for i, m in enumerate(members):
        if m[1] == tag:
            return i, m
    return None, None


def node_ok(ld, mem, n):
    """node n is an acceptable instance of dictionary member mem -> (bool, reason)"""
    if mem[0] == "f":
        if n[0] != "p":
            return False, "group-or-object-for-field"
        if n[2] == "":
            return False, "empty-value"
        if not ld.valid(mem[1], n[2]):
            return False, "invalid-value"
        return True, ""
    if n[0] != "g":
        return False, "plain-for-group"
    for it in n[2]:
        ok, why = item_ok(ld, mem[4], it)
        if not ok:
            return False, why
    return True, ""


def item_ok(ld, members, item):
    prev = -1
    for n in item:
        i, mem = _find(members, n[1])
        if mem is None:
            return False, "item-foreign-member"
        if i < prev:
            return False, "item-order"
        prev = i
        ok, why = node_ok(ld, mem, n)
        if not ok:
            return False, "item-" + why if not why.startswith("item-") else why
    tags = [n[1] for n in item]
    if not members or members[0][1] not in tags:
        return False, "item-first-missing"
    for mem in members:
        if mem[3] and mem[1] not in tags:
            return False, "item-required-missing"
    return True, ""


def allowed(ld, msgtype, nodes):
    """the property's `Allowed` (ideal reading: header and trailer members are members of every message)"""
    ref = ld.ref
    msg = ref.message(msgtype)
    if msg is None:
        return False, "unknown-msgtype"
    tags = [n[1] for n in nodes]
    for mem in msg.members:
        if mem[3] and mem[1] not in tags:
            return False, "required-missing"
    if "8" in tags:
        for mem in ref.header:
            if mem[3] and mem[1] not in tags:
                return False, "header-required-missing"
    for n in nodes:
        t = n[1]
        if t == "10":
            continue
        if t not in ref.by_tag:
            return False, "unknown-tag"
        for where, members in (("header-", ref.header), ("trailer-", ref.trailer), ("", msg.members)):
            _, mem = _find(members, t)
            if mem is not None:
                ok, why = node_ok(ld, mem, n)
                if not ok:
                    return False, where + why
                break
        else:
            return False, "not-allowed"
    return True, ""


# ---------------------------------------------------------------------------------------------
# generators
# ---------------------------------------------------------------------------------------------
VALID = {
    "INT": lambda r: str(r.randint(-50, 5000)),
    "SEQNUM": lambda r: str(r.randint(1, 99999)),
    "NUMINGROUP": lambda r: str(r.randint(1, 9)),
    "LENGTH": lambda r: str(r.randint(1, 500)),
    "DAYOFMONTH": lambda r: str(r.randint(1, 31)),
    "BOOLEAN": lambda r: r.choice("YN"),
    "CHAR": lambda r: r.choice("ABCxyz159"),
    "COUNTRY": lambda r: r.choice(["US", "DE", "JP"]),
    "CURRENCY": lambda r: r.choice(["USD", "EUR", "CHF"]),
    "EXCHANGE": lambda r: r.choice(["XNYS", "XLON", "CME"]),
    "LOCALMKTDATE": lambda r: "2023%02d%02d" % (r.randint(1, 12), r.randint(1, 28)),
    "UTCDATEONLY": lambda r: "2024%02d%02d" % (r.randint(1, 12), r.randint(1, 28)),
    "UTCTIMESTAMP": lambda r: "20230115-%02d:%02d:%02d%s" % (r.randint(0, 23), r.randint(0, 59), r.randint(0, 59), r.choice(["", ".123"])),
    "UTCTIMEONLY": lambda r: "%02d:%02d:%02d" % (r.randint(0, 23), r.randint(0, 59), r.randint(0, 59)),
    "MONTHYEAR": lambda r: r.choice(["202301", "20230115", "202312w2"]),
}
for _t in ("FLOAT", "QTY", "PRICE", "PRICEOFFSET", "AMT", "PERCENTAGE"):
    VALID[_t] = lambda r: "%d.%02d" % (r.randint(0, 900), r.randint(0, 99))
INVALID = {
    "INT": ["1x", "abc"], "SEQNUM": ["-3", "abc"], "NUMINGROUP": ["-1", "x"], "DAYOFMONTH": ["32", "0"],
    "BOOLEAN": ["X", "YN"], "CHAR": ["ab"], "COUNTRY": ["USA"], "CURRENCY": ["USDX"], "EXCHANGE": ["XNYSX"],
    "LOCALMKTDATE": ["20231340"], "UTCDATEONLY": ["2023"], "UTCTIMESTAMP": ["2023-01-01"], "UTCTIMEONLY": ["25:61:00"],
    "MONTHYEAR": ["2023w9", "20231"], "STRING": ["a=b"], "MULTIPLESTRINGVALUE": ["a=b"],
}
for _t in ("FLOAT", "QTY", "PRICE", "PRICEOFFSET", "AMT", "PERCENTAGE"):
    INVALID[_t] = ["abc", "nan"]


def valid_value(ld, f, rng):
    pool = [v for v, lab in V.POOL.get(f.ftype.upper(), {}).items() if lab] if not f.enums else []
    if pool and rng.random() < 0.4:
        return rng.choice(pool)          # boundary values; truth = the label, not the library's verdict
    if f.enums:
        cands = [rng.choice(f.enums)]
    else:
        g = VALID.get(f.ftype.upper())
        cands = [g(rng) for _ in range(3)] if g else []
    cands += [rng.choice(["abc", "Zq7", "ORD-1", "x"]), "1"]
    for c in cands:
        if c and ld.verdict(f.tag, c) is True:
            return c
    return None


def invalid_value(ld, f, rng):
    if f.enums:
        return rng.choice(V.enum_near(f.enums))
    pool = [v for v, lab in V.POOL.get(f.ftype.upper(), {}).items() if not lab and V.label(f.ftype, f.enums, f.tag, v) is False]
    if pool:
        return rng.choice(pool)          # near-valid value, invalid by the label
    cands = list(INVALID.get(f.ftype.upper(), []))
    rng.shuffle(cands)
    for c in cands:
        if ld.verdict(f.tag, c) is False:
            return c
    return None


def gen_item(ld, members, rng, depth, is_item, want_depth=0, mandatory_only=False):
    """nodes for a member list in dictionary order: required members, the first member of a group
    item, and a random subset of the optional ones"""
    nodes = []
    p = 0.0 if mandatory_only else min(0.5, 6.0 / max(1, len(members)))
    deep = [i for i, m in enumerate(members) if m[0] == "g" and X.depth(m[4]) + 1 >= want_depth] if want_depth > 0 else []
    force = rng.choice(deep) if deep else None
    for i, m in enumerate(members):
        take = m[3] or (is_item and i == 0) or i == force or rng.random() < p
        if not take:
            continue
        if m[0] == "f":
            v = valid_value(ld, ld.ref.by_tag[m[1]], rng)
            if v is None:
                if m[3] or (is_item and i == 0):
                    raise RuntimeError(f"no valid value for required field {m}")
                continue
            nodes.append(["p", m[1], v])
        else:
            if depth >= 4:
                if not (m[3] or i == force):
                    continue
            k = 1 if mandatory_only else (rng.choice([1, 1, 2, 3]) if (i == force or rng.random() < 0.93) else 0)
            items = [gen_item(ld, m[4], rng, depth + 1, True, want_depth - 1 if i == force else 0, mandatory_only)
                     for _ in range(k)]
            nodes.append(["g", m[1], items])
    return nodes


def gen_valid(ld, msg, rng, with_header=False, want_depth=0, shuffle=False):
    nodes = gen_item(ld, msg.members, rng, 0, False, want_depth)
    if shuffle:
        rng.shuffle(nodes)
    if with_header:
        hdr = []
        for m in ld.ref.header:
            if m[0] == "f" and (m[3] or rng.random() < 0.15):
                v = HEADER_PLAIN.get(m[1]) or (msg.msgtype if m[1] == "35" else valid_value(ld, ld.ref.by_tag[m[1]], rng))
                if v is not None:
                    hdr.append(["p", m[1], v])
        nodes = hdr + nodes + [["p", "10", "%03d" % rng.randint(0, 255)]]
    return nodes


def iter_items(nodes, members, depth=0, path=()):
    """(depth, members, item node list, path) for the message level (depth 0) and every group item"""
    yield depth, members, nodes, path
    for k, n in enumerate(nodes):
        if n[0] == "g":
            _, mem = _find(members, n[1])
            if mem is not None and mem[0] == "g":
                for j, it in enumerate(n[2]):
                    yield from iter_items(it, mem[4], depth + 1, path + (k, j))


def at_path(nodes, path):
    cur = nodes
    for i in range(0, len(path), 2):
        cur = cur[path[i]][2][path[i + 1]]
    return cur


def foreign_tag(ld, members, rng, extra_exclude=()):
    own = set(X.member_tags(members)) | ld.hdr | ld.trl | set(extra_exclude) | {"10"}
    for _ in range(50):
        f = rng.choice(ld.ref.fields)
        if f.tag not in own and not f.enums and f.ftype.upper() in ("STRING", "INT", "CHAR", "PRICE", "QTY"):
            v = valid_value(ld, f, rng)
            if v:
                return f.tag, v
    return None, None


def mutants(ld, msg, base, rng, all_positions):
    """single-fault mutants of a valid instance: yields (class, depth, nodes)"""
    sites = list(iter_items(base, msg.members))

    def pick(cands):
        if not cands:
            return []
        if all_positions:
            return cands
        # one per position class: first / interior / last candidate
        idx = {0, len(cands) - 1}
        if len(cands) > 2:
            idx.add(rng.randrange(1, len(cands) - 1))
        return [cands[i] for i in sorted(idx)] if len(cands) > 1 and rng.random() < 0.5 else [rng.choice(cands)]

    def mutate(path, fn):
        m = copy.deepcopy(base)
        fn(at_path(m, path))
        return m

    by_depth = {}
    for s in sites:
        by_depth.setdefault(min(s[0], 3), []).append(s)
    for d, group in sorted(by_depth.items()):
        chosen = group if all_positions else [rng.choice(group)]
        for depth, members, item, path in chosen:
            lvl = "msg" if depth == 0 else "item"
            mem_of = {n[1]: _find(members, n[1])[1] for n in item}
            # -- removals ---------------------------------------------------------------------
            req_f = [k for k, n in enumerate(item) if mem_of[n[1]] and mem_of[n[1]][3] and mem_of[n[1]][0] == "f"
                     and not (depth > 0 and n[1] == members[0][1])]
            for k in pick(req_f):
                yield f"{lvl}-missing-required-field", depth, mutate(path, lambda it, k=k: it.pop(k))
            req_g = [k for k, n in enumerate(item) if mem_of[n[1]] and mem_of[n[1]][3] and mem_of[n[1]][0] == "g"]
            for k in pick(req_g):
                yield f"{lvl}-missing-required-group", depth, mutate(path, lambda it, k=k: it.pop(k))
            if depth > 0 and item:
                yield "item-missing-first", depth, mutate(path, lambda it: it.pop(0))
                yield "item-emptied", depth, mutate(path, lambda it: it.clear())
            # -- insertions -------------------------------------------------------------------
            pos = pick(list(range(len(item) + 1)))
            for k in pos:
                yield f"{lvl}-unknown-tag", depth, mutate(path, lambda it, k=k: it.insert(k, ["p", "99999", "x"]))
            ft, fv = foreign_tag(ld, members, rng)
            if ft:
                for k in pos:
                    yield (f"{lvl}-not-allowed" if depth == 0 else "item-foreign-member"), depth, mutate(
                        path, lambda it, k=k: it.insert(k, ["p", ft, fv]))
            if depth == 0:
                # a tag that belongs to one of the message's groups, given at message level
                inner = [m2[1] for m in members if m[0] == "g" for m2 in m[4] if m2[0] == "f"
                         and m2[1] not in X.member_tags(members) and m2[1] not in ld.hdr]
                if inner:
                    t = rng.choice(inner)
                    v = valid_value(ld, ld.ref.by_tag[t], rng)
                    if v:
                        yield "msg-not-allowed-group-member", 0, mutate(path, lambda it: it.append(["p", t, v]))
            # -- replacements -----------------------------------------------------------------
            plain = [k for k, n in enumerate(item) if n[0] == "p" and mem_of[n[1]] and n[1] not in ld.hdr and n[1] != "10"]
            inval = [(k, invalid_value(ld, ld.ref.by_tag[item[k][1]], rng)) for k in plain]
            inval = [(k, v) for k, v in inval if v is not None]
            for k, v in pick(inval):
                yield f"{lvl}-invalid-value", depth, mutate(path, lambda it, k=k, v=v: it.__setitem__(k, ["p", it[k][1], v]))
            for k in pick(plain):
                yield f"{lvl}-plain-as-group", depth, mutate(
                    path, lambda it, k=k: it.__setitem__(k, ["g", it[k][1], [[["p", it[k][1], it[k][2]]]]]))
            for k in pick(plain)[:1]:
                yield f"{lvl}-empty-value", depth, mutate(path, lambda it, k=k: it.__setitem__(k, ["p", it[k][1], ""]))
                yield f"{lvl}-class-value", depth, mutate(
                    path, lambda it, k=k: it.__setitem__(k, ["c", it[k][1], rng.choice("nro")]))
            grp = [k for k, n in enumerate(item) if n[0] == "g"]
            for k in pick(grp):
                yield f"{lvl}-group-as-plain", depth, mutate(path, lambda it, k=k: it.__setitem__(k, ["p", it[k][1], "2"]))
            for k in pick(grp)[:1]:
                yield f"{lvl}-group-as-class", depth, mutate(path, lambda it, k=k: it.__setitem__(k, ["c", it[k][1], "r"]))
                yield f"{lvl}-group-with-empty-item", depth, mutate(path, lambda it, k=k: it[k][2].append([]))
            # -- order --------------------------------------------------------------------------
            if depth > 0 and len(item) >= 2:
                pairs = [(a, b) for a in range(len(item)) for b in range(a + 1, len(item))]
                for a, b in pick(pairs):
                    def swap(it, a=a, b=b):
                        it[a], it[b] = it[b], it[a]
                    yield "item-out-of-order", depth, mutate(path, swap)


def header_cases(ld, msg, rng):
    """instances with a header: valid, each header fault class, trailer members"""
    base = gen_valid(ld, msg, rng, with_header=True)
    # TT-FIX44.xml declares message type `b` but its MsgType enumeration lacks it: 35=b is an invalid value
    yield ("valid-with-header" if allowed(ld, msg.msgtype, base)[0] else "with-header-msgtype-not-in-enum"), 0, base
    req = [k for k, n in enumerate(base) if n[1] in ld.hdr and n[1] != "8" and _find(ld.ref.header, n[1])[1][3]]
    if req:
        k = rng.choice(req)
        m = copy.deepcopy(base); m.pop(k)
        yield "header-missing-required", 0, m
        m = copy.deepcopy(base); m[k] = ["g", m[k][1], [[["p", m[k][1], "x"]]]]
        yield "header-required-as-group", 0, m
        m = copy.deepcopy(base); m[k] = ["c", m[k][1], rng.choice("nro")]
        yield "header-required-class-value", 0, m
        m = copy.deepcopy(base); m[k] = ["p", m[k][1], ""]
        yield "header-required-empty", 0, m
        bad = [(k2, invalid_value(ld, ld.ref.by_tag[base[k2][1]], rng)) for k2 in req]
        bad = [(k2, v) for k2, v in bad if v]
        if bad:
            k2, v = rng.choice(bad)
            m = copy.deepcopy(base); m[k2] = ["p", m[k2][1], v]
            yield "header-required-invalid-value", 0, m
            m = [n for n in copy.deepcopy(m) if n[1] != "8"]
            yield "header-invalid-value-no-beginstring", 0, m
    opt = [m for m in ld.ref.header if m[0] == "f" and not m[3]]
    rng.shuffle(opt)
    for mem in opt:
        v = invalid_value(ld, ld.ref.by_tag[mem[1]], rng)
        if v and mem[1] not in [n[1] for n in base]:
            yield "header-optional-invalid-value", 0, copy.deepcopy(base)[:-1] + [["p", mem[1], v], base[-1]]
            yield "header-optional-as-group", 0, copy.deepcopy(base)[:-1] + [["g", mem[1], [[["p", "1", "x"]]]], base[-1]]
            break
    hg = [m for m in ld.ref.header if m[0] == "g"]
    if hg:
        g = hg[0]
        yield "header-group-valid", 0, copy.deepcopy(base) + [["g", g[1], [gen_item(ld, g[4], rng, 1, True)]]]
        yield "header-group-garbage", 0, copy.deepcopy(base) + [["g", g[1], [[["p", "99999", "x"]]]]]
        yield "header-group-as-plain", 0, copy.deepcopy(base) + [["p", g[1], "x"]]
    tr = [m for m in ld.ref.trailer if m[0] == "f" and m[1] != "10"]
    if tr:
        extra = []
        for mem in tr:
            v = valid_value(ld, ld.ref.by_tag[mem[1]], rng)
            if v:
                extra.append(["p", mem[1], v])
        if extra:
            yield "valid-with-trailer-members", 0, copy.deepcopy(base)[:-1] + extra + [base[-1]]
    yield "checksum-as-group", 0, copy.deepcopy(base)[:-1] + [["g", "10", [[["p", "1", "x"]]]]]



# ---------------------------------------------------------------------------------------------
# validation must be a function of (dictionary, message): history / order independence
# ---------------------------------------------------------------------------------------------
POOL = ["0", "1", "-1", "00", "7", "31", "32", "Y", "N", "A", "abc", "a b", "1.5", "20230115", "202301", "10:20:30",
        "20230115-10:20:30", "US", "USD", "XNYS", "2023w9", "0.0"]


def find_path(ld, tag):
    """(message, [group tags]) of a place where the field `tag` can legally occur, shallowest first"""
    cache = ld.__dict__.setdefault("_paths", {})
    if tag not in cache:
        cache[tag] = _find_path(ld, tag)
    return cache[tag]


def _find_path(ld, tag):
    hm = _find(ld.ref.header, tag)[1] or _find(ld.ref.trailer, tag)[1]
    if hm is not None and hm[0] != "f":
        return None
    if hm is not None:
        for msg in ld.ref.messages:
            if not any(m[3] for m in msg.members):
                return msg, []
        return ld.ref.messages[0], []
    best = None
    for msg in ld.ref.messages:
        def walk(members, path):
            nonlocal best
            for m in members:
                if m[0] == "f" and m[1] == tag:
                    if best is None or len(path) < len(best[1]):
                        best = (msg, list(path))
                elif m[0] == "g" and len(path) < 3:
                    walk(m[4], path + [m[1]])
        walk(msg.members, [])
        if best is not None and not best[1]:
            break
    return best


def instance_with(ld, tag, value, rng):
    """a message whose only possibly invalid part is `tag = value` (mandatory members only)"""
    fp = find_path(ld, tag)
    if fp is None:
        return None
    msg, path = fp
    try:
        nodes = gen_item(ld, msg.members, rng, 0, False, mandatory_only=True)
    except RuntimeError:
        return None
    cur, members = nodes, msg.members
    for g in path:
        _, mem = _find(members, g)
        node = next((n for n in cur if n[1] == g and n[0] == "g"), None)
        if node is None or not node[2]:
            try:
                item = gen_item(ld, mem[4], rng, 1, True, mandatory_only=True)
            except RuntimeError:
                return None
            if node is None:
                node = ["g", g, [item]]
                cur.append(node)
            else:
                node[2].append(item)
        cur.sort(key=lambda n, ms=members: (_find(ms, n[1])[0] if _find(ms, n[1])[0] is not None else 10 ** 6))
        cur, members = node[2][0], mem[4]
    cur[:] = [n for n in cur if n[1] != tag] + [["p", tag, value]]
    if path:
        cur.sort(key=lambda n, ms=members: (_find(ms, n[1])[0] if _find(ms, n[1])[0] is not None else 10 ** 6))
    return msg.msgtype, nodes


def history_pairs(ld, rng, limit):
    """(value, field where it is valid, field where it is not): first the pairs inside ONE datatype
    (special cases such as EndSeqNo=0), then enumerations of one datatype, then pairs across datatypes"""
    plain = [f for f in ld.ref.fields if not f.enums and f.ftype.upper() not in ("NUMINGROUP",) and find_path(ld, f.tag)]
    by_type = {}
    for f in plain:
        by_type.setdefault(f.ftype.upper(), []).append(f)
    same, cross = [], []
    for v in POOL:
        ok_t, bad_t = {}, {}
        for t, fs in by_type.items():
            good = [f for f in fs if ld.verdict(f.tag, v) is True]
            bad = [f for f in fs if ld.verdict(f.tag, v) is False]
            if good and bad:
                for g in good[:3]:
                    for b in (bad if len(bad) <= 8 else rng.sample(bad, 8)):
                        same.append((v, g, b))
            if good:
                ok_t[t] = good
            if bad:
                bad_t[t] = bad
        for t1 in ok_t:
            for t2 in bad_t:
                if t1 != t2:
                    cross.append((v, rng.choice(ok_t[t1]), rng.choice(bad_t[t2])))
    enums = {}
    for f in ld.ref.fields:
        if f.enums and find_path(ld, f.tag):
            enums.setdefault(f.ftype.upper(), []).append(f)
    en = []
    for t, fs in enums.items():
        for _ in range(6):
            if len(fs) < 2:
                break
            a, b = rng.sample(fs, 2)
            vs = [x for x in a.enums if x not in b.enums]
            if vs:
                en.append((rng.choice(vs), a, b))
    rng.shuffle(cross)
    rng.shuffle(en)
    rest = en[: max(4, limit // 4)] + cross
    return same + rest[: max(0, limit - len(same))]


def history_cases(ctx, ld, rng):
    """targeted cases: `valid-here` immediately followed by `invalid-there` (generation order = A, B)"""
    out = []
    for v, fa, fb in history_pairs(ld, rng, ctx.n(60, 400)):
        a = instance_with(ld, fa.tag, v, rng)
        b = instance_with(ld, fb.tag, v, rng)
        if a is None or b is None:
            continue
        if not allowed(ld, a[0], a[1])[0] or allowed(ld, b[0], b[1])[0]:
            continue
        pair = f"{fa.ftype}:{fa.tag}={v!r}/{fb.ftype}:{fb.tag}"
        out.append({"dict": ld.name, "msgtype": a[0], "nodes": a[1], "cls": "history-valid-here", "depth": 0, "pair": pair})
        out.append({"dict": ld.name, "msgtype": b[0], "nodes": b[1], "cls": "history-invalid-there", "depth": 0, "pair": pair})
    return out


class Fresh:
    """a brand-new FIXSchema instance of a dictionary (for impl_outcome)"""

    def __init__(self, ld):
        from asyncfix.protocol import FIXSchema

        with warnings.catch_warnings():
            warnings.simplefilter("ignore")
            self.lib = FIXSchema(ld.path)
        self.hdr, self.trl, self.ref, self.name, self.path = ld.hdr, ld.trl, ld.ref, ld.name, ld.path


def run_sequence(ld, seq):
    fr = Fresh(ld)
    return [impl_outcome(fr, c["msgtype"], c["nodes"]) for c in seq]


def history_runs(ctx):
    """re-validate a sample of the run's messages on fresh instances in other orders.
    -> list of {"dict", "order", "idx": [case indices], "out": [outcomes]}"""
    if getattr(ctx, "_c15_hist", None) is not None:
        return ctx._c15_hist
    cases = build_cases(ctx)
    rng = random.Random(f"C15-history/{ctx.seed}")
    runs = []
    for dn in DICTS:
        ld = load(dn)
        idxs = [i for i, c in enumerate(cases) if c["dict"] == dn]
        targeted = [i for i in idxs if cases[i]["cls"].startswith("history-")]
        others = [i for i in idxs if not cases[i]["cls"].startswith("history-")]
        sample = sorted(targeted + rng.sample(others, min(len(others), ctx.n(400, 4000))))
        orders = {"same-order-fresh-instance": list(sample), "reversed": list(reversed(sample))}
        for k in range(ctx.n(1, 3)):
            sh = list(sample)
            rng.shuffle(sh)
            orders[f"shuffled-{k}"] = sh
        for name, order in orders.items():
            runs.append({"dict": dn, "order": name, "idx": order, "out": run_sequence(ld, [cases[i] for i in order])})
        # every targeted pair on its own fresh instance, both orders
        npairs = ctx.n(40, 400)
        for a, b in list(zip(targeted[0::2], targeted[1::2]))[:npairs]:
            for name, order in (("pair-AB", [a, b]), ("pair-BA", [b, a])):
                runs.append({"dict": dn, "order": name, "idx": order, "out": run_sequence(ld, [cases[i] for i in order])})
    ctx._c15_hist = runs
    return runs


def construction_runs(ctx):
    """C dimension: the same abstract message built through other histories of container operations and with
    non-str values the API converts -> list of (case index, recipe, outcome)"""
    if getattr(ctx, "_c15_constr", None) is not None:
        return ctx._c15_constr
    cases = build_cases(ctx)
    rng = random.Random(f"C15-construction/{ctx.seed}")
    idxs = [i for i, c in enumerate(cases) if not c["cls"].startswith("large-")]
    sample = rng.sample(idxs, min(len(idxs), ctx.n(500, 7000)))
    out = []
    for i in sample:
        c = cases[i]
        ld = load(c["dict"])
        for r in RECIPES[1:]:
            out.append((i, r, impl_outcome(ld, c["msgtype"], c["nodes"], r)))
    ctx._c15_constr = out
    return out


def interleaved_run(ctx):
    """two FIXSchema instances over the two dictionaries alive at once, validations alternating between them"""
    if getattr(ctx, "_c15_inter", None) is not None:
        return ctx._c15_inter
    cases = build_cases(ctx)
    rng = random.Random(f"C15-interleave/{ctx.seed}")
    per = {dn: [i for i, c in enumerate(cases) if c["dict"] == dn and not c["cls"].startswith("large-")] for dn in DICTS}
    k = min(ctx.n(300, 3000), *[len(v) for v in per.values()])
    picks = {dn: rng.sample(v, k) for dn, v in per.items()}
    fresh = {dn: Fresh(load(dn)) for dn in DICTS}
    out = []
    for j in range(k):
        for dn in DICTS:
            i = picks[dn][j]
            out.append((i, impl_outcome(fresh[dn], cases[i]["msgtype"], cases[i]["nodes"])))
    ctx._c15_inter = out
    return out


TOP_ORDERS = ["body-then-header", "8-last", "10-first", "shuffled", "8-del-reset"]


def top_order_variant(ld, nodes, name):
    """the same top-level content in another insertion order (deterministic in (nodes, name)); None if not applicable"""
    ht = ld.hdr | ld.trl
    tags = [n[1] for n in nodes]
    if name == "body-then-header":
        out = [n for n in nodes if n[1] not in ht] + [n for n in nodes if n[1] in ht]
    elif name in ("8-last", "8-del-reset"):
        if "8" not in tags:
            return None
        out = [n for n in nodes if n[1] != "8"] + [n for n in nodes if n[1] == "8"]
    elif name == "10-first":
        if "10" in tags:
            out = [n for n in nodes if n[1] == "10"] + [n for n in nodes if n[1] != "10"]
        elif "8" in tags and len(nodes) > 1:
            rest = [n for n in nodes if n[1] != "8"]
            out = rest[:1] + [n for n in nodes if n[1] == "8"] + rest[1:]
        else:
            return None
    else:
        out = list(nodes)
        random.Random("C15-top/" + json.dumps(nodes)).shuffle(out)
    return out if out != nodes else None


def impl_outcome_order(ld, msgtype, nodes, name):
    """outcome for the top-level order variant; '8-del-reset' goes through the API: del m[8]; m.set(8, v)"""
    from asyncfix.errors import FIXMessageError

    if name != "8-del-reset":
        return impl_outcome(ld, msgtype, top_order_variant(ld, nodes, name))
    m = build_fix(msgtype, nodes)
    v = m.tags.get("8")
    if not isinstance(v, str):
        return impl_outcome(ld, msgtype, top_order_variant(ld, nodes, name))
    del m["8"]
    m.set(8, v)
    try:
        with warnings.catch_warnings():
            warnings.simplefilter("ignore")
            r = ld.lib.validate(m)
        return "ok" if r is True else f"ret:{r!r}"
    except FIXMessageError:
        return "raised msgError"
    except Exception as e:  # noqa
        return "exc:" + type(e).__name__


def top_order_runs(ctx):
    """the verdict is a function of the CONTENT at top level (order matters only inside group items):
    valid instances and every fault class re-validated with header / trailer tags after or between the body
    tags, 8 not first, 10 not last -> list of (case index, order name, outcome)"""
    if getattr(ctx, "_c15_top", None) is not None:
        return ctx._c15_top
    cases = build_cases(ctx)
    rng = random.Random(f"C15-toporder/{ctx.seed}")
    small = [i for i, c in enumerate(cases) if not c["cls"].startswith("large-") and len(c["nodes"]) >= 2]
    with_hdr = [i for i in small if any(n[1] == "8" for n in cases[i]["nodes"])]
    others = [i for i in small if i not in set(with_hdr)]
    # every class that carries a header at least a few times, then a random remainder
    by_cls = {}
    for i in with_hdr:
        by_cls.setdefault(cases[i]["cls"], []).append(i)
    sample = []
    for cls, idx in sorted(by_cls.items()):
        sample += rng.sample(idx, min(len(idx), ctx.n(25, 250)))
    sample += rng.sample(others, min(len(others), ctx.n(300, 3000)))
    out = []
    for i in sample:
        c = cases[i]
        ld = load(c["dict"])
        for name in TOP_ORDERS:
            if top_order_variant(ld, c["nodes"], name) is None:
                continue
            out.append((i, name, impl_outcome_order(ld, c["msgtype"], c["nodes"], name)))
    ctx._c15_top = out
    return out


def shrink_history(ld, cases, order, pos, alone):
    """smallest history found that changes the verdict of cases[order[pos]]: one predecessor, else the prefix"""
    k = cases[order[pos]]
    vals = {n[2] for n in _all_nodes(k["nodes"]) if n[0] == "p"}
    preds = order[:pos]
    preds = sorted(set(preds), key=lambda j: (0 if vals & {n[2] for n in _all_nodes(cases[j]["nodes"]) if n[0] == "p"} else 1,
                                                  len(json.dumps(cases[j]["nodes"]))))
    for j in preds[:300]:
        out = run_sequence(ld, [cases[j], k])
        if out[1] != alone:
            return [cases[j]], out[1]
    out = run_sequence(ld, [cases[j] for j in order[:pos]] + [k])
    return [cases[j] for j in order[:pos]], out[-1]


def value_pool_cases(ctx, ld, rng):
    """V dimension: every labelled near-valid value of every datatype, as the single possibly faulty value of
    an otherwise minimal valid message; rare datatypes get every field, the others a seeded choice"""
    out = []
    by_type = {}
    for f in ld.ref.fields:
        if not f.enums and f.ftype.upper() in V.POOL and f.tag not in ("8", "9", "35", "10") and find_path(ld, f.tag):
            by_type.setdefault(f.ftype.upper(), []).append(f)
    for t, fs in sorted(by_type.items()):
        top = [f for f in fs if not find_path(ld, f.tag)[1]]
        deep = [f for f in fs if find_path(ld, f.tag)[1]]
        for v, lab in V.POOL[t].items():
            chosen = fs if len(fs) <= ctx.n(3, 8) else ([rng.choice(top)] if top else []) + ([rng.choice(deep)] if deep else [])
            if ctx.tier == "thorough" and len(fs) > 8:
                chosen = chosen + rng.sample(fs, 4)
            for f in chosen:
                truth = V.label(f.ftype, f.enums, f.tag, v)
                inst = instance_with(ld, f.tag, v, rng)
                if inst is None or truth is None:
                    continue
                depth = len(find_path(ld, f.tag)[1])
                out.append({"dict": ld.name, "msgtype": inst[0], "nodes": inst[1], "depth": depth,
                            "cls": ("value-pool-valid:" if truth else "value-pool-invalid:") + t})
    en = [f for f in ld.ref.fields if f.enums and f.tag not in ("35",) and find_path(ld, f.tag)]
    for f in rng.sample(en, min(len(en), ctx.n(40, 400))):
        for v in rng.sample(V.enum_near(f.enums), 2) + [f.enums[0], f.enums[-1]]:
            inst = instance_with(ld, f.tag, v, rng)
            if inst is not None:
                out.append({"dict": ld.name, "msgtype": inst[0], "nodes": inst[1], "depth": len(find_path(ld, f.tag)[1]),
                            "cls": "value-pool-valid:ENUM" if v in f.enums else "value-pool-invalid:ENUM"})
    return out


def _multiply(nodes, k):
    for n in nodes:
        if n[0] == "g" and n[2]:
            n[2][:] = [copy.deepcopy(it) for it in n[2] for _ in range(k)]
            for it in n[2]:
                _multiply(it, k)


def large_cases(ctx, ld, rng):
    """S dimension: hundreds of items in one group; every group of the deepest message multiplied at every level"""
    out = []
    msgs = sorted(ld.ref.messages, key=lambda m: -X.depth(m.members))
    for msg in msgs[: ctx.n(1, 2)]:
        base = gen_valid(ld, msg, rng, want_depth=X.depth(msg.members))
        wide = copy.deepcopy(base)
        g = next((n for n in wide if n[0] == "g" and n[2]), None)
        if g is not None:
            g[2][:] = [copy.deepcopy(g[2][0]) for _ in range(ctx.n(300, 1500))]
            out.append({"dict": ld.name, "msgtype": msg.msgtype, "nodes": wide, "cls": "large-wide-valid", "depth": 1})
            bad = copy.deepcopy(wide)
            bad[bad.index(next(n for n in bad if n[0] == "g" and n[2]))][2][-1].pop(0)
            out.append({"dict": ld.name, "msgtype": msg.msgtype, "nodes": bad, "cls": "large-wide-last-item-first-missing", "depth": 1})
            bad = copy.deepcopy(wide)
            bad[bad.index(next(n for n in bad if n[0] == "g" and n[2]))][2][len(g[2]) // 2].insert(0, ["p", "99999", "x"])
            out.append({"dict": ld.name, "msgtype": msg.msgtype, "nodes": bad, "cls": "large-wide-middle-item-unknown-tag", "depth": 1})
        deep = copy.deepcopy(base)
        _multiply(deep, ctx.n(3, 4))
        out.append({"dict": ld.name, "msgtype": msg.msgtype, "nodes": deep, "cls": "large-deep-valid", "depth": X.depth(msg.members)})
        sites = [s_ for s_ in iter_items(deep, msg.members) if s_[0] == X.depth(msg.members) and len(s_[2]) >= 1]
        if sites:
            bad = copy.deepcopy(deep)
            at_path(bad, sites[-1][3]).pop(0)
            out.append({"dict": ld.name, "msgtype": msg.msgtype, "nodes": bad, "cls": "large-deep-last-leaf-first-missing",
                        "depth": X.depth(msg.members)})
    return out


def build_cases(ctx):
    """all validation cases of this run: list of dicts {dict, msgtype, nodes, cls, depth}"""
    if getattr(ctx, "_c15_cases", None) is not None:
        return ctx._c15_cases
    rng = ctx.rng
    cases = []
    # corpus first
    for p in sorted(glob.glob(os.path.join(CORPUS, "*.json"))):
        with open(p) as f:
            for c in json.load(f):
                cases.append({"dict": c["dict"], "msgtype": c["msgtype"], "nodes": c["nodes"],
                              "cls": "corpus:" + c.get("note", os.path.basename(p)), "depth": c.get("depth", 0)})
    n_valid = ctx.n(5, 40)
    allpos = ctx.tier == "thorough"
    for dn in DICTS:
        cases += history_cases(ctx, load(dn), rng)
        cases += value_pool_cases(ctx, load(dn), rng)
        cases += large_cases(ctx, load(dn), rng)
    for dn in DICTS:
        ld = load(dn)
        for msg in ld.ref.messages:
            maxd = X.depth(msg.members)
            bases = []
            for i in range(n_valid):
                want = (i % (maxd + 1)) if maxd else 0
                b = gen_valid(ld, msg, rng, with_header=False, want_depth=want, shuffle=(i % 3 == 2))
                bases.append(b)
                cases.append({"dict": dn, "msgtype": msg.msgtype, "nodes": b, "cls": "valid", "depth": want})
            # mutants: quick = of one deep instance; thorough = of 3 instances (deepest first), all positions
            srt = sorted(bases, key=lambda b: -max(s[0] for s in iter_items(b, msg.members)))
            for b in (srt[:3] if allpos else srt[:1]):
                for cls, d, nodes in mutants(ld, msg, b, rng, allpos and len(cases) < 400000):
                    cases.append({"dict": dn, "msgtype": msg.msgtype, "nodes": nodes, "cls": cls, "depth": d})
            for cls, d, nodes in header_cases(ld, msg, rng):
                cases.append({"dict": dn, "msgtype": msg.msgtype, "nodes": nodes, "cls": cls, "depth": d})
            cases.append({"dict": dn, "msgtype": msg.msgtype + "?", "nodes": bases[0], "cls": "unknown-msgtype", "depth": 0})
    ctx._c15_cases = cases
    return cases


def impl_all(ctx):
    if getattr(ctx, "_c15_impl", None) is None:
        ctx._c15_impl = [impl_outcome(load(c["dict"]), c["msgtype"], c["nodes"]) for c in build_cases(ctx)]
    return ctx._c15_impl


# ---------------------------------------------------------------------------------------------
# parser / resolver checks
# ---------------------------------------------------------------------------------------------
_dom_cache = {}


def permuted_xml(path, rng, mode="shuffle"):
    # the DOM is parsed once and re-ordered in place for every permutation
    if path not in _dom_cache:
        _dom_cache[path] = minidom.parse(path)
    dom = _dom_cache[path]
    comps = [c for c in dom.documentElement.childNodes if c.nodeType == c.ELEMENT_NODE and c.tagName == "components"]
    if comps:
        node = comps[0]
        els = [c for c in node.childNodes if c.nodeType == c.ELEMENT_NODE]
        for c in list(node.childNodes):
            node.removeChild(c)
        if mode == "reverse":
            els.reverse()
        else:
            rng.shuffle(els)
        for c in els:
            node.appendChild(c)
    return dom.toxml()


def lib_parse(path):
    """-> ('ok', schema) | ('runtime'|'assertion'|'exc:..', None)"""
    from asyncfix.protocol import FIXSchema

    try:
        with warnings.catch_warnings():
            warnings.simplefilter("ignore")
            return "ok", FIXSchema(path)
    except RuntimeError:
        return "runtime", None
    except AssertionError:
        return "assertion", None
    except Exception as e:  # noqa
        return "exc:" + type(e).__name__, None


def _tok_decls(raw, out):
    out.append(str(len(raw)))
    for d in raw:
        if d[0] == "f":
            out += ["f", C.hx(d[1]), "1" if d[2] else "0"]
        elif d[0] == "c":
            out += ["c", C.hx(d[1])]
        else:
            out += ["g", C.hx(d[1]), "1" if d[2] else "0"]
            _tok_decls(d[3], out)


def raw_decls(path):
    """abstract declarations of an XML file in document order, read with minidom (no expansion)"""
    dom = minidom.parse(path)
    root = dom.documentElement
    sect = {}
    for c in X._children(root):
        sect.setdefault(c.tagName, c)
    comps = [(c.getAttribute("name"), X._raw(c)) for c in X._children(sect["components"])] if "components" in sect else []
    msgs = [(m.getAttribute("name"), X._raw(m)) for m in X._children(sect["messages"])]
    return comps, X._raw(sect["header"]), msgs


def _show_rmems(ms):
    out = [str(len(ms))]
    for m in ms:
        if m[0] == "f":
            out += ["f", C.hx(m[2]), "1" if m[3] is True else "0"]
        else:
            out += ["g", C.hx(m[2]), "1" if m[3] is True else "0"] + _show_rmems(m[4])
    return out


def resolver_job(path, label):
    """driver lines for one XML file + what the library made of it (computed now: the file may be temporary)"""
    comps, header, msgs = raw_decls(path)
    lines = ["sch.rreset"]
    for n, raw in comps:
        out = ["sch.rdecl", C.hx(n)]
        _tok_decls(raw, out)
        lines.append(" ".join(out))
    lines.append("sch.resolve")
    bodies = [("header", header)] + msgs
    for _, raw in bodies:
        out = ["sch.rexpand"]
        _tok_decls(raw, out)
        lines.append(" ".join(out))
    outcome, lib = lib_parse(path)
    job = {"label": label, "lines": lines, "k": 1 + len(comps), "outcome": outcome, "bodies": [nm for nm, _ in bodies]}
    if outcome == "ok":
        job["want_components"] = "ok " + " ".join([str(len(lib._components))] + sum(
            ([C.hx(n)] + _show_rmems(X.lib_members(c)) for n, c in lib._components.items()), []))
        libm = [X.lib_members(lib._header)] + [X.lib_members(m) for m in lib._messages.values()]
        job["want_bodies"] = ["ok " + " ".join(_show_rmems(lm)) for lm in libm]
    return job


def resolver_finish(job, rep):
    k, label, dis = job["k"], job["label"], []
    model_res = rep[k]
    if job["outcome"] == "ok":
        if model_res != job["want_components"]:
            dis.append({"input": label, "model": model_res[:300], "impl": job["want_components"][:300],
                        "what": "components (insertion order, members)"})
        for nm, r, want in zip(job["bodies"], rep[k + 1:], job["want_bodies"]):
            if r != want:
                dis.append({"input": f"{label}:{nm}", "model": r[:300], "impl": want[:300], "what": "expanded body"})
                break
    else:
        got = model_res.split(" ")[0]
        # a message body that cannot be expanded is an AssertionError in _parse_message
        if got == "ok" and any(r == "fail" for r in rep[k + 1:]):
            got = "assertion"
        if got != job["outcome"]:
            dis.append({"input": label, "model": model_res[:300], "impl": job["outcome"], "what": "parse outcome"})
    return dis


def resolver_check(drv, path, label):
    """library parse vs resolver model on one XML file -> (n_evals, disagreements, outcome)"""
    job = resolver_job(path, label)
    return len(job["lines"]), resolver_finish(job, drv.batch(job["lines"])), job["outcome"]


def parser_checks(ctx, drv):
    """reader vs library on both dictionaries, permutations, resolver model; returns stats + disagreements"""
    rng = ctx.rng
    dis, stats = [], {"views_compared": 0, "permutations": 0, "resolver_lines": 0, "corpus_xml": {}, "perm_validations": 0}
    jobs = []
    tmp = tempfile.mkdtemp(prefix="c15-")
    try:
        for dn in DICTS:
            ld = load(dn)
            d = X.diff_views(X.ref_view(ld.ref), X.lib_view(ld.lib))
            stats["views_compared"] += 1
            if d:
                dis.append({"input": dn, "model": "reference reader", "impl": d, "what": "parsed dictionary differs"})
            jobs.append(resolver_job(ld.path, dn))
        # permutations of <components> (only FIX44.xml has components; TT's list is empty)
        ld = load("FIX44.xml")
        ref_view = X.ref_view(ld.ref)
        sample = [c for c in build_cases(ctx) if c["dict"] == "FIX44.xml"]
        sample = rng.sample(sample, min(len(sample), 60))
        base_out = [impl_outcome(ld, c["msgtype"], c["nodes"]) for c in sample]
        nperm = ctx.n(20, 200)
        for i in range(nperm):
            mode = "reverse" if i == 0 else "shuffle"
            p = os.path.join(tmp, f"perm{i}.xml")
            with open(p, "w") as f:
                f.write(permuted_xml(ld.path, rng, mode))
            outcome, lib = lib_parse(p)
            stats["permutations"] += 1
            if outcome != "ok":
                dis.append({"input": f"perm#{i}({mode})", "model": "ok", "impl": outcome, "what": "permuted dictionary does not load"})
                continue
            d = X.diff_views(ref_view, X.lib_view(lib))
            if d:
                dis.append({"input": f"perm#{i}({mode})", "model": "reference reader (original order)", "impl": d,
                            "what": "parse result depends on declaration order"})
            if i < ctx.n(3, 30):
                d2 = X.diff_views(ref_view, X.ref_view(X.RefSchema(p)))
                if d2:
                    raise RuntimeError(f"reference reader is order dependent: {d2}")
            if i < ctx.n(6, 30):
                jobs.append(resolver_job(p, f"perm#{i}({mode})"))
            pl = Loaded.__new__(Loaded)
            pl.lib = lib
            for c, want in zip(sample[: ctx.n(20, 60)], base_out):
                got = impl_outcome(pl, c["msgtype"], c["nodes"])
                stats["perm_validations"] += 1
                if got != want:
                    dis.append({"input": {"perm": i, "case": c}, "model": want, "impl": got,
                                "what": "validation outcome depends on declaration order"})
            os.unlink(p)
        # small dictionaries, incl. malformed ones
        for p in sorted(glob.glob(os.path.join(CORPUS, "*.xml"))) + [os.path.join(C.REPO, "tests", "schema_fix_comp_circular.xml"),
                                                                    os.path.join(C.REPO, "tests", "schema_fix_simple.xml")]:
            if not os.path.exists(p):
                continue
            jobs.append(resolver_job(p, os.path.basename(p)))
            outcome = jobs[-1]["outcome"]
            stats["corpus_xml"][os.path.basename(p)] = outcome
            try:
                X.RefSchema(p)
                ref_ok = "ok"
            except X.RefError:
                ref_ok = "error"
            if (outcome == "ok") != (ref_ok == "ok"):
                dis.append({"input": os.path.basename(p), "model": "reference reader: " + ref_ok, "impl": outcome,
                            "what": "loadability differs"})
        # all resolver-model jobs in ONE driver process
        rep = drv.batch(sum((j["lines"] for j in jobs), []))
        pos = 0
        for j in jobs:
            stats["resolver_lines"] += len(j["lines"])
            dis += resolver_finish(j, rep[pos: pos + len(j["lines"])])
            pos += len(j["lines"])
    finally:
        shutil.rmtree(tmp, ignore_errors=True)
    return stats, dis


# ---------------------------------------------------------------------------------------------
# correspondence
# ---------------------------------------------------------------------------------------------
def correspondence(ctx):
    drv = C.Driver()
    cases = build_cases(ctx)
    impl = impl_all(ctx)
    dis, branches, seen = [], {}, set()
    wf = {}
    model_out = {}
    by_dict = {}
    for i, c in enumerate(cases):
        by_dict.setdefault(c["dict"], []).append(i)
    for dn, idxs in by_dict.items():
        ld = load(dn)
        head = schema_lines(ld.ref)
        lines = head + [validate_line(ld, cases[i]["msgtype"], cases[i]["nodes"]) for i in idxs]
        rep = drv.batch(lines)
        if any(r != "ok" for r in rep[: len(head) - 1]):
            raise RuntimeError("driver refused the schema: " + str([r for r in rep[: len(head)] if r != "ok"][:3]))
        wf[dn] = rep[len(head) - 1]
        if not rep[len(head) - 1].startswith("wf 1 "):
            dis.append({"input": dn, "model": rep[len(head) - 1], "impl": "loaded", "what": "schemaWF is false on a real dictionary"})
        for i, ml in zip(idxs, rep[len(head):]):
            c = cases[i]
            il = impl[i]
            model_out[i] = ml
            key = c["cls"].split(":")[0] + "/" + il
            branches[key] = branches.get(key, 0) + 1
            seen.add(lines[len(head) + idxs.index(i)] if False else (dn, c["msgtype"], json.dumps(c["nodes"])))
            if il != ml:
                dis.append({"input": c, "model": ml, "impl": il})
    # history / order independence: the model is a function of (dictionary, message), so every
    # re-validation on another instance, in another order, must give the model's outcome again
    hstats = {"runs": 0, "validations": 0, "targeted_pairs": sum(1 for c in cases if c["cls"] == "history-valid-here")}
    for run in history_runs(ctx):
        hstats["runs"] += 1
        for pos, (i, got) in enumerate(zip(run["idx"], run["out"])):
            hstats["validations"] += 1
            if i in model_out and got != model_out[i]:
                dis.append({"input": {"history_order": run["order"], "position": pos, "case": cases[i]},
                            "model": model_out[i], "impl": got, "what": "outcome in this validation order"})
    hstats["construction_validations"] = 0
    for i, r, got in construction_runs(ctx):
        hstats["construction_validations"] += 1
        if i in model_out and got != model_out[i]:
            dis.append({"input": {"recipe": r, "case": cases[i]}, "model": model_out[i], "impl": got,
                        "what": "outcome for the same message built through another sequence of container operations"})
    hstats["top_order_validations"] = 0
    for i, name, got in top_order_runs(ctx):
        hstats["top_order_validations"] += 1
        # the model (and `Allowed`) is insensitive to the order of top-level nodes: membership only
        if i in model_out and got != model_out[i]:
            dis.append({"input": {"top_order": name, "case": cases[i]}, "model": model_out[i], "impl": got,
                        "what": "outcome for the same top-level content in another insertion order"})
    hstats["interleaved_validations"] = 0
    for i, got in interleaved_run(ctx):
        hstats["interleaved_validations"] += 1
        if i in model_out and got != model_out[i]:
            dis.append({"input": {"history_order": "interleaved-dictionaries", "case": cases[i]}, "model": model_out[i],
                        "impl": got, "what": "outcome with instances of both dictionaries alive and used alternately"})
    pstats, pdis = parser_checks(ctx, drv)
    dis += pdis
    sizes = [sum(1 for _ in _all_nodes(c["nodes"])) for c in cases]
    depths = {}
    for c in cases:
        depths[c["depth"]] = depths.get(c["depth"], 0) + 1
    ctx._c15_wf = wf
    return {
        "evaluations": len(cases) + hstats["validations"] + hstats["construction_validations"] + hstats["top_order_validations"] + hstats["interleaved_validations"] + pstats["resolver_lines"] + pstats["perm_validations"] + pstats["permutations"],
        "distinct_nontrivial": len(seen),
        "rule": "validation cases = corpus + per message type of FIX44.xml (93) and TT-FIX44.xml (40): randomly populated valid "
        "instances (dictionary-directed, nesting depth forced 0..max, every 3rd shuffled at message level) + single-fault "
        "mutants per class x nesting depth (quick: one position class sample; thorough: all positions of 3 instances) + header / "
        "trailer / exception-kind cases + unknown message type; compared: ok / raised msgError / raised assertion / other. "
        "distinct = distinct (dictionary, msgtype, message tree). Plus: reference reader vs library objects, resolver model vs "
        "library components (insertion order) and expanded bodies, permutations of <components>, small malformed dictionaries. "
        "Plus history independence: targeted pairs 'value valid in field A / invalid in field B' (same datatype first, e.g. EndSeqNo=0 "
        "vs every other SEQNUM field; enumerations; across datatypes) validated A-then-B in the run and on fresh instances in both "
        "orders, and a sample of all cases re-validated on fresh FIXSchema instances in the same, reversed and shuffled order, and with "
        "instances of both dictionaries alive and used alternately. Value dimension: every value of a hand-labelled near-valid pool per "
        "datatype (harness/c15_values.py: boundary months / days / week codes, 00, 13, w0, w6, leading zeros, signs, exponents, ...) as the "
        "single fault (or boundary-valid value) of a minimal message, in a top-level and a group-level field of the type (every field for "
        "rare types), plus near-misses of enumerations. Construction dimension: a sample of cases rebuilt by 5 other recipes (constructor "
        "dict, __setitem__, set(replace=True) over a placeholder, del + set / add_group(index=0), str subclass; int / float / Decimal / "
        "enum instead of str, int vs str tags, dict vs container items). Size: 300 / 1500 items in one group, all groups multiplied at "
        "every level of the deepest message. Top-level order: valid instances and every fault class (all header / trailer classes "
        "incl. 'required header field missing') re-validated with header and trailer tags after the body, 8 last, 10 first, fully "
        "shuffled, and 8 deleted and set again through the API.",
        "samples": [{"case": cases[i], "impl": impl[i]} for i in _sample_idx(len(cases))],
        "exhaustive": False,
        "branches": {"outcome_by_class": dict(sorted(branches.items())), "schemaWF": wf, "parser": pstats, "history": hstats},
        "distribution": {"cases": len(cases), "nodes_per_message_max": max(sizes), "nodes_per_message_mean": round(sum(sizes) / len(sizes), 1),
                         "by_depth": depths},
        "disagreements": dis,
    }


def _sample_idx(n):
    return sorted({0, n // 7, n // 3, n // 2, (2 * n) // 3, n - 1} & set(range(n)))


def _all_nodes(nodes):
    for n in nodes:
        yield n
        if n[0] == "g":
            for it in n[2]:
                yield from _all_nodes(it)


# ---------------------------------------------------------------------------------------------
# oracle (implementation only)
# ---------------------------------------------------------------------------------------------
def classify(ld, c, il):
    """property verdict on one implementation outcome -> None or (signature, what, expected)"""
    ok, why = allowed(ld, c["msgtype"], c["nodes"])
    if il.startswith("exc:") or il.startswith("ret:"):
        return (f"C15-foreign-exception:{il}", "an exception other than FIXMessageError / unexpected return value", "ok" if ok else "raised msgError")
    if ok:
        if il == "ok":
            return None
        tags = [n[1] for n in c["nodes"]]
        if any(t in ld.trl and t != "10" for t in tags):
            return ("C15-trailer-member-rejected", "a message carrying a member of the dictionary's <trailer> is rejected", "ok")
        return ("C15-valid-rejected", "a message allowed by the dictionary is rejected", "ok")
    if il == "raised msgError":
        return None
    if il == "raised assertion":
        if why.endswith("empty-value"):
            return ("C15-assertion:empty-value", "an empty string value raises AssertionError instead of FIXMessageError", "raised msgError")
        if why.endswith("group-or-object-for-field"):
            if why.startswith("item-"):
                if _has_class_value(c["nodes"]):
                    return ("C15-assertion:nonstring-value", "a non-string value (class object) raises AssertionError", "raised msgError")
                return ("C15-assertion:group-for-field-in-item", "a plain member of a group item given as a group raises AssertionError", "raised msgError")
            return ("C15-assertion:nonstring-value", "a non-string value (class object) raises AssertionError", "raised msgError")
        return (f"C15-assertion:{why}", "AssertionError instead of FIXMessageError", "raised msgError")
    # accepted although not allowed
    if why.startswith("header-"):
        return ("C15-header-member-unchecked", "a header member with an invalid value / wrong kind / invalid group content is accepted", "raised msgError")
    return (f"C15-accepted:{why}", "a message the dictionary does not allow is accepted", "raised msgError")


def _has_class_value(nodes):
    return any(n[0] == "c" for n in _all_nodes(nodes))


def findings_witnesses():
    out = []
    for e in C.load_findings(PROP):
        w = e.get("witness")
        if isinstance(w, dict) and "nodes" in w:
            out.append({"dict": w["dict"], "msgtype": w["msgtype"], "nodes": w["nodes"], "cls": "witness:" + e["signature"], "depth": 0})
    return out


def oracle(ctx, disagreements, broken):
    failures, n = [], 0
    cases = findings_witnesses()
    # the disagreeing inputs first, then everything the correspondence generated
    for d in disagreements:
        if isinstance(d.get("input"), dict) and "nodes" in d["input"]:
            cases.append(d["input"])
    cases += build_cases(ctx)
    impl = [None] * (len(cases) - len(build_cases(ctx))) + list(impl_all(ctx))
    ctx._c15_oracle_pass = getattr(ctx, "_c15_oracle_pass", 0) + 1
    later_pass = ctx._c15_oracle_pass > 1
    if later_pass:
        # the harness runs the oracle again under another process-wide configuration (DEBUG logging): the
        # implementation is executed again on a sample (targeted cases + random) instead of reusing the outcomes
        rng2 = random.Random(f"C15-oracle-pass/{ctx.seed}/{ctx._c15_oracle_pass}")
        base = len(cases) - len(build_cases(ctx))
        pick = [k for k in range(base, len(cases)) if cases[k]["cls"].split(":")[0] in
                ("history-valid-here", "history-invalid-there", "value-pool-valid", "value-pool-invalid", "corpus")]
        pick += rng2.sample(range(base, len(cases)), min(len(cases) - base, ctx.n(1500, 15000)))
        keep = set(pick)
        cases = cases[:base] + [cases[k] for k in sorted(keep)]
        impl = [None] * len(cases)
    if broken:
        # search harder: more instances with fresh randomness
        rng = random.Random(f"C15-oracle/{ctx.seed}")
        for dn in DICTS:
            ld = load(dn)
            for msg in ld.ref.messages:
                for i in range(6):
                    b = gen_valid(ld, msg, rng, with_header=(i == 5), want_depth=i % 4, shuffle=(i == 2))
                    cases.append({"dict": dn, "msgtype": msg.msgtype, "nodes": b, "cls": "valid", "depth": 0})
                    impl.append(None)
                    for cls, d, nodes in mutants(ld, msg, b, rng, False):
                        cases.append({"dict": dn, "msgtype": msg.msgtype, "nodes": nodes, "cls": cls, "depth": d})
                        impl.append(None)
    for c, il in zip(cases, impl):
        ld = load(c["dict"])
        if il is None:
            il = impl_outcome(ld, c["msgtype"], c["nodes"])
        n += 1
        r = classify(ld, c, il)
        if r:
            failures.append({"signature": r[0], "what": r[1], "input": c, "expected": r[2], "observed": il})
    if later_pass:
        by_sig = {}
        for f in failures:
            by_sig[f["signature"]] = by_sig.get(f["signature"], 0) + 1
        ctx.oracle_stats = {"evaluations": n, "failures": len(failures), "by_signature": by_sig, "pass": ctx._c15_oracle_pass,
                            "note": "implementation re-executed on a sample; history / construction / parser clauses as in pass 1"}
        failures.sort(key=lambda f: (f["signature"], len(json.dumps(f["input"], default=str))))
        return failures
    # history clause: the verdict on a message is the same whatever was validated before on that instance
    allc = build_cases(ctx)
    main_out = impl_all(ctx)
    seen_hist = set()
    # a failure observed in the main run (one shared instance, generation order) that does not show on a
    # fresh instance is a history failure, not a failure of the stateless clause it was classified under
    failures.sort(key=lambda f: (f["signature"], len(json.dumps(f["input"], default=str))))
    per_sig, kept, relabelled, dropped = {}, [], 0, 0
    index_of = {id(c): k for k, c in enumerate(allc)}
    for f in failures:
        c = f["input"]
        k = index_of.get(id(c))
        per_sig[f["signature"]] = per_sig.get(f["signature"], 0) + 1
        if k is None or per_sig[f["signature"]] > 25:
            kept.append(f)
            continue
        ld = load(c["dict"])
        alone = run_sequence(ld, [c])[0]
        if alone == f["observed"]:
            kept.append(f)
            continue
        seen_hist.add(k)
        if relabelled >= 3:
            dropped += 1
            continue
        relabelled += 1
        prefix = [j for j in range(k) if allc[j]["dict"] == c["dict"]]
        hist, got2 = shrink_history(ld, allc, prefix + [k], len(prefix), alone)
        if got2 != alone:
            kept.append({"signature": "C15-verdict-depends-on-history",
                         "what": "the verdict on a message depends on what the same FIXSchema instance validated before",
                         "input": {"dict": c["dict"], "msgtype": c["msgtype"], "nodes": c["nodes"],
                                   "history": [{"msgtype": h["msgtype"], "nodes": h["nodes"]} for h in hist],
                                   "order": "main run (generation order, shared instance)"},
                         "expected": alone + " (fresh instance)", "observed": got2})
    failures = kept
    for run in history_runs(ctx):
        ld = load(run["dict"])
        for pos, (i, got) in enumerate(zip(run["idx"], run["out"])):
            n += 1
            if got == main_out[i] or i in seen_hist:
                continue
            seen_hist.add(i)
            alone = run_sequence(ld, [allc[i]])[0]
            if got != alone:
                hist, got2 = shrink_history(ld, allc, run["idx"], pos, alone)
            else:
                # the main run (shared instance, generation order) is the one that was influenced
                j = next(k for k in range(len(allc)) if k == i)
                prefix = [k for k in range(j) if allc[k]["dict"] == run["dict"]]
                hist, got2 = shrink_history(ld, allc, prefix + [i], len(prefix), alone)
            if got2 != alone:
                failures.append({"signature": "C15-verdict-depends-on-history",
                                 "what": "the verdict on a message depends on what the same FIXSchema instance validated before",
                                 "input": {"dict": run["dict"], "msgtype": allc[i]["msgtype"], "nodes": allc[i]["nodes"],
                                           "history": [{"msgtype": h["msgtype"], "nodes": h["nodes"]} for h in hist],
                                           "order": run["order"]},
                                 "expected": alone + " (fresh instance)", "observed": got2})
    # construction clause: the verdict is a function of what the message contains, not of how it was assembled
    seen_c = set()
    for i, r, got in construction_runs(ctx):
        n += 1
        if got != main_out[i] and (r, got, main_out[i]) not in seen_c:
            c = allc[i]
            small = min((allc[k] for k, r2, g2 in construction_runs(ctx) if r2 == r and g2 != main_out[k] and g2 == got),
                        key=lambda x: len(json.dumps(x["nodes"])))
            seen_c.add((r, got, main_out[i]))
            held = "?"
            try:
                held = dump_container(build_fix(small["msgtype"], small["nodes"], r))
            except Exception as e:  # noqa
                held = "build raised " + type(e).__name__
            failures.append({"signature": f"C15-verdict-depends-on-construction:{r}",
                             "what": "the same message, assembled through another sequence of container operations / with values the API "
                                     "converts to str, gets another verdict",
                             "input": {"dict": small["dict"], "msgtype": small["msgtype"], "nodes": small["nodes"], "recipe": r},
                             "expected": impl_outcome(load(small["dict"]), small["msgtype"], small["nodes"]) + " (as when built with set(tag, str))",
                             "observed": {"outcome": impl_outcome(load(small["dict"]), small["msgtype"], small["nodes"], r),
                                          "container_holds": held}})
    seen_t = set()
    for i, name, got in top_order_runs(ctx):
        n += 1
        if got != main_out[i] and (name, got, main_out[i]) not in seen_t:
            seen_t.add((name, got, main_out[i]))
            small = min((allc[k] for k, n2, g2 in top_order_runs(ctx) if n2 == name and g2 == got and main_out[k] == main_out[i]),
                        key=lambda x: len(json.dumps(x["nodes"])))
            ld = load(small["dict"])
            failures.append({"signature": f"C15-verdict-depends-on-top-level-order:{name}",
                             "what": "the same top-level tags and values, inserted in another order, get another verdict "
                                     "(order is significant only inside repeating-group items)",
                             "input": {"dict": small["dict"], "msgtype": small["msgtype"], "nodes": small["nodes"], "top_order": name,
                                       "reordered": top_order_variant(ld, small["nodes"], name)},
                             "expected": impl_outcome(ld, small["msgtype"], small["nodes"]) + " (as in the original order; allowed() says "
                                         + str(allowed(ld, small["msgtype"], small["nodes"])) + ")",
                             "observed": impl_outcome_order(ld, small["msgtype"], small["nodes"], name)})
    for i, got in interleaved_run(ctx):
        n += 1
        if got != main_out[i] and i not in seen_hist:
            seen_hist.add(i)
            failures.append({"signature": "C15-verdict-depends-on-other-instance",
                             "what": "verdict differs when an instance over the other dictionary is alive and used in between",
                             "input": allc[i], "expected": main_out[i], "observed": got})
    # parser clause: load result equals the dictionary, for every declaration order
    tmp = tempfile.mkdtemp(prefix="c15o-")
    try:
        rng = random.Random(f"C15-oracle-perm/{ctx.seed}")
        for dn in DICTS:
            ld = load(dn)
            d = X.diff_views(X.ref_view(ld.ref), X.lib_view(ld.lib))
            n += 1
            if d:
                failures.append({"signature": "C15-parse-differs-from-dictionary", "what": "parsed objects differ from the XML",
                                 "input": {"xml": dn}, "expected": "equal", "observed": d})
        ld = load("FIX44.xml")
        for i in range(ctx.n(5, 20) * (4 if broken else 1)):
            text = permuted_xml(ld.path, rng, "reverse" if i == 0 else "shuffle")
            p = os.path.join(tmp, "o.xml")
            with open(p, "w") as f:
                f.write(text)
            outcome, lib = lib_parse(p)
            n += 1
            # order dependence = differs from what the library itself parsed in the original order
            d = [outcome] if outcome != "ok" else X.diff_views(X.lib_view(ld.lib), X.lib_view(lib))
            if d:
                keep = os.path.join(C.VERIF, "replays", f"C15-perm-{ctx.seed}-{i}.xml")
                os.makedirs(os.path.dirname(keep), exist_ok=True)
                shutil.copy(p, keep)
                failures.append({"signature": "C15-parse-order-dependent", "what": "result of loading depends on the order of <components>",
                                 "input": {"xml": os.path.relpath(keep, C.VERIF)}, "expected": "as parsed in the original order", "observed": d})
                break
    finally:
        shutil.rmtree(tmp, ignore_errors=True)
    by_sig = {}
    for f in failures:
        by_sig[f["signature"]] = by_sig.get(f["signature"], 0) + 1
    ctx.oracle_stats = {"evaluations": n, "failures": len(failures), "by_signature": by_sig, "searched_harder": bool(broken),
                        "history_failures_not_shrunk": dropped}
    # smallest witness first per signature
    failures.sort(key=lambda f: (f["signature"], len(json.dumps(f["input"], default=str))))
    return failures


def replay(ctx, rp):
    inp = rp["input"]
    if "xml" in inp:
        p = inp["xml"] if os.path.isabs(inp["xml"]) else os.path.join(C.VERIF, inp["xml"])
        if os.path.basename(p) in DICTS:
            p = dict_path(os.path.basename(p))
        outcome, lib = lib_parse(p)
        perm = "perm" in os.path.basename(p)
        ld = load("FIX44.xml" if perm else os.path.basename(p))
        d = [outcome] if outcome != "ok" else X.diff_views(X.lib_view(ld.lib) if perm else X.ref_view(ld.ref), X.lib_view(lib))
        print("replay:", p, "->", d)
        return bool(d)
    ld = load(inp["dict"])
    if "history" in inp:
        alone = run_sequence(ld, [inp])[0]
        after = run_sequence(ld, list(inp["history"]) + [inp])[-1]
        print("replay:", inp["dict"], inp["msgtype"], json.dumps(inp["nodes"])[:200], "alone ->", alone,
              "| after", len(inp["history"]), "earlier validation(s), first:", json.dumps(inp["history"][0])[:200], "->", after)
        return alone != after
    if "top_order" in inp:
        a = impl_outcome(ld, inp["msgtype"], inp["nodes"])
        b = impl_outcome_order(Fresh(ld), inp["msgtype"], inp["nodes"], inp["top_order"])
        print("replay:", inp["dict"], inp["msgtype"], json.dumps(inp["nodes"])[:200], "->", a, "|", inp["top_order"], "->", b)
        return a != b
    if "recipe" in inp:
        a = impl_outcome(ld, inp["msgtype"], inp["nodes"])
        b = impl_outcome(Fresh(ld), inp["msgtype"], inp["nodes"], inp["recipe"])
        print("replay:", inp["dict"], inp["msgtype"], json.dumps(inp["nodes"])[:200], "set(tag,str) ->", a, "|", inp["recipe"], "->", b)
        return a != b
    il = impl_outcome(ld, inp["msgtype"], inp["nodes"])
    r = classify(ld, inp, il)
    print("replay:", inp["dict"], inp["msgtype"], json.dumps(inp["nodes"])[:300], "->", il, r[0] if r else None)
    return bool(r) and r[0] == rp["signature"]
