"""C04 – inbound application messages are delivered in order, once, never past a gap.  DESIGN.md §6 C04.

tie:    (a) the C04 slice of the exhaustive single-step table (every state >= NETWORK_CONN_ESTABLISHED x role x
        {application, custom application, Reject, Heartbeat, TestRequest, ResendRequest, GapFill, Reset} x
        MsgSeqNum in {missing, garbled, below, at, +1, far above, white space} x PossDupFlag x NewSeqNo relation):
        model step == real AsyncFIXConnection step (effects + full post-state) from the same abstract state;
        (b) inbound HISTORIES over a 15-letter alphabet relative to the current expectation, from ACTIVE and from
        every resend-related state: exhaustive up to a depth (every node of the tree is one compared step from the
        state the REAL connection reached) and random histories run lock-step (the real object keeps its own
        state between the events; the model is stepped from its own state).
oracle: written against the real connection only: per history – every on_message() call carries the event's own frame
        and exactly the number expected before the event, delivered numbers strictly increasing, the expected number
        moves only by +1 (accepted frame) or to the NewSeqNo of an honoured SequenceReset, a number above the
        expectation triggers exactly one ResendRequest(BeginSeqNo = expected, EndSeqNo = 0) and no other one is
        written until that gap is closed.
"""
from __future__ import annotations

import glob
import json
import os

from . import common as C
from . import sess_common as S

PROP = "C04"
PROPS_MODULES = ["AsyncFix.Props.C04"]
FINDINGS_MODULE = "AsyncFix.Findings.C04"
ASSUMPTIONS = [
    "frames reach _process_message decoded as the codec decodes them (C01/C10): a Msg is the ordered tag list of the "
    "frame, tags canonical, no repeating groups in the header fields the session layer reads",
    "MsgSeqNum / NewSeqNo are ASCII (int() of non-ASCII digits and > 4300-digit numbers is not modelled)",
    "application hooks (on_message, on_state_change, should_replay ...) return normally and do not touch the connection",
    "histories of the theorems exclude the application's own reset_seq_num() (it restarts the numbering at 1 by design)",
    "gap_one_resend assumes the ResendRequest can be sent (CanSend: transport present, CompIDs latin-1, no journal row "
    "at the next outbound number); when the send raises the exception is swallowed and the watermark stays assigned",
]
MODELLED_NOT_VERIFIED = [
    "C04: collaborator faults (the k-th journal write / transport write raising a foreign exception once) and re-entrant hooks "
    "(on_message awaiting disconnect() = a disconnect racing the suspended reader, awaiting send_msg(), raising) are NOT in the "
    "Lean model (hooks return normally, sends fail only for the modelled reasons): they are covered by the implementation-only "
    "oracle, whose clauses are judged over the whole history incl. the reconnect of the same object after the fault; the one "
    "event whose ResendRequest could not be sent is exempt from 'exactly one ResendRequest' only (cf. CanSend in gap_one_resend)",
    "C04: foreign session-level tags on any frame (36, 123, 7/16, 112, 43, 97, 122, 141, 98/108), role, should_replay, heartbeat "
    "period, gaps > 1000 and reconnects of the same object are inside the theorems' quantifiers (arbitrary Msg tag lists, Conn, sr, "
    "Event lists); the correspondence / oracle sample them: 14 decorations x 15 letters exhaustively as single steps and as first "
    "letter of 2-letter trees, 25% of the random letters decorated, 3% of the random histories of length 25-60",
    "C04: Model/Session*.lean is a hand-written mirror of asyncfix/connection.py + session.py (not extracted); it is "
    "compared with the real connection on the exhaustive single-step slice and on exhaustive / random histories every run",
    "C04: the journal is the abstract store of Model/SessionTypes.lean (C13 ties it to SQLite)",
]

SIG_D6 = "C04-backward-reset-moves-counter-back"
CORPUS = os.path.join(C.VERIF, "corpus", "session")
T0 = S.T0

# ------------------------------------------------------------------------------------------
# single-step slice
# ------------------------------------------------------------------------------------------
SLICE_CLASSES = {
    "App", "App-custom", "Reject", "Heartbeat", "Heartbeat-rightid", "Heartbeat-wrongid", "TestRequest",
    "TestRequest-noid", "Resend-all", "Resend-tail", "Resend-beyond",
    "Reset-below", "Reset-at", "Reset-above", "Reset-N-above", "Reset-zero", "Reset-no36",
    "GapFill-below", "GapFill-at", "GapFill-above", "GapFill-far", "GapFill-garbled",
}


def slice_cases(rng, tier="thorough"):
    # quick: role UNKNOWN only in the two pre-logon states (where the role is still being decided)
    for c in S.single_step_cases(rng, states=list(range(6, 19)), roles=S.ALL_ROLES):
        if tier == "quick" and c[0].role == 0 and c[0].state > 7:
            continue
        lab = c[3]
        if lab.startswith("recv:") and lab[5:] in SLICE_CLASSES:
            yield c


# ------------------------------------------------------------------------------------------
# histories: alphabet relative to the current abstract state
# ------------------------------------------------------------------------------------------
LETTERS = [
    "app@", "app+1", "app+3", "app-1", "app-1pd", "app@pd", "hb@", "hb+2", "treq+1", "rr@",
    "gf@+2", "gf+1", "reset@+5", "reset@-2", "reset=T",
]
EXTRA_LETTERS = ["gf-1", "gf@back", "reset+2+6", "reset-1-1", "tick", "send", "app-none", "app-garbled", "logout@",
                 "app+1500", "gf@+2000", "eof"]
RECONNECT_LETTERS = ["conn", "sendlogon", "logon@", "logon+2"]
BACKWARD_LETTERS = {"reset@-2", "reset-1-1"}
# 'foreign' session-level tags: fields that belong to OTHER message types, as a decoration of ANY letter
# (written `letter|deco`); a tag the letter's own body already carries is not added a second time
DECOS = ["36+5", "36-2", "36next", "36zz", "123Y", "123N", "7-16", "112", "43N", "43Y", "97Y", "122", "141Y", "98-108"]


def deco_tags(deco, ni, seq, now):
    if deco == "36+5":
        return [(36, str(ni + 5))]
    if deco == "36-2":
        return [(36, str(max(1, ni - 2)))]
    if deco == "36next":
        return [(36, str((seq if isinstance(seq, int) else ni) + 1))]
    if deco == "36zz":
        return [(36, "zz")]
    if deco == "123Y":
        return [(123, "Y")]
    if deco == "123N":
        return [(123, "N")]
    if deco == "7-16":
        return [(7, "1"), (16, "0")]
    if deco == "112":
        return [(112, "FOREIGN")]
    if deco == "43N":
        return [(43, "N")]
    if deco == "43Y":
        return [(43, "Y"), (122, S.stamp(now - 3000))]
    if deco == "97Y":
        return [(97, "Y")]
    if deco == "122":
        return [(122, S.stamp(now - 3000))]
    if deco == "141Y":
        return [(141, "Y")]
    if deco == "98-108":
        return [(98, "0"), (108, "1")]
    raise ValueError(deco)


def letter_event(a: S.AbsConn, letter: str, now: int):
    """(sr, event) for one letter, numbered relative to the CURRENT expected number of `a`"""
    ni = a.next_in
    deco = None
    if "|" in letter:
        letter, deco = letter.split("|", 1)

    def rx(mt, body, seq, pd=False):
        body = list(body)
        if deco is not None:
            have = {t for t, _ in body} | ({43, 122} if pd else set())
            body += [(t, v) for t, v in deco_tags(deco, ni, seq, now) if t not in have]
        return ("all", ("recv", now, S.defective(a, "none", mt, body, seq, pd, now)))

    if letter == "app@":
        return rx("D", [(11, f"c{ni}"), (58, "payload")], ni)
    if letter == "app+1":
        return rx("D", [(11, "early")], ni + 1)
    if letter == "app+3":
        return rx("D", [(11, "far")], ni + 3)
    if letter == "app-1":
        return rx("D", [(11, "old")], ni - 1)
    if letter == "app-1pd":
        return rx("D", [(11, "old")], ni - 1, pd=True)
    if letter == "app@pd":
        return rx("8", [(37, f"e{ni}")], ni, pd=True)
    if letter == "hb@":
        return rx("0", [], ni)
    if letter == "hb+2":
        return rx("0", [], ni + 2)
    if letter == "treq+1":
        return rx("1", [(112, "T")], ni + 1)
    if letter == "rr@":
        return rx("2", [(7, str(max(1, a.next_out - 2))), (16, "0")], ni)
    if letter == "gf@+2":
        return rx("4", [(123, "Y"), (36, str(ni + 2))], ni, pd=True)
    if letter == "gf+1":
        return rx("4", [(123, "Y"), (36, str(ni + 3))], ni + 1)
    if letter == "gf-1":
        return rx("4", [(123, "Y"), (36, str(ni + 4))], ni - 1, pd=True)
    if letter == "gf@back":
        return rx("4", [(123, "Y"), (36, str(ni - 1))], ni)
    if letter == "reset@+5":
        return rx("4", [(36, str(ni + 5))], ni)
    if letter == "reset@-2":
        return rx("4", [(36, str(max(1, ni - 2)))], ni)
    if letter == "reset=T":
        # Reset mode numbered like its own NewSeqNo, at the watermark of an open gap (else 3 above the expectation):
        # it is journaled under the number that becomes the expectation, so the next frame collides in the journal
        t = a.max_resend if (a.state == 12 and a.max_resend >= ni) else ni + 3
        return rx("4", [(36, str(t))], t)
    if letter == "reset+2+6":
        return rx("4", [(123, "N"), (36, str(ni + 6))], ni + 2)
    if letter == "reset-1-1":
        return rx("4", [(36, str(max(1, ni - 1)))], max(1, ni - 1))
    if letter == "tick":
        return ("all", ("tick", now))
    if letter == "send":
        return ("all", ("send", now, ("D", [(11, "out")])))
    if letter == "app-none":
        return rx("D", [(11, "x")], None)
    if letter == "app-garbled":
        return rx("D", [(11, "x")], "1x")
    if letter == "logout@":
        return rx("5", [], ni)
    if letter == "app+1500":
        return rx("D", [(11, "veryfar")], ni + 1500)
    if letter == "gf@+2000":
        return rx("4", [(123, "Y"), (36, str(ni + 2000))], ni, pd=True)
    if letter == "eof":
        return ("all", ("eof", now))
    if letter == "conn":
        return ("all", ("conn", "acc" if a.role == 2 else "init"))
    if letter == "sendlogon":
        return ("all", ("send", now, ("A", [(98, "0"), (108, str(a.hb))])))
    if letter == "logon@":
        return rx("A", [(98, "0"), (108, str(a.hb))], ni)
    if letter == "logon+2":
        return rx("A", [(98, "0"), (108, str(a.hb))], ni + 2)
    raise ValueError(letter)


def random_letters(rng, a_start: S.AbsConn, k, impl=None):
    """state-aware random history: decorated letters, reconnects after a disconnect (the SAME object is reused),
    returns a function choosing the next letter from the current abstract state"""
    pool = LETTERS if rng.random() < 0.6 else LETTERS + LETTERS + EXTRA_LETTERS

    def nxt(a):
        r = rng.random()
        if a.state <= 3:
            return "conn" if r < 0.75 else rng.choice(["app@", "tick", "send"])
        if a.state == 6:
            if a.role != 2 and r < 0.8:
                return "sendlogon"
            if a.role == 2 and r < 0.8:
                return "logon@" if r < 0.65 else "logon+2"
        if a.state == 7 and r < 0.85:
            return "logon@" if r < 0.7 else "logon+2"
        L = rng.choice(pool)
        if L in ("app-1", "logout@", "eof") and rng.random() > 0.3:
            L = "app@"  # a too-low frame without PossDupFlag ends the session: keep most histories alive longer
        if "@" in L or "+" in L or "-" in L:
            if rng.random() < 0.25 and L not in ("app-none", "app-garbled"):
                L = L + "|" + rng.choice(DECOS)
        return L

    return nxt


def start_states():
    """ACTIVE and every resend-related state; sends can succeed (socket, consistent journal)"""
    out = []
    for (name, st, mr, ni, no) in [
        ("ACTIVE", 17, 0, 5, 7), ("AWAITING", 12, 7, 5, 7), ("AWAITING-closing", 12, 5, 5, 7),
        ("TOO_HIGH", 11, 0, 5, 7), ("HANDLING", 10, 0, 5, 7), ("ACTIVE-1", 17, 0, 1, 1),
    ]:
        for role in (1, 2):
            a = S.AbsConn(state=st, role=role, was_active=True, next_in=ni, next_out=no, max_resend=mr, sock=True,
                          last_time=T0, hb=30)
            out.append((f"{name}/{role}", S.with_journal(a, "app")))
    return out


def parse_event_tokens(text: str):
    t = text.split(" ")
    k = t[0]
    if k in ("recv", "send"):
        return (k, int(t[1]), S.parse_msg_tok(t[3]))
    if k in ("testreq", "tick", "eof"):
        return (k, int(t[1]))
    if k == "disc":
        return ("disc", int(t[1]), int(t[3]), None if t[4] == "none" else bytes.fromhex(t[4][1:]).decode())
    if k == "conn":
        return ("conn", t[1])
    if k == "reset":
        return ("reset",)
    if k == "fault":
        return ("fault", t[1])
    raise ValueError(text)


def par_batch(drv, groups, workers=4):
    """run groups of driver lines (each group self-contained: stateless `sess.step` lines, or one
    `sess.load` + its `sess.ev` lines) on several driver processes; returns the replies in order"""
    import threading

    if not groups:
        return []
    chunks = [[] for _ in range(min(workers, len(groups)))]
    sizes = [0] * len(chunks)
    where = []
    for g in groups:
        i = sizes.index(min(sizes))
        where.append((i, len(chunks[i]), len(g)))
        chunks[i] += g
        sizes[i] += len(g)
    out = [None] * len(chunks)
    err = []

    def work(i):
        try:
            out[i] = drv.batch(chunks[i]) if chunks[i] else []
        except Exception as e:  # noqa
            err.append(e)

    ths = [threading.Thread(target=work, args=(i,)) for i in range(len(chunks))]
    for t in ths:
        t.start()
    return ths, out, err, where


def par_collect(handle):
    ths, out, err, where = handle
    for t in ths:
        t.join()
    if err:
        raise err[0]
    res = []
    for (i, off, n) in where:
        res += out[i][off:off + n]
    return res


def compare_steps(impl, cases, drv, stats=None):
    """like sess_common.compare_steps, with the model side running on parallel driver processes WHILE the real
    connection is stepped"""
    cases = list(cases)
    lines = [S.step_line(c[0], c[1], c[2]) for c in cases]
    h = par_batch(drv, [lines[i:i + 500] for i in range(0, len(lines), 500)]) if lines else None
    results, ils = [], []
    for case in cases:
        eff, post = impl.step(case[0], case[1], case[2])
        results.append((eff, post))
        ils.append(S.reply(eff, post))
        if stats is not None:
            S.note_stats(stats, case[0], case[2], eff, case[3] if len(case) > 3 else None)
    model = par_collect(h) if h else []
    dis = []
    for case, ml, il in zip(cases, model, ils):
        if il != ml:
            dis.append({"input": {"conn": case[0].tokens(), "sr": case[1], "event": S.event_tokens(case[2]),
                                  "label": case[3] if len(case) > 3 else None}, "model": ml, "impl": il})
    return len(cases), dis, results


FAULTS = ["!jout", "!jin", "!write", "!hookdisc", "!hooksend", "!hookraise"]


class Faults:
    """one-shot collaborator faults / re-entrant hooks on the REAL connection of an `Impl` (oracle only):
    !jout / !jin  – the next OUTBOUND / INBOUND journal write raises sqlite3.OperationalError('database is locked')
    !write        – the next transport write raises ConnectionResetError
    !hookdisc     – the next on_message() awaits disconnect() before returning (= a disconnect racing the reader
                    suspended inside the delivery);  !hooksend – it awaits send_msg();  !hookraise – it raises
    Each fault fires once (effect marker FAULT) and everything works again afterwards."""

    def __init__(self, impl: S.Impl):
        import sqlite3

        self.impl, self.armed = impl, set()
        impl._faults = self
        eff, me, conn = impl.eff, self, impl.conn
        orig_persist = impl.journal.persist_msg
        orig_write = impl.writer.write

        def persist_msg(msg, session, direction):
            k = "!jout" if direction == impl.MD.OUTBOUND else "!jin"
            if k in me.armed:
                me.armed.discard(k)
                eff.append(("FAULT",))
                raise sqlite3.OperationalError("database is locked")
            return orig_persist(msg, session, direction)

        def write(b):
            if "!write" in me.armed:
                me.armed.discard("!write")
                eff.append(("FAULT",))
                raise ConnectionResetError("peer reset")
            return orig_write(b)

        async def on_message(msg):
            eff.append(("D", msg))
            for k in ("!hookdisc", "!hooksend", "!hookraise"):
                if k in me.armed:
                    me.armed.discard(k)
                    eff.append(("FAULT",))
                    if k == "!hookdisc":
                        await conn.disconnect(impl.CS.DISCONNECTED_BROKEN_CONN)
                    elif k == "!hooksend":
                        await conn.send_msg(impl.FIXMessage("D", {11: "fromhook"}))
                    else:
                        raise RuntimeError("application hook failed")

        impl.journal.persist_msg = persist_msg
        impl.writer.write = write
        impl.conn.on_message = on_message

    def arm(self, kind):
        assert kind in FAULTS, kind
        self.armed.add(kind)

    def reset(self):
        self.armed.clear()


def ev_tokens(ev) -> str:
    return f"fault {ev[1]}" if ev[0] == "fault" else S.event_tokens(ev)


def apply_event(impl, faults, sr, ev):
    if ev[0] == "fault":
        if faults is None:
            raise ValueError("fault letter without a Faults instance")
        faults.arm(ev[1])
    else:
        impl.apply(sr, ev)


def scripted(tail):
    """chooser: the letters of `tail` in order, but whenever the connection is down the SAME object is first
    reconnected and logged on again (conn, Logon exchange) – the peer continues its numbering"""
    tail = list(tail)

    def nxt(a):
        if a.state <= 3:
            return "conn"
        if a.state == 6:
            return "sendlogon" if a.role != 2 else "logon@"
        if a.state == 7:
            return "logon@"
        return tail.pop(0) if tail else "app@"

    return nxt


def run_letters(impl: S.Impl, start: S.AbsConn, letters, lockstep=True, chooser=None, sr_override=None, faults=None):
    """run a letter history on the REAL connection; returns steps [(sr, ev, letter, pre_tokens, eff, post_tokens)].
    `letters` is a list, or a length when `chooser(a)` picks each letter from the current abstract state."""
    impl.load(start)
    faults = faults or getattr(impl, "_faults", None)
    if faults is not None:
        faults.reset()
    a, now, steps = start, T0, []
    n = letters if chooser else len(letters)
    for i in range(n):
        L = chooser(a) if chooser else letters[i]
        now += 250
        sr, ev = ("all", ("fault", L)) if L.startswith("!") else letter_event(a, L, now)
        if sr_override:
            sr = sr_override
        if not lockstep:
            impl.load(a)
        del impl.eff[:]
        apply_event(impl, faults, sr, ev)
        eff, post = impl.effects(), impl.dump()
        steps.append((sr, ev, L, a.tokens(), eff, post))
        a = S.parse_conn_tokens(post)
    return steps


def hist_input(start, steps, upto=None):
    steps = steps if upto is None else steps[: upto + 1]
    return {"history": {"start": start.tokens(), "events": [[s[0], ev_tokens(s[1])] for s in steps],
                        "letters": [s[2] for s in steps]}}


def compare_lockstep(impl, drv, runs):
    """runs: [(start, steps)] – model stepped from ITS OWN state (sess.load / sess.ev)."""
    groups, index = [], []
    for hi, (start, steps) in enumerate(runs):
        g = ["sess.load " + start.tokens()]
        index.append(None)
        for si, s in enumerate(steps):
            g.append(f"sess.ev {s[0]} {S.event_tokens(s[1])}")
            index.append((hi, si))
        groups.append(g)
    model = par_collect(par_batch(drv, groups)) if groups else []
    dis, bad, n = [], set(), 0
    for ml, ix in zip(model, index):
        if ix is None:
            continue
        hi, si = ix
        n += 1
        if hi in bad:
            continue
        start, steps = runs[hi]
        il = S.reply(steps[si][4], steps[si][5])
        if il != ml:
            bad.add(hi)
            d = hist_input(start, steps, si)
            d["step"] = si
            dis.append({"input": d, "model": ml, "impl": il})
    return n, dis


def exhaustive_tree(impl, drv, start, alphabet, depth, stats):
    """every history over `alphabet` up to `depth` from `start`: each tree node = ONE step of the real connection
    from the state it reached, compared with the model's step from the same state. Returns (steps, disagreements)."""
    frontier = [(start, [])]
    total, dis = 0, []
    for d in range(depth):
        cases = []
        alpha_d = alphabet[d] if isinstance(alphabet[0], list) else alphabet
        for a, path in frontier:
            for L in alpha_d:
                sr, ev = letter_event(a, L, T0 + 250 * (d + 1))
                cases.append((a, sr, ev, "tree:" + ",".join(path + [L])))
        n, dd, results = compare_steps(impl, cases, drv, None)
        total += n
        dis += dd
        for case, (eff, post) in zip(cases, results):
            L = case[3].rsplit(",", 1)[-1].replace("tree:", "")
            stats.setdefault("event", {})
            stats["event"]["hist:" + L] = stats["event"].get("hist:" + L, 0) + 1
            for e in eff:
                k = e.split("=")[0]
                stats.setdefault("effect", {})
                stats["effect"][k] = stats["effect"].get(k, 0) + 1
        if d + 1 < depth:
            nxt, seen = [], set()
            for (case, (eff, post)) in zip(cases, results):
                # distinct reached states only (a step is a function of the abstract state and the event)
                if post in seen:
                    continue
                seen.add(post)
                nxt.append((S.parse_conn_tokens(post), case[3][5:].split(",")))
            frontier = nxt
    return total, dis


def corpus_runs():
    out = []
    for path in sorted(glob.glob(os.path.join(CORPUS, "c04_*.json"))):
        with open(path) as f:
            e = json.load(f)
        out.append((os.path.basename(path), e))
    return out


def correspondence(ctx):
    impl = S.Impl()
    drv = C.Driver()
    stats = {}
    try:
        # (a) single-step slice
        cases = list(slice_cases(ctx.rng, ctx.tier))
        n1, dis, _ = compare_steps(impl, cases, drv, stats)
        distinct = len({(c[0].tokens(), S.event_tokens(c[2])) for c in cases})
        # (a2) every letter x every foreign-tag decoration, as single steps from varied states
        dcases = []
        k = ctx.rng.randrange(1000)
        for stt in (8, 10, 11, 12, 17):
            for role in (1, 2):
                for L in LETTERS:
                    for D in DECOS:
                        k += 1
                        a = S.with_journal(S.base_state(stt, role, k), "app")
                        a.sock = True
                        sr_, ev_ = letter_event(a, L + "|" + D, T0)
                        dcases.append((a, sr_, ev_, f"deco:{L}|{D}"))
        n1b, disb, _ = compare_steps(impl, dcases, drv, None)
        n1 += n1b
        dis += disb
        distinct += len(dcases)
        # (b) corpus + random lock-step histories
        runs = []
        starts = start_states()
        for name, e in corpus_runs():
            st = S.parse_conn_tokens(e["start"])
            runs.append((st, run_letters(impl, st, e["letters"])))
        nh = ctx.n(1500, 12000)
        lens, cfg = {}, {"sr": {}, "hb": {}, "role": {}, "decorated_letters": 0, "reconnect_letters": 0, "long": 0}
        for _ in range(nh):
            name, st = ctx.rng.choice(starts)
            st = st.copy()
            st.hb = ctx.rng.choice([30, 30, 1, 5])
            sr = ctx.rng.choice(["all", "all", "none", f"d{max(1, st.next_out - 2)}"])
            long_ = ctx.rng.random() < 0.03
            k = ctx.rng.randint(25, 60) if long_ else ctx.rng.randint(3, 12)
            steps = run_letters(impl, st, k, chooser=random_letters(ctx.rng, st, k), sr_override=sr)
            for s in steps:
                S.note_stats(stats, S.parse_conn_tokens(s[3]), s[1], s[4], "hist:" + s[2].split("|")[0])
                cfg["decorated_letters"] += "|" in s[2]
                cfg["reconnect_letters"] += s[2] in RECONNECT_LETTERS
            lens[min(k, 25)] = lens.get(min(k, 25), 0) + 1
            cfg["long"] += long_
            for key, v in (("sr", sr[0]), ("hb", st.hb), ("role", st.role)):
                cfg[key][v] = cfg[key].get(v, 0) + 1
            runs.append((st, steps))
        n2, dis2 = compare_lockstep(impl, drv, runs)
        distinct += len({(tuple(s[2] for s in steps), st.tokens()) for st, steps in runs})
        # (c) exhaustive trees
        n3, dis3 = 0, []
        depth_all = ctx.n(3, 4)
        for i, (name, st) in enumerate(starts):
            if ctx.tier == "quick" and i % 3 != 0:
                continue  # ACTIVE/1, AWAITING/2, TOO_HIGH/1, HANDLING/2; thorough: all 12
            n, dd = exhaustive_tree(impl, drv, st, LETTERS, depth_all, stats)
            n3 += n
            dis3 += dd
        # (c2) decorated first letter, then every plain letter (a foreign tag shows on the NEXT frames)
        decorated = [L + "|" + D for L in LETTERS for D in DECOS]
        for i, (name, st) in enumerate(starts):
            if ctx.tier == "quick" and i not in (0, 3):
                continue
            second = LETTERS if ctx.tier == "thorough" else ["app@", "app+3", "app-1pd", "hb@", "gf@+2", "reset@+5"]
            n, dd = exhaustive_tree(impl, drv, st, [decorated, second], 2, stats)
            n3 += n
            dis3 += dd
        if ctx.tier == "thorough":
            n, dd = exhaustive_tree(impl, drv, starts[0][1], LETTERS, 5, stats)
            n3 += n
            dis3 += dd
            n, dd = exhaustive_tree(impl, drv, starts[2][1], LETTERS, 5, stats)
            n3 += n
            dis3 += dd
    finally:
        impl.close()
    alld = dis + dis2 + dis3
    return {
        "evaluations": n1 + n2 + n3,
        "distinct_nontrivial": distinct + n3,
        "rule": "one evaluation = one event run on the real AsyncFIXConnection and on the Lean model, compared on the "
        "canonical effect list and the complete abstract post-state (state, role, counters, watermark, TestReqID, "
        "timestamps, socket, stored counters, journal rows). (a) C04 slice of the exhaustive single-step table; "
        "(a2) every letter x 14 foreign-tag decorations (36, 123, 7/16, 112, 43, 97, 122, 141, 98/108) as single steps from 5 states x 2 roles; "
        "(b) corpus + state-aware random letter histories (length 3-12, 3% of length 25-60; 25% of the letters decorated; reconnect of the same "
        "object after a disconnect; should_replay all / none / one declined; heartbeat period 1 / 5 / 30) run lock-step; (c) exhaustive letter trees "
        f"(15 letters, depth {depth_all} from {4 if ctx.tier == 'quick' else 12} start states" + (", depth 5 from ACTIVE and from AWAITING" if ctx.tier == "thorough" else "")
        + "; (c2) decorated first letter x plain second letter) , one compared step per tree node from the state the real connection reached, duplicates of a reached state "
        "expanded once. distinct = distinct (state, event) pairs of (a) + distinct histories of (b) + tree nodes of (c)",
        "samples": [{"input": {"conn": c[0].tokens()[:80], "event": S.event_tokens(c[2])[:160], "label": c[3]}}
                    for c in cases[:: max(1, len(cases) // 4)][:4]],
        "exhaustive": True,
        "distribution": {"single_step": n1, "decorated_single_steps": n1b, "lockstep_events": n2, "tree_steps": n3,
                         "history_lengths(25=long 25-60)": lens, "history_config": cfg, "decorations": DECOS,
                         "states": stats.get("state", {}), "events": stats.get("event", {}),
                         "effects": stats.get("effect", {}), "exceptions": stats.get("exception", {})},
        "disagreements": alld,
    }


# ------------------------------------------------------------------------------------------
# oracle (real connection only)
# ------------------------------------------------------------------------------------------


def _fields(tok):
    mt, fs = S.parse_msg_tok(tok)
    return mt, fs


def _get(fs, tag):
    for t, v in fs:
        if t == tag:
            return v
    return None


def _int(s):
    try:
        return int(s)
    except (TypeError, ValueError):
        return None


def check_history(start: S.AbsConn, steps):
    """property clauses on one run of the REAL connection. yields failures (signature, what, step, expected, observed)"""
    fails = []
    pre = start
    delivered = []
    # (watermark, begin) of the open gap; a history started in RESENDREQ_AWAITING starts inside one
    gap = (start.max_resend, None) if start.state == 12 else None
    backward_seen = False
    for si, (sr, ev, L, pre_tok, eff, post_tok) in enumerate(steps):
        post = S.parse_conn_tokens(post_tok)
        exp = pre.next_in
        frame = ev[2] if ev[0] == "recv" else None
        mt = frame[0] if frame else None
        fs = frame[1] if frame else []
        seq = _int(_get(fs, 34))
        new = _int(_get(fs, 36))
        gapfill = _get(fs, 123) == "Y"
        is_reset = mt == "4"
        this_backward = bool(is_reset and not gapfill and new is not None and new < exp)
        # an injected collaborator fault fired in this event: the property is silent about the failing operation itself
        # (a ResendRequest that could not be sent), all other clauses and ALL later events are judged as usual
        faulted = "FAULT" in eff

        def fail(sig, what, expected=None, observed=None):
            if sig != SIG_D6 and (backward_seen or this_backward) and sig in (
                    "C04-delivered-not-increasing", "C04-resend-wrong-range", "C04-second-resend", "C04-gap-no-resend",
                    "C04-delivered-past-gap", "C04-skipped-past-gap", "C04-gap-state", "C04-gap-watermark",
                    "C04-awaiting-not-left", "C04-awaiting-left-early"):
                sig = SIG_D6  # consequences of the counter having been moved back
            fails.append({"signature": sig, "what": what, "step": si, "expected": expected, "observed": observed})

        # ---- deliveries
        ds = [e for e in eff if e.startswith("D=")]
        if len(ds) > 1:
            fail("C04-delivered-twice-in-one-event", "more than one on_message call for one frame", 1, len(ds))
        for d in ds:
            dmt, dfs = _fields(d[2:])
            dn = _int(_get(dfs, 34))
            if frame is None or (dmt, dfs) != (mt, fs):
                fail("C04-delivered-foreign-message", "on_message got something else than the frame being processed")
            if dn != exp:
                fail("C04-delivered-not-expected", "on_message for a MsgSeqNum that is not the expected one", exp, dn)
            if mt in ("0", "1", "2", "4", "5", "A"):
                fail("C04-session-message-delivered", "a session-level message reached on_message", None, mt)
            if pre.state < 8:
                fail("C04-delivered-before-logon", "on_message before a Logon was received", None, pre.state)
            if delivered and dn is not None and dn <= delivered[-1]:
                fail("C04-delivered-not-increasing", "delivered MsgSeqNums are not strictly increasing",
                     f"> {delivered[-1]}", dn)
            if dn is not None:
                delivered.append(dn)
            if post.next_in != exp + 1:
                fail("C04-delivered-counter-not-advanced", "expected number did not advance by one on delivery",
                     exp + 1, post.next_in)
        # ---- movement of the expected number
        if post.next_in != exp:
            if ev[0] == "reset":
                pass
            elif ev[0] != "recv":
                fail("C04-counter-moved-without-frame", f"expected number changed on a '{ev[0]}' event", exp, post.next_in)
            elif post.next_in == exp + 1 and not is_reset and seq == exp:
                pass
            elif is_reset and new is not None and post.next_in == new and new > 0 and (
                    not gapfill or (seq == exp and new > seq)):
                if new < exp:
                    fail(SIG_D6, "Reset-mode SequenceReset with NewSeqNo below the expected number moved it back",
                         f">= {exp}", new)
            else:
                fail("C04-counter-moved-illegally",
                     "expected number changed other than by +1 on the expected frame or to the NewSeqNo of an honoured SequenceReset",
                     exp, post.next_in)
        # ---- ResendRequests written by the receiver
        rrs = []
        for e in eff:
            if e.startswith("W="):
                wmt, wfs = _fields(e[2:])
                if wmt == "2":
                    rrs.append((_int(_get(wfs, 7)), _get(wfs, 16)))
        for (b, e16) in rrs:
            begin_ok = b == exp or (is_reset and not gapfill and new is not None and b == new)
            if not begin_ok or e16 != "0":
                fail("C04-resend-wrong-range", "ResendRequest does not start at the expected number / end at 0",
                     (exp, "0"), (b, e16))
            if this_backward and b == new:
                fail(SIG_D6, "backward Reset-mode SequenceReset: the receiver re-requests already delivered numbers",
                     None, (b, e16))
        if rrs and ev[0] == "recv" and not (seq is not None and seq > exp) and not (is_reset and not gapfill):
            fail("C04-resend-without-gap", "ResendRequest written for a frame that is not numbered above the expectation",
                 0, len(rrs))
        if gap is not None and rrs:
            fail("C04-second-resend", "another ResendRequest while the gap is still open", 0, len(rrs))
        if len(rrs) > 1:
            fail("C04-second-resend", "two ResendRequests for one frame", 1, len(rrs))
        # a frame of the property's alphabet above the expectation must trigger one, unless a gap is already open
        integrity_ok = (frame is not None and _get(fs, 8) == "FIX.4.4" and _get(fs, 49) == pre.target
                        and _get(fs, 56) == pre.sender and seq is not None)
        # non-vacuity of "only the expected number": the expected application frame IS delivered (nothing is skipped)
        if integrity_ok and seq == exp and pre.state >= 8 and mt not in ("0", "1", "2", "4", "5", "A") and not ds:
            fail("C04-expected-not-delivered", "application frame carrying the expected number was not delivered", 1, 0)
        above = integrity_ok and seq > exp and mt not in ("A", "5") and not (is_reset and not gapfill)
        # the ResendRequest itself could not be sent (injected fault, or a swallowed exception and nothing written): the
        # property – like gap_one_resend's CanSend – is silent about that send; nothing may be delivered or skipped all the same
        send_failed = faulted or (not rrs and any(e.startswith("C=") for e in eff))
        if above and pre.state >= 8 and pre.sock and (pre.state != 12 or gap is None):
            if len(rrs) != 1 and not send_failed:
                fail("C04-gap-no-resend", "number above the expectation did not trigger exactly one ResendRequest", 1, len(rrs))
            if ds:
                fail("C04-delivered-past-gap", "a frame numbered above the expectation was delivered")
            if post.next_in != exp:
                fail("C04-skipped-past-gap", "expected number moved on a frame numbered above it", exp, post.next_in)
            if send_failed:
                pass
            elif post.state not in (12, 1, 2, 3):
                fail("C04-gap-state", "state after a detected gap is not RESENDREQ_AWAITING", 12, post.state)
            elif post.state == 12 and post.max_resend != seq:
                fail("C04-gap-watermark", "watermark is not the number that revealed the gap", seq, post.max_resend)
        # ---- gap bookkeeping (from observable facts only)
        if rrs and post.state == 12:
            gap = (post.max_resend, rrs[0][0])
        if gap is not None and (post.state != 12 or post.next_in > gap[0]):
            gap = None
        if pre.state == 12 and post.state == 17 and ev[0] == "recv":
            if not (post.next_in - 1 >= pre.max_resend and post.next_in != exp):
                fail("C04-awaiting-left-early", "RESENDREQ_AWAITING left before the watermark was reached",
                     f"next_in-1 >= {pre.max_resend}", post.next_in)
        if pre.state == 12 and post.state == 12 and ev[0] == "recv" and post.next_in != exp and post.max_resend > 0 \
                and post.next_in - 1 >= post.max_resend and not this_backward:
            fail("C04-awaiting-not-left", "watermark reached but the state stayed RESENDREQ_AWAITING",
                 17, post.state)
        backward_seen = backward_seen or this_backward
        pre = post
    return fails


def check_set_next_num_in():
    """clause 'the expected number changes only by one per accepted message', on FIXSession.set_next_num_in alone:
    a non-SequenceReset message moves the counter iff it carries exactly the expected number"""
    from asyncfix import FIXMessage
    from asyncfix.session import FIXSession

    fails, n = [], 0
    for ni in (1, 5, 2**32 + 3):
        for off in (-2, -1, 0, 1, 2, 1000):
            for mt in ("D", "0", "8", "A", "5"):
                sess = FIXSession("k", "T", "S")
                sess.next_num_in = ni
                msg = FIXMessage(mt)
                msg.set(34, str(ni + off))
                r = sess.set_next_num_in(msg)
                n += 1
                want = (ni + off, ni + 1) if off == 0 else (-1, ni)
                if (r, sess.next_num_in) != want:
                    fails.append({"signature": "C04-set-next-num-in-accepts-unexpected",
                                  "what": "FIXSession.set_next_num_in() moved / kept the counter against the rule",
                                  "input": {"unit": "set_next_num_in", "next_num_in": ni, "msg_type": mt, "MsgSeqNum": ni + off},
                                  "expected": want, "observed": (r, sess.next_num_in)})
    return n, fails


D6_WITNESS = {"start": "ACTIVE/1", "letters_explicit": [
    # expecting 5: deliver 5; Reset-mode SequenceReset 34=6 NewSeqNo=3; 3, 4, 5 delivered again
    ("D", 5, []), ("4", 6, [(36, "3")]), ("D", 3, []), ("D", 4, []), ("D", 5, [])]}


def run_explicit(impl, start: S.AbsConn, frames):
    """frames = [(mtype, seq, body)] with absolute numbers; lock-step on the real connection"""
    impl.load(start)
    a, now, steps = start, T0, []
    for (mt, seq, body) in frames:
        now += 250
        ev = ("recv", now, S.defective(a, "none", mt, [(t, v) for t, v in body] + ([(58, "x")] if mt == "D" else []), seq, False, now))
        del impl.eff[:]
        impl.apply("all", ev)
        eff, post = impl.effects(), impl.dump()
        steps.append(("all", ev, f"{mt}@{seq}", a.tokens(), eff, post))
        a = S.parse_conn_tokens(post)
    return steps


def _mk_failures(start, steps, fails):
    out = []
    for f in fails:
        inp = hist_input(start, steps, f["step"])
        out.append({"signature": f["signature"], "what": f["what"], "input": inp["history"],
                    "expected": f["expected"], "observed": f["observed"]})
    return out


def oracle(ctx, disagreements, broken):
    impl = S.Impl()
    failures, stats = [], {"histories": 0, "events": 0, "delivered": 0, "resend_requests": 0, "gaps_closed": 0,
                           "by_signature": {}}
    starts = dict(start_states())
    faults = Faults(impl)
    try:
        def run_and_check(st, steps):
            stats["histories"] += 1
            stats["events"] += len(steps)
            for s in steps:
                stats["delivered"] += sum(1 for e in s[4] if e.startswith("D="))
                stats["resend_requests"] += sum(1 for e in s[4] if e.startswith("W=x32,"))
                if s[3].split(" ")[0] == "12" and s[5].split(" ")[0] == "17":
                    stats["gaps_closed"] += 1
            fl = _mk_failures(st, steps, check_history(st, steps))
            # one failure per signature and history is enough
            seen = set()
            for f in fl:
                if f["signature"] not in seen:
                    seen.add(f["signature"])
                    failures.append(f)
                    stats["by_signature"][f["signature"]] = stats["by_signature"].get(f["signature"], 0) + 1

        # 1 the witness of the open finding, on the real connection
        st = starts["ACTIVE/1"]
        run_and_check(st, run_explicit(impl, st, D6_WITNESS["letters_explicit"]))
        # 2 corpus
        for name, e in corpus_runs():
            st = S.parse_conn_tokens(e["start"])
            run_and_check(st, run_letters(impl, st, e["letters"]))
        nunit, ufails = check_set_next_num_in()
        stats["set_next_num_in_calls"] = nunit
        failures.extend(ufails[:3])
        # 3 histories on which model and implementation disagreed, first – each also continued with a frame numbered
        #   above the expectation and with in-sequence traffic (a wrong state / counter shows on the NEXT frames)
        if broken:
            tails = [[], ["app+3", "app@"], ["app@", "app+3", "app@"]]
            done = set()
            for d in disagreements[:300]:
                inp = d["input"]
                h = inp.get("history")
                lab = inp.get("label") or ""
                if h and h.get("letters"):
                    st = S.parse_conn_tokens(h["start"])
                    for t in tails:
                        run_and_check(st, run_letters(impl, st, h["letters"] + t))
                elif lab.startswith("tree:"):
                    path = lab[5:].split(",")
                    if tuple(path) in done:
                        continue
                    done.add(tuple(path))
                    for name, st in start_states():
                        for t in tails[:2]:
                            run_and_check(st, run_letters(impl, st, path + t))
                elif inp.get("conn"):
                    a = S.parse_conn_tokens(inp["conn"])
                    ev = parse_event_tokens(inp["event"])
                    for t in (["app@", "app@", "app@"], ["app+3", "app@"]):
                        faults.reset()
                        impl.load(a)
                        del impl.eff[:]
                        impl.apply(inp["sr"], ev)
                        eff, post = impl.effects(), impl.dump()
                        steps = [(inp["sr"], ev, "single", a.tokens(), eff, post)]
                        steps += _continue(impl, S.parse_conn_tokens(post), t)
                        run_and_check(a, steps)
        # 4 search: exhaustive short histories + random ones
        import itertools
        depth = 3 if not broken else 4
        sts = start_states()
        if ctx.tier == "quick" and not broken:
            sts = [x for i, x in enumerate(sts) if i % 2 == (i // 2) % 2]  # 6 of the 12 (both roles occur)
        budget = ctx.n(15000, 400000) * (4 if broken else 1)
        for name, st in sts:
            for letters in itertools.product(LETTERS, repeat=depth):
                if stats["events"] > budget:
                    break
                run_and_check(st, run_letters(impl, st, list(letters)))
        # every letter with every foreign-tag decoration, followed by in-sequence / too-high traffic
        dsts = sts if (ctx.tier == "thorough" or broken) else sts[::2]
        stats["decorated_histories"] = 0
        for name, st in dsts:
            for L in LETTERS:
                for D in DECOS:
                    for tail in (["app@", "app@"], ["app+3", "app@"]):
                        run_and_check(st, run_letters(impl, st, [L + "|" + D] + tail))
                        stats["decorated_histories"] += 1
        # collaborator faults and re-entrant hooks: every fault kind armed before every letter, then traffic above and at
        # the expectation; when the connection went down the same object reconnects and the peer continues its numbering
        stats["fault_histories"], stats["faults_fired"] = 0, 0
        for name, st in dsts:
            for F in FAULTS:
                for L in LETTERS:
                    for tail in (["app+3", "app@", "app@"], ["app@", "app+3", "app@"]):
                        steps = run_letters(impl, st, 9, chooser=scripted([F, L] + tail), faults=faults)
                        stats["fault_histories"] += 1
                        stats["faults_fired"] += sum("FAULT" in x[4] for x in steps)
                        run_and_check(st, steps)
        nrand = ctx.n(600, 10000) * (4 if broken else 1)
        names = sorted(starts)
        stats["long_histories"] = 0
        for _ in range(nrand):
            st = starts[ctx.rng.choice(names)].copy()
            st.hb = ctx.rng.choice([30, 30, 1, 5])
            sr = ctx.rng.choice(["all", "all", "none", f"d{max(1, st.next_out - 2)}"])
            long_ = ctx.rng.random() < 0.03
            k = ctx.rng.randint(25, 60) if long_ else ctx.rng.randint(2, 14)
            stats["long_histories"] += long_
            ch = random_letters(ctx.rng, st, k)
            if ctx.rng.random() < 0.4:
                base, rng_ = ch, ctx.rng
                pending = []

                def ch(a, base=base, pending=pending, rng_=rng_):
                    if pending:
                        return pending.pop()
                    L = base(a)
                    if a.state >= 8 and rng_.random() < 0.15:
                        pending.append(L)
                        return rng_.choice(FAULTS)
                    return L
            run_and_check(st, run_letters(impl, st, k, chooser=ch, sr_override=sr, faults=faults))
    finally:
        impl.close()
    stats["failures"] = len(failures)
    ctx.oracle_stats = stats
    # smallest witness first per signature
    failures.sort(key=lambda f: (f["signature"], len(f["input"].get("events", []))))
    return failures


def _continue(impl, a, letters):
    steps, now = [], T0 + 100000
    for L in letters:
        now += 250
        sr, ev = letter_event(a, L, now)
        del impl.eff[:]
        impl.apply(sr, ev)
        eff, post = impl.effects(), impl.dump()
        steps.append((sr, ev, L, a.tokens(), eff, post))
        a = S.parse_conn_tokens(post)
    return steps


def replay(ctx, rp):
    impl = S.Impl()
    try:
        h = rp["input"]
        if h.get("unit") == "set_next_num_in":
            _, uf = check_set_next_num_in()
            print("replay: set_next_num_in ->", [f["input"] for f in uf][:3])
            return bool(uf)
        st = S.parse_conn_tokens(h["start"])
        faults = Faults(impl)
        impl.load(st)
        a, steps = st, []
        for (sr, evt), L in zip(h["events"], h.get("letters") or [""] * len(h["events"])):
            ev = parse_event_tokens(evt)
            del impl.eff[:]
            apply_event(impl, faults, sr, ev)
            eff, post = impl.effects(), impl.dump()
            steps.append((sr, ev, L, a.tokens(), eff, post))
            a = S.parse_conn_tokens(post)
        fails = check_history(st, steps)
    finally:
        impl.close()
    sigs = sorted({f["signature"] for f in fails})
    print("replay:", h.get("letters") or len(h["events"]), "->", sigs)
    for s in steps:
        print("  ", s[2], "|", ";".join(e[:60] for e in s[4]) or "-", "| next_in", S.parse_conn_tokens(s[5]).next_in,
              "state", S.parse_conn_tokens(s[5]).state)
    return rp["signature"] in sigs
