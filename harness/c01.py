"""C01 – encode/decode round trip preserves every well-formed message.  DESIGN.md §6 C01.

proof:  Props/C01.lean (encode output = mkFrame of header + wire-order fields; decode of a valid frame
        = field loop; the field loop rebuilds every wfTop container)
tie:    model encode/decode vs Codec.encode/Codec.decode on WF and non-WF messages; the theorem's
        hypothesis `wfTop` evaluated by the driver on every generated message and compared with the
        harness' own definition of well-formedness
oracle: round trip on the implementation alone against an independently built expectation
"""
from __future__ import annotations

from . import codec_common as K
from . import common as C
from .c02 import NOW, gen_case, parse_tok_tree

PROP = "C01"
PROPS_MODULES = ["AsyncFix.Props.C01", "AsyncFix.Props.C01Bridge"]
ASSUMPTIONS = [
    "frames are byte strings; the decoder's latin-1 step is a bijection between bytes and code points < 256",
    "BodyLength has at most 4300 digits (CPython's int() limit): frames shorter than 10^4300 bytes",
]
MODELLED_NOT_VERIFIED = [
    "C01: Codec.encode/_addTag/decode and FIXContainer.set/add_group are hand-modelled (Model/Codec/*.lean) and compared "
    "with the implementation on generated messages over the implementation's own group table, in both directions",
]


def expected_tree(mtype, tree, sender, target, seq_text, now, body_len, cksum):
    hdr = [("L", "8", "FIX.4.4"), ("L", "9", str(body_len)), ("L", "35", mtype), ("L", "49", sender),
           ("L", "56", target), ("L", "34", seq_text), ("L", "52", now)]
    body = [n for n in tree if n[1] not in K.SKIP_TAGS]
    return hdr + body + [("L", "10", "%03d" % cksum)]


def seq_text_of(case, mode):
    mtype, tree, sender, target, nxt, raw, now = case
    if mode in ("alloc", "alloc-stale"):
        return str(nxt)
    for n in tree:
        if n[1] == "34":
            return str(int(n[2]))
    return None


def gen(ctx, i):
    rng = ctx.rng
    case, mode = gen_case(rng, i)
    return case, mode


def strip_nonlatin(case):
    mtype, tree, sender, target, nxt, raw, now = case

    def ok(s):
        return all(ord(c) < 256 for c in s)

    def clean(nodes):
        out = []
        for n in nodes:
            if n[0] == "L":
                out.append(("L", n[1], "".join(c for c in n[2] if ord(c) < 256)))
            elif n[0] == "G":
                out.append(("G", n[1], [clean(it) for it in n[2]]))
            else:
                out.append(n)
        return out

    return (mtype, clean(tree), "".join(c for c in sender if ord(c) < 256), target, nxt, raw, now)


def roundtrip_impl(impl, case, mode):
    """returns (failure dict | None, info)"""
    mtype, tree, sender, target, nxt, raw, now = case
    keep = mode != "alloc"
    if not K.wf_msg(mtype, tree if mode != "possdup" else [n for n in tree if n[1] != "43"] , keep) and mode != "possdup":
        return None, "not-wf"
    r, f = impl.encode(*case)
    if f is None:
        return None, "encode-refused"
    try:
        frame = f.encode("latin-1")
    except UnicodeEncodeError:
        return None, "not-latin1"
    d = impl.decode(frame)
    # independent expectation: BodyLength / CheckSum recomputed by the reference framer
    st = seq_text_of(case, mode)
    body_fields = [f"35={mtype}", f"49={sender}", f"56={target}", f"34={st}", f"52={now}"] + K.flatten(
        [n for n in tree if n[1] not in K.SKIP_TAGS])
    ref = K.ref_frame(body_fields)
    body_len = sum(len(x.encode("latin-1")) + 1 for x in body_fields)
    ck = int(ref[-4:-1])
    exp = "msg %d %s %s %s" % (len(frame), C.cp(frame), C.cp(mtype),
                               K.tok_tree(expected_tree(mtype, tree, sender, target, st, now, body_len, ck)))
    if ref != frame:
        return {"signature": "C01-encoder-differs-from-reference-framer", "what": "encoder bytes differ from the reference framing of the same fields",
                "input": case_json(case), "expected": C.cp(ref), "observed": C.cp(frame)}, "checked"
    if d != exp:
        return {"signature": "C01-roundtrip-mismatch:" + mode, "what": "decode(encode(m)) is not the expected message / consumed / raw bytes",
                "input": case_json(case), "expected": exp[:3000], "observed": d[:3000]}, "checked"
    return None, "checked"


def case_json(case):
    return [case[0], K.tok_tree(case[1]), case[2], case[3], case[4], case[5], case[6]]


def correspondence(ctx):
    drv = C.Driver()
    impl = K.Impl()
    n = ctx.n(2000, 30000)
    lines, exp, stats = [], [], {"wf": 0, "depth>=2": 0, "framing_like_values": 0, "modes": {}}
    groups_hit = set()
    wf_lines, wf_exp = [], []
    for i in range(n):
        case, mode = gen(ctx, i)
        stats["modes"][mode] = stats["modes"].get(mode, 0) + 1
        mtype, tree, sender, target, nxt, raw, now = case
        for nd in tree:
            if nd[0] == "G":
                groups_hit.add(nd[1])
        if K.depth_of(tree) >= 2:
            stats["depth>=2"] += 1
        if any(x in K.tok_tree(tree) for x in ("383d4649582e", "31303d", "393d")):
            stats["framing_like_values"] += 1
        # encode, both sides
        lines.append(K.enc_line(*case))
        r, f = impl.encode(*case)
        exp.append(r)
        # decode of the encoder's output, both sides
        if f is not None:
            try:
                fb = f.encode("latin-1")
            except UnicodeEncodeError:
                fb = None
            if fb is not None:
                lines.append("codec.decode " + C.cp(fb))
                exp.append(impl.decode(fb))
        # the theorem's hypothesis on this message (latin-1 part of the quantifier)
        c2 = strip_nonlatin(case)
        st = seq_text_of(c2, mode) or "1"
        full = expected_tree(c2[0], c2[1], c2[2], c2[3], st, now, 0, 0)[:-1]
        keep = mode != "alloc"
        py_wf = K.wf_msg(c2[0], [x for x in c2[1] if not (mode == "possdup" and x[1] == "43")], keep) and \
            all(x[0] != "E" for x in c2[1]) and bool(c2[2]) and K.wf_value(c2[2])
        if mode == "possdup":
            py_wf = py_wf and K.wf_cont(c2[1], K.table(), None, [], False)
        wf_lines.append("codec.wf " + K.tok_tree(full))
        wf_exp.append("wf" if py_wf else "not-wf")
        if py_wf:
            stats["wf"] += 1
    # random NON-wf trees: hypothesis evaluation must agree there too
    for i in range(ctx.n(300, 3000)):
        t = mutate_tree(ctx.rng, K.gen_wf_msg(ctx.rng)[1])
        full = [("L", "35", "D")] + t
        wf_lines.append("codec.wf " + K.tok_tree(full))
        wf_exp.append("wf" if (K.wf_cont(full, K.table(), None, [], False) and all(x[0] != "E" for x in flat_nodes(full))
                               and tail10_ok(full)) else "not-wf")
    out = drv.batch(lines + wf_lines)
    allexp = exp + wf_exp
    dis = [{"input": l[:3000], "model": o[:800], "impl": e[:800]} for l, o, e in zip(lines + wf_lines, out, allexp) if o != e]
    stats["group_tags_hit"] = len(groups_hit)
    stats["group_tags_total"] = len(K.table())
    stats["wf_hypothesis_evaluations"] = len(wf_lines)
    return {
        "evaluations": len(lines) + len(wf_lines),
        "distinct_nontrivial": len(set(lines + wf_lines)),
        "rule": "messages over the implementation's own group table (each group tag forced >= 3 times, 1..3 items, optional members, "
        "nesting to depth 3, framing-like text in values, four encoding modes): Codec.encode vs model encode, Codec.decode vs model decode on the "
        "encoder's bytes, and the theorem hypothesis wfTop evaluated by the compiled model vs the harness' own well-formedness on the same "
        "messages and on mutated (non-wf) trees; distinct = distinct request lines",
        "samples": [{"request": (lines + wf_lines)[i][:300], "reply": out[i][:200]} for i in (0, len(lines) // 2, len(lines) + 1)],
        "exhaustive": False,
        "distribution": stats,
        "disagreements": dis,
    }


def flat_nodes(tree):
    for n in tree:
        yield n
        if n[0] == "G":
            for it in n[2]:
                yield from flat_nodes(it)


def tail10_ok(tree):
    tbl = K.table()
    if tree and tree[-1][0] == "G":
        for ms in K.last_chain_members(tree[-1], tbl):
            if "10" in ms:
                return False
    return all(n[1] != "10" for n in tree)


def mutate_tree(rng, tree):
    tree = [list(n) if n[0] != "G" else ["G", n[1], [list(it) for it in n[2]]] for n in tree]
    if not tree:
        return [("L", "55", "a"), ("L", "55", "b")]
    r = rng.random()
    i = rng.randrange(len(tree))
    if r < 0.25:
        tree.append(list(tree[i]))                       # duplicate tag
    elif r < 0.45 and tree[i][0] == "G":
        tree[i][2].append([])                            # empty item
    elif r < 0.6 and tree[i][0] == "G" and tree[i][2][0]:
        tree[i][2][0][0] = ["L", "58", "foreign"]        # foreign member
    elif r < 0.75:
        tree[i] = ["L", sorted(K.table())[0], "1"]       # group tag as plain
    elif r < 0.9:
        tree[i] = ["L", tree[i][1], "a\x01b"] if tree[i][0] == "L" else tree[i]
    else:
        tree[i] = ["E", tree[i][1]]
    return [tuple(n) if n[0] != "G" else ("G", n[1], [[tuple(x) if x[0] != "G" else x for x in it] for it in n[2]]) for n in tree]


def oracle(ctx, disagreements, broken):
    impl = K.Impl()
    failures, counts = [], {}
    n = ctx.n(2500, 40000) * (3 if broken else 1)
    for i in range(n):
        case, mode = gen(ctx, i)
        case = strip_nonlatin(case)
        if any(x[0] == "E" for x in case[1]):
            continue
        f, info = roundtrip_impl(impl, case, mode)
        counts[info] = counts.get(info, 0) + 1
        if f:
            failures.append(f)
    ctx.oracle_stats = {"cases": n, "outcomes": counts, "failures": len(failures)}
    return failures


def replay(ctx, rp):
    impl = K.Impl()
    c = rp["input"]
    case = (c[0], parse_tok_tree(c[1]), c[2], c[3], c[4], c[5], c[6])
    mode = rp["signature"].split(":")[-1] if ":" in rp["signature"] else "alloc"
    f, info = roundtrip_impl(impl, case, mode)
    print("replay:", info, f["signature"] if f else None)
    return f is not None
