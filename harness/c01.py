"""C01 – encode/decode round trip preserves every well-formed message.  DESIGN.md §6 C01.

proof:  Props/C01.lean (encode output = mkFrame of header + wire-order fields; decode of a valid frame
        = field loop; the field loop rebuilds every wfTop container)
tie:    model encode/decode vs Codec.encode/Codec.decode on WF and non-WF messages; the theorem's
        hypothesis `wfTop` evaluated by the driver on every generated message and compared with the
        harness' own definition of well-formedness
oracle: round trip on the implementation alone against an independently built expectation
"""
from __future__ import annotations

from . import codec_common as K
from . import common as C
from .c02 import NOW, gen_case, parse_tok_tree

PROP = "C01"
PROPS_MODULES = ["AsyncFix.Props.C01", "AsyncFix.Props.C01Bridge"]
ASSUMPTIONS = [
    "frames are byte strings; the decoder's latin-1 step is a bijection between bytes and code points < 256",
    "BodyLength has at most 4300 digits (CPython's int() limit): frames shorter than 10^4300 bytes",
]
ASSUMPTIONS += [
    "the theorems quantify over the CONTENT of a message (ordered tag tree + message type text); how the FIXMessage object "
    "came to hold that content (operation history, aliasing of item objects, spelling of tags / message type as str, int, "
    "FTag, FMsg) is outside the Lean model's quantifier and is covered by the correspondence and the oracle only: "
    "about half of all generated messages are built by HistoryBuilder (codec_common) instead of in one go",
]
MODELLED_NOT_VERIFIED = [
    "C01: Codec.encode/_addTag/decode and FIXContainer.set/add_group are hand-modelled (Model/Codec/*.lean) and compared "
    "with the implementation on generated messages over the implementation's own group table, in both directions",
]


def expected_tree(mtype, tree, sender, target, seq_text, now, body_len, cksum):
    hdr = [("L", "8", "FIX.4.4"), ("L", "9", str(body_len)), ("L", "35", mtype), ("L", "49", sender),
           ("L", "56", target), ("L", "34", seq_text), ("L", "52", now)]
    body = [n for n in tree if n[1] not in K.SKIP_TAGS]
    return hdr + body + [("L", "10", "%03d" % cksum)]


def seq_text_of(case, mode):
    mtype, tree, sender, target, nxt, raw, now = case
    if mode in ("alloc", "alloc-stale"):
        return str(nxt)
    for n in tree:
        if n[1] == "34":
            return str(int(n[2]))
    return None


def gen(ctx, i):
    """(case, mode, hist): hist = None (message built in one go from the tree, type as plain str) or
    {"seed", "spell"}: the same content reached through a history of container operations (K.HistoryBuilder)"""
    rng = ctx.rng
    case, mode = gen_case(rng, i)
    hist = None
    if rng.random() < 0.02:
        case = enlarge(rng, case)
    if rng.random() < 0.55 and not K.has_dup_tags(case[1]):
        hist = {"seed": rng.randrange(2 ** 31), "spell": rng.choice(["str", "fmsg"])}
    return case, mode, hist


def enlarge(rng, case):
    """sizes beyond the usual: a long value (BodyLength gets 4-5 digits) or a group with 10-40 items"""
    mtype, tree, sender, target, nxt, raw, now = case
    tree = list(tree)
    gi = [i for i, n in enumerate(tree) if n[0] == "G" and n[2]]
    if gi and rng.random() < 0.6:
        i = rng.choice(gi)
        items = list(tree[i][2])
        last = items[-1]
        for k in range(rng.randint(10, 40) - len(items)):
            it = list(last)
            if it and it[0][0] == "L" and rng.random() < 0.7:
                it[0] = ("L", it[0][1], it[0][2] + str(k))
            items.append(it)
        tree[i] = ("G", tree[i][1], items)
    else:
        used = {n[1] for n in tree}
        t = next((t for t in ("58", "5001", "9999", "354") if t not in used), None)
        if t is not None:
            tree.append(("L", t, "".join(rng.choice(K.VALUE_ALPHABET) for _ in range(rng.choice([90, 990, 9990, 20000])))))
    keep = any(n[1] == "34" for n in case[1])
    if not K.wf_msg(mtype, [n for n in tree if n[1] != "43"], keep) and K.wf_msg(mtype, [n for n in case[1] if n[1] != "43"], keep):
        return case
    return (mtype, tree, sender, target, nxt, raw, now)


def builder_of(case, hist, sink=None):
    if hist is None:
        return None
    hb = K.HistoryBuilder(case[0], case[1], hist["seed"], hist.get("spell", "str"))

    def build():
        m = hb.build()
        if sink is not None:
            sink.append(hb)
        return m

    return build


def add_stats(total, hb):
    for k, v in hb.stats.items():
        total[k] = total.get(k, 0) + v


def strip_nonlatin(case):
    mtype, tree, sender, target, nxt, raw, now = case

    def ok(s):
        return all(ord(c) < 256 for c in s)

    def clean(nodes):
        out = []
        for n in nodes:
            if n[0] == "L":
                out.append(("L", n[1], "".join(c for c in n[2] if ord(c) < 256)))
            elif n[0] == "G":
                out.append(("G", n[1], [clean(it) for it in n[2]]))
            else:
                out.append(n)
        return out

    return (mtype, clean(tree), "".join(c for c in sender if ord(c) < 256), target, nxt, raw, now)


def roundtrip_impl(impl, case, mode, hist=None, hstats=None):
    """returns (failure dict | None, info)"""
    mtype, tree, sender, target, nxt, raw, now = case
    keep = mode != "alloc"
    if not K.wf_msg(mtype, tree if mode != "possdup" else [n for n in tree if n[1] != "43"] , keep) and mode != "possdup":
        return None, "not-wf"
    sink = []
    r, f = impl.encode(*case, builder=builder_of(case, hist, sink))
    hb = sink[0] if sink else None
    if hb is not None and hstats is not None:
        add_stats(hstats, hb)
    inp = case_json(case, hist, hb)
    if hb is not None and (K.tree_of(impl.last_msg) != [tuple(n) for n in tree] or str(impl.last_msg.msg_type) != mtype):
        # the container operations did not produce the intended content: not a codec matter (C18), the message
        # that was encoded is something else - nothing to compare against
        return None, "history-diverged"
    if f is None:
        if mode == "possdup" or seq_text_of(case, mode) is None or any(ord(c) > 255 for c in sender + target):
            return None, "encode-refused"
        return {"signature": "C01-wellformed-message-refused:" + mode + (":hist" if hist else ""),
                "what": "Codec.encode raised on a well-formed message (" + r + ")",
                "input": inp, "expected": "ok <frame>", "observed": r}, "checked"
    # encoding must not change the message: a second encode of the same object gives the same frame
    if hist is not None and hist["seed"] % 4 == 0:
        from asyncfix.session import FIXSession
        s2 = FIXSession(1, target, sender)
        s2.next_num_out, s2.next_num_in = nxt, 1
        try:
            with K.clock(now):
                f2 = impl.codec.encode(impl.last_msg, s2, raw_seq_num=raw)
        except Exception as e:  # noqa
            f2 = "raised " + K.exc_kind(e)
        if f2 != f:
            return {"signature": "C01-second-encode-differs:" + mode, "what": "encoding the same message object again gives another frame",
                    "input": inp, "expected": C.cp(f), "observed": C.cp(f2)}, "checked"
    try:
        frame = f.encode("latin-1")
    except UnicodeEncodeError:
        return None, "not-latin1"
    d = impl.decode(frame)
    if sum(frame) % 3 == 0:
        # decoding is a function of the buffer: the same codec OBJECT, after it was shown a long frame that never
        # completed (a connection that died mid-frame) and then given this frame followed by another one in one
        # buffer, must answer exactly as before (a Codec that remembers anything about an abandoned buffer fails)
        bs = K.proto().beginstring
        impl.decode(("8=%s\x019=%d\x0135=D\x0158=" % (bs, len(frame) + 4000)).encode("latin-1") + b"x" * (len(frame) + 700))
        d2 = impl.decode(frame + frame)
        if d2 != d:
            return {"signature": "C01-decode-depends-on-codec-history:" + mode,
                    "what": "the same codec object decodes this frame differently after having seen an unfinished frame "
                            "(and with another frame behind it in the buffer)",
                    "input": inp, "expected": d[:3000], "observed": d2[:3000]}, "checked"
    # independent expectation: BodyLength / CheckSum recomputed by the reference framer
    st = seq_text_of(case, mode)
    if st is None:
        # a message that must carry its own MsgSeqNum (raw mode / SequenceReset / PossDupFlag=Y) but has none:
        # the encoder has to refuse it - a frame came out under a number the message never had
        return {"signature": "C01-own-number-missing-not-refused:" + mode,
                "what": "the encoder produced a frame for a message that must carry its own MsgSeqNum and does not",
                "input": inp, "expected": "refused (EncodingError / TagNotFoundError)", "observed": C.cp(frame)}, "checked"
    body_fields = [f"35={mtype}", f"49={sender}", f"56={target}", f"34={st}", f"52={now}"] + K.flatten(
        [n for n in tree if n[1] not in K.SKIP_TAGS])
    ref = K.ref_frame(body_fields)
    body_len = sum(len(x.encode("latin-1")) + 1 for x in body_fields)
    ck = int(ref[-4:-1])
    exp = "msg %d %s %s %s" % (len(frame), C.cp(frame), C.cp(mtype),
                               K.tok_tree(expected_tree(mtype, tree, sender, target, st, now, body_len, ck)))
    if ref != frame:
        return {"signature": "C01-encoder-differs-from-reference-framer", "what": "encoder bytes differ from the reference framing of the same fields",
                "input": inp, "expected": C.cp(ref), "observed": C.cp(frame)}, "checked"
    if d != exp:
        return {"signature": "C01-roundtrip-mismatch:" + mode + (":hist" if hist else ""),
                "what": "decode(encode(m)) is not the expected message / consumed / raw bytes",
                "input": inp, "expected": exp[:3000], "observed": d[:3000]}, "checked"
    if (hist["seed"] if hist else len(frame)) % 5 == 1:
        # a message whose history is "it was decoded": the application takes the decoded object, removes the framing
        # tags and sends it on - the same content, so the same frame
        from asyncfix.session import FIXSession
        s2 = FIXSession(1, target, sender)
        s2.next_num_out, s2.next_num_in = nxt, 1
        try:
            m2 = impl.codec.decode(frame)[0]
            for t in ("8", "9", "35", "10"):
                del m2[t]
            with K.clock(now):
                f3 = impl.codec.encode(m2, s2, raw_seq_num=raw)
        except Exception as e:  # noqa
            f3 = "raised " + K.exc_kind(e)
        if f3 != f:
            return {"signature": "C01-reencode-of-decoded-differs:" + mode, "what": "encoding the decoded message (framing tags removed) "
                    "does not give the frame it was decoded from", "input": inp, "expected": C.cp(f), "observed": C.cp(f3)[:3000]}, "checked"
        return None, "checked+reencoded-decoded"
    return None, "checked"


def case_json(case, hist=None, hb=None):
    out = [case[0], K.tok_tree(case[1]), case[2], case[3], case[4], case[5], case[6]]
    if hist is not None:
        out.append(dict(hist, operations=(hb.log[:200] if hb is not None else [])))
    return out


def correspondence(ctx):
    drv = C.Driver()
    impl = K.Impl()
    n = ctx.n(2000, 30000)
    lines, exp, stats = [], [], {"wf": 0, "depth>=2": 0, "framing_like_values": 0, "modes": {}, "msg_type_classes": {},
                                 "built_by_history": 0, "msg_type_as_FMsg_member": 0, "history_operations": {},
                                 "history_diverged": 0}
    groups_hit = set()
    wf_lines, wf_exp = [], []
    ctx.c01_cases = {}
    for i in range(n):
        case, mode, hist = gen(ctx, i)
        stats["modes"][mode] = stats["modes"].get(mode, 0) + 1
        mc = K.mtype_class(case[0])
        stats["msg_type_classes"][mc] = stats["msg_type_classes"].get(mc, 0) + 1
        mtype, tree, sender, target, nxt, raw, now = case
        for nd in tree:
            if nd[0] == "G":
                groups_hit.add(nd[1])
        if K.depth_of(tree) >= 2:
            stats["depth>=2"] += 1
        if any(x in K.tok_tree(tree) for x in ("383d4649582e", "31303d", "393d")):
            stats["framing_like_values"] += 1
        # encode, both sides
        lines.append(K.enc_line(*case))
        ctx.c01_cases[lines[-1]] = (case, mode, hist)
        sink = []
        r, f = impl.encode(*case, builder=builder_of(case, hist, sink))
        exp.append(r)
        if hist is not None:
            stats["built_by_history"] += 1
            if hist["spell"] == "fmsg" and mc == "standard":
                stats["msg_type_as_FMsg_member"] += 1
            if sink:
                add_stats(stats["history_operations"], sink[0])
                if f is not None and K.tree_of(impl.last_msg) != [tuple(x) for x in tree]:
                    stats["history_diverged"] += 1
        # decode of the encoder's output, both sides
        if f is not None:
            try:
                fb = f.encode("latin-1")
            except UnicodeEncodeError:
                fb = None
            if fb is not None:
                lines.append("codec.decode " + C.cp(fb))
                ctx.c01_cases[lines[-1]] = (case, mode, hist)
                exp.append(impl.decode(fb))
        # the theorem's hypothesis on this message (latin-1 part of the quantifier)
        c2 = strip_nonlatin(case)
        st = seq_text_of(c2, mode) or "1"
        full = expected_tree(c2[0], c2[1], c2[2], c2[3], st, now, 0, 0)[:-1]
        keep = mode != "alloc"
        py_wf = K.wf_msg(c2[0], [x for x in c2[1] if not (mode == "possdup" and x[1] == "43")], keep) and \
            all(x[0] != "E" for x in c2[1]) and bool(c2[2]) and K.wf_value(c2[2])
        if mode == "possdup":
            py_wf = py_wf and K.wf_cont(c2[1], K.table(), None, [], False)
        wf_lines.append("codec.wf " + K.tok_tree(full))
        wf_exp.append("wf" if py_wf else "not-wf")
        if py_wf:
            stats["wf"] += 1
    # random NON-wf trees: hypothesis evaluation must agree there too
    for i in range(ctx.n(300, 3000)):
        t = mutate_tree(ctx.rng, K.gen_wf_msg(ctx.rng)[1])
        full = [("L", "35", "D")] + t
        wf_lines.append("codec.wf " + K.tok_tree(full))
        wf_exp.append("wf" if (K.wf_cont(full, K.table(), None, [], False) and all(x[0] != "E" for x in flat_nodes(full))
                               and tail10_ok(full)) else "not-wf")
    out = drv.batch(lines + wf_lines)
    allexp = exp + wf_exp
    dis = [{"input": l[:3000], "model": o[:800], "impl": e[:800]} for l, o, e in zip(lines + wf_lines, out, allexp) if o != e]
    stats["group_tags_hit"] = len(groups_hit)
    stats["group_tags_total"] = len(K.table())
    stats["wf_hypothesis_evaluations"] = len(wf_lines)
    return {
        "evaluations": len(lines) + len(wf_lines),
        "distinct_nontrivial": len(set(lines + wf_lines)),
        "rule": "messages over the implementation's own group table (each group tag forced >= 3 times, 1..3 items, optional members, "
        "nesting to depth 3, framing-like text in values, four encoding modes; message types from the whole FMsg vocabulary, padded / "
        "respelled standard types and custom types; about half of the messages reach their content through a history of container "
        "operations - overwrites, deletions, junk groups added and removed, items as dicts or shared instances, FMsg / FTag spellings): Codec.encode vs model encode, Codec.decode vs model decode on the "
        "encoder's bytes, and the theorem hypothesis wfTop evaluated by the compiled model vs the harness' own well-formedness on the same "
        "messages and on mutated (non-wf) trees; distinct = distinct request lines",
        "samples": [{"request": (lines + wf_lines)[i][:300], "reply": out[i][:200]} for i in (0, len(lines) // 2, len(lines) + 1)],
        "exhaustive": False,
        "distribution": stats,
        "disagreements": dis,
    }


def flat_nodes(tree):
    for n in tree:
        yield n
        if n[0] == "G":
            for it in n[2]:
                yield from flat_nodes(it)


def tail10_ok(tree):
    tbl = K.table()
    if tree and tree[-1][0] == "G":
        for ms in K.last_chain_members(tree[-1], tbl):
            if "10" in ms:
                return False
    return all(n[1] != "10" for n in tree)


def mutate_tree(rng, tree):
    tree = [list(n) if n[0] != "G" else ["G", n[1], [list(it) for it in n[2]]] for n in tree]
    if not tree:
        return [("L", "55", "a"), ("L", "55", "b")]
    r = rng.random()
    i = rng.randrange(len(tree))
    if r < 0.25:
        tree.append(list(tree[i]))                       # duplicate tag
    elif r < 0.45 and tree[i][0] == "G":
        tree[i][2].append([])                            # empty item
    elif r < 0.6 and tree[i][0] == "G" and tree[i][2][0]:
        tree[i][2][0][0] = ["L", "58", "foreign"]        # foreign member
    elif r < 0.75:
        tree[i] = ["L", sorted(K.table())[0], "1"]       # group tag as plain
    elif r < 0.9:
        tree[i] = ["L", tree[i][1], "a\x01b"] if tree[i][0] == "L" else tree[i]
    else:
        tree[i] = ["E", tree[i][1]]
    return [tuple(n) if n[0] != "G" else ("G", n[1], [[tuple(x) if x[0] != "G" else x for x in it] for it in n[2]]) for n in tree]


def oracle(ctx, disagreements, broken):
    impl = K.Impl()
    failures, counts = [], {}
    hstats, mtc = {}, {}
    n = ctx.n(2500, 40000) * (3 if broken else 1)

    def one(case, mode, hist):
        case = strip_nonlatin(case)
        if any(x[0] == "E" for x in case[1]):
            return
        mc = K.mtype_class(case[0])
        mtc[mc] = mtc.get(mc, 0) + 1
        f, info = roundtrip_impl(impl, case, mode, hist, hstats)
        counts[info] = counts.get(info, 0) + 1
        if hist is not None:
            counts["built-by-history"] = counts.get("built-by-history", 0) + 1
        if f:
            failures.append(f)

    # the inputs on which model and implementation disagreed come first
    stash = getattr(ctx, "c01_cases", {})
    for d in disagreements[:300]:
        hit = stash.get(d.get("input"))
        if hit:
            one(*hit)
            counts["replayed-disagreements"] = counts.get("replayed-disagreements", 0) + 1
    for c in CORPUS:
        one(*c)
    for i in range(n):
        one(*gen(ctx, i))
    # smallest failing input first per signature
    failures.sort(key=lambda f: len(str(f["input"])))
    ctx.oracle_stats = {"cases": n, "outcomes": counts, "failures": len(failures), "msg_type_classes": mtc,
                        "history_operations": hstats}
    return failures


# hand-made cases that always run: padded / odd message types, one block object at two places, an edited message
CORPUS = [
    (("IOI", [("L", "55", "X")], "SND", "TGT", 7, False, NOW), "alloc", None),
    (("LOGON", [("L", "58", "None"), ("L", "55", "True")], "SND", "TGT", 7, False, NOW), "alloc", {"seed": 5, "spell": "str"}),
    (("D", [("L", "58", "None"), ("G", "453", [[("L", "448", "None"), ("L", "447", "nan")], [("L", "448", ""), ("L", "452", "None")]]),
            ("L", "55", "False")], "SND", "TGT", 7, False, NOW), "alloc", None),
    (("D ", [("L", "55", "X")], "SND", "TGT", 7, False, NOW), "alloc", None),
    ((" 8 ", [("L", "55", "X")], "SND", "TGT", 7, False, NOW), "alloc", {"seed": 1, "spell": "str"}),
    (("AE", [("L", "55", "X")], "SND", "TGT", 7, False, NOW), "alloc", {"seed": 2, "spell": "fmsg"}),
    (("J", [("L", "70", "A1"),
            ("G", "78", [[("L", "79", "ACC-1"), ("G", "539", [[("L", "524", "BRK"), ("L", "538", "1")]])],
                         [("L", "79", "ACC-2"), ("G", "539", [[("L", "524", "BRK"), ("L", "538", "1")]])]])],
      "SND", "TGT", 5, False, NOW), "alloc", {"seed": 3, "spell": "fmsg"}),
]


def replay(ctx, rp):
    impl = K.Impl()
    c = rp["input"]
    case = (c[0], parse_tok_tree(c[1]), c[2], c[3], c[4], c[5], c[6])
    hist = c[7] if len(c) > 7 else None
    parts = rp["signature"].split(":")
    mode = parts[1] if len(parts) > 1 else "alloc"
    f, info = roundtrip_impl(impl, case, mode, hist)
    print("replay:", info, f["signature"] if f else None)
    return f is not None
