"""C07 – no application message is lost, duplicated or reordered across connection loss.  DESIGN.md §6 C07.

tie:    Link model (lean/AsyncFix/Model/Link.lean = two Session models + two FIFO queues) ⇄ TWO REAL
        connection objects (client / server roles, in-memory journals) wired through in-memory frame queues:
        every write() is cut into frames by the real decoder and queued; `deliverNext` hands one frame's bytes
        to the REAL reader loop (socket_read_task -> decode -> _process_message); `break` = b"" on both readers;
        `reconnect` = the real connect() / _handle_accept() + the application's Logon.  Events are applied one
        at a time on both sides and compared after every event (effects in order, counters, states, watermarks,
        stored counters, row counts, queue lengths; whole journals + queues every k-th event and at the end).
        quick: random walks; thorough: exhaustive over the event alphabet with state hashing + long walks.
oracle: on the implementation alone (never calls the model): delivered-vs-accepted at every quiescent point,
        duplicate-free in-order subsequence at all times, no number reused with another payload on the wire.
"""
from __future__ import annotations

import glob
import json
import os
import shutil
import tempfile
import types

from . import common as C
from . import sess_common as S

PROP = "C07"
PROPS_MODULES = ["AsyncFix.Props.C07"]
FINDINGS_MODULE = None
ASSUMPTIONS = [
    "the transport is reliable and FIFO until it breaks; a break loses every frame in flight in both directions and "
    "both endpoints see it (EOF) before the next connection is made; in the MODEL frames arrive one per read() - on "
    "the implementation side the harness also hands the reader arbitrary chunkings of a frame (splits anywhere, "
    "<= 4096 bytes per read) through the real socket_read_task (chunk-independence itself is C03)",
    "application hooks return normally (theorems and lock-step correspondence; the oracle also injects hooks that RAISE, "
    "see MODELLED_NOT_VERIFIED); should_replay is the library default (True); the application sends only "
    "application messages (type outside 0 1 2 4 5 A, no header/trailer tags 8 9 10 34 35 49 52 56; an explicit "
    "PossDupFlag(43) other than Y and an OrigSendingTime(122) are allowed and generated) and the "
    "initiator's on_connect sends Logon(98=0, 108=hb)",
    "the heartbeat watchdog does not fire during the run (no tick events; C12 covers it on one endpoint)",
    "messages carry plain tags only; journals behave as the abstract store (C13); frame <-> field list is C01",
    "theorem side conditions (explicit, decidable): Wf evs (application messages only, single-byte SendingTime text) "
    "and InRange (outbound counters of the final state <= sys.maxsize + 1, i.e. within SQLite's INTEGER range)",
]
MODELLED_NOT_VERIFIED = [
    "C07 coalesced reads (several frames in one read) are n consecutive deliverNext events in the model (lock-step "
    "correspondence + oracle); application hooks that SEND (on_state_change(ACTIVE), on_logon) are a configuration of "
    "oracle walks only (re-entrant send_msg from inside a handler has no counterpart in the sequential model)",
    "C07 back-pressure: a send_msg() suspended in drain() (events S / R: the coroutine is parked after write() and resumed "
    "later, reader-task events of the same endpoint run in between) is an ordinary appSend in the model - the model's send "
    "is complete once journaled and written; covered by lock-step correspondence + oracle ('accepted' = send_msg returned)",
    "C07 collaborator faults: application hooks that raise (on_state_change for one state or for every connected state, "
    "on_message, on_logon, on_logout) are outside the property's quantifier and outside the model; the oracle injects them "
    "in a window of a random walk, evaluates only the all-times sentences while the fault lasts and the full property after "
    "the hook works again AND the link was broken and re-established once. Hooks raising inside disconnect() at EOF "
    "(on_disconnect, on_state_change(DISCONNECTED_*)) are not generated: on the unchanged tree the exception leaves "
    "socket_read_task() and the reader task ends for good (reported to the integrator)",
    "C07: the theorems quantify over the four base events (appSend, deliverNext, breakConn, reconnect) with in-memory-"
    "equivalent journals. Graceful logout by either application and endpoint RESTART over a file journal (new Journaler "
    "+ new connection object, open transaction lost) are events of the executable extension Model/LinkX.lean "
    "(stepX (.base ev) = step ev) and are covered by lock-step correspondence and the oracle only; so are delivery in "
    "chunks, framing-like / long field values and backlogs of 100-1000+ messages (the model is value- and size-"
    "independent, the implementation is exercised on them)",
    "C07: the composition (queues, break, reconnect, who sends Logon) is hand-modelled in Model/Link.lean on top of the "
    "hand-modelled Session model; the tie is the lock-step comparison against two real connection objects every check",
]

HB = 30
NAME_I, NAME_A = "INIT", "ACPT"
HDR = {8, 9, 10, 34, 35, 43, 49, 52, 56, 122}
T0 = S.T0


# ------------------------------------------------------------------------------------------------
# two real endpoints
# ------------------------------------------------------------------------------------------------

class _Log(C.LogBase):
    """logger of the real connection: a swallowed exception inside _process_message is `C=kind`, an exception that
    reaches the reader task's own handler is `R=kind` (the task goes on with the next read)"""

    def __init__(self, eff):
        self.eff = eff

    def debug(self, *a, **k):
        pass

    info = warning = error = debug

    def exception(self, msg="", *a, **k):
        import sys
        kind = S.exc_kind(sys.exc_info()[0])
        self.eff.append(("R" if C.log_origin() == "task" else "C", kind))


class _Suspend:
    """an awaitable that really suspends once (transport back-pressure: drain() waits for the peer to read)"""

    def __await__(self):
        yield self


class HookFault(Exception):
    """raised by an application hook (fault injection)"""


class Pair:
    """initiator + acceptor (two real AsyncFIXConnection objects with their own journals) and the two queues of raw
    frames in flight.  `file=True`: SQLite FILE journals (harness/c09_impl.RImpl) – the configuration in which an
    endpoint can be RESTARTED: the connection object and its Journaler are discarded (open transaction lost, as
    after a process death) and rebuilt over the same file."""

    def __init__(self, hb=HB, file=False):
        self.hb, self.file = hb, file
        self.tmpdir = None
        if file:
            from .c09_impl import RImpl
            base = "/dev/shm" if os.path.isdir("/dev/shm") else None
            self.tmpdir = tempfile.mkdtemp(prefix="c07-", dir=base)
            self.ends = {}
            for side in ("I", "A"):
                d = os.path.join(self.tmpdir, side)
                os.mkdir(d)
                self.ends[side] = RImpl(d)
        else:
            self.ends = {"I": S.Impl(), "A": S.Impl()}
        self.reset()

    def close(self):
        self.close_pending()
        self.ends["A"].close()
        self.ends["I"].close()
        if self.tmpdir:
            shutil.rmtree(self.tmpdir, ignore_errors=True)

    def reset(self):
        if self.file:
            for e in self.ends.values():
                e.new_file()
        self.ends["I"].load(S.AbsConn(state=1, role=1, sender=NAME_I, target=NAME_A, hb=self.hb))
        self.ends["A"].load(S.AbsConn(state=1, role=2, sender=NAME_A, target=NAME_I, hb=self.hb))
        for e in self.ends.values():
            e.conn.log = _Log(e.eff)
        self.restarts = 0
        for pc in getattr(self, "pending", {}).values():
            if pc is not None:
                pc[0].close()
        self.pending = {"I": None, "A": None}     # (coroutine, message) of a send_msg() suspended in drain()
        self.suspend = {"I": False, "A": False}   # the next drain() of that side really suspends
        self.suspended_total = getattr(self, "suspended_total", 0) + getattr(self, "suspended", 0)
        self.suspended = 0
        self.fault = {"I": None, "A": None}       # (hook, argument) that raises on that side, or None
        self.hooksend = {"I": set(), "A": set()}      # hooks of that side that send an application message
        self.hook_sends = 0
        self.reader_dead = {"I": False, "A": False}   # an exception escaped from socket_read_task(): the task ended
        self.faults_raised = 0
        for side, e in self.ends.items():
            self._patch_drain(side, e)
            self._patch_hooks(side, e)
        self.q = {"I": [], "A": []}          # raw frames travelling TOWARDS that side
        self.delivered = {"I": [], "A": []}  # (mtype, fields) handed to on_message
        self.accepted = {"I": [], "A": []}   # (mtype, tags) whose send_msg returned normally
        self.started = {"I": [], "A": []}    # accepted + sends still suspended in drain(), in the order they began
        self.wire = {"I": [], "A": []}       # (mtype, fields) of every frame written
        self.anomalies = []

    def _patch_drain(self, side, e):
        pair = self

        async def drain():
            if pair.suspend[side]:
                pair.suspend[side] = False
                await _Suspend()

        e.writer.drain = drain

    def _patch_hooks(self, side, e):
        """application hooks that can be made to raise: `fault[side] = (hook, arg)`; the hook first does what it always
        does (the effect is recorded), then raises HookFault when armed for this call"""
        pair, c = self, e.conn

        if not hasattr(c, "_c07_orig"):
            c._c07_orig = {}

        def wrap(name, key):
            orig = c._c07_orig.setdefault(name, getattr(c, name))

            async def hook(*a):
                await orig(*a)
                hs = pair.hooksend[side]
                if (name == "on_state_change" and "on_state_change:17" in hs and key(*a) == 17) or \
                        (name == "on_logon" and "on_logon" in hs and a and a[0]):
                    # a hook that SENDS one application message and returns normally (examples/client_example.py does
                    # this from on_state_change(ACTIVE)); a refused send is swallowed by the hook itself
                    pair.hook_sends += 1
                    m = ("D", [(11, f"hook{side}{pair.hook_sends}"), (58, "sent from a hook"), (5001, f"h{side}#{pair.hook_sends}")])
                    msg = e.FIXMessage(e.FMsg("D"))
                    for t, v in m[1]:
                        msg.set(t, v)
                    try:
                        await c.send_msg(msg)
                    except Exception:
                        pass
                    else:
                        pair.accepted[side].append((m[0], list(m[1])))
                        pair.started[side].append([(m[0], list(m[1])), True])
                f = pair.fault[side]
                if f and f[0] == name and (f[1] is None or f[1] == key(*a) or
                                           (f[1] == "connected" and isinstance(key(*a), int) and key(*a) > 3)):
                    pair.faults_raised += 1
                    raise HookFault(name)

            setattr(c, name, hook)

        wrap("on_state_change", lambda st: int(st))
        wrap("on_message", lambda m: None)
        wrap("on_logon", lambda h: None)
        wrap("on_logout", lambda m: None)
        wrap("on_disconnect", lambda: None)

    def close_pending(self):
        for side in "IA":
            if self.pending[side] is not None:
                self.pending[side][0].close()
                self.pending[side] = None

    # ---- helpers
    def _clock(self, now):
        # several Impl objects patch the module clock at construction (the last one wins): set it here, per event
        e0 = self.ends["I"]
        e0.cm.time = C.clock_patch(e0.cm, lambda: now / 1000)
        e0.Codec.current_datetime = staticmethod(lambda: S.stamp(now))
        for e in self.ends.values():
            e.now_ms = now

    def _collect(self, side):
        """route the effects the endpoint produced since the last call; returns canonical effect tokens"""
        e = self.ends[side]
        other = "A" if side == "I" else "I"
        for x in e.eff:
            if x[0] == "W":
                buf = x[1]
                n_frames = 0
                while buf:
                    msg, n, raw = e.codec.decode(buf)
                    if msg is None or n <= 0:
                        self.anomalies.append(("undecodable-write", x[1]))
                        break
                    self.q[other].append(bytes(raw))
                    fs = S.bytes_to_fields(bytes(raw))
                    self.wire[side].append((S.mtype_of(fs), fs))
                    buf = buf[n:]
                    n_frames += 1
                if n_frames != 1:
                    self.anomalies.append(("write-not-one-frame", x[1]))
            elif x[0] == "D":
                m = x[1]
                self.delivered[side].append((str(m.msg_type), [(int(t), v) for t, v in m.tags.items()]))
        toks = [side + ":" + t for t in e.effects()]
        del e.eff[:]
        return toks

    def sock(self, side):
        return self.ends[side].conn._socket_reader is not None

    # ---- events:  ("s", side, now, (mtype, tags)) ("d", side, now) ("b", now) ("r", now)
    def apply(self, ev):
        k = ev[0]
        if k == "S" and self.pending[ev[1]] is not None:
            k = "s"                       # one suspended send per side: a further one completes at once
        if k == "s":
            _, side, now, m = ev
            self._clock(now)
            e = self.ends[side]
            e.apply("all", ("send", now, m))
            raised = any(x[0] == "R" for x in e.eff)
            toks = self._collect(side)
            if not raised:
                self.accepted[side].append((m[0], list(m[1])))
                self.started[side].append([(m[0], list(m[1])), True])
            return toks
        if k == "S":
            # BACK-PRESSURE: send_msg() whose drain() really suspends; the coroutine is parked until the `R` event,
            # other events (the reader task of the same endpoint!) run in between
            _, side, now, m = ev
            self._clock(now)
            e = self.ends[side]
            mtype, tags = m
            try:
                mt = e.FMsg(mtype)
            except ValueError:
                mt = mtype
            msg = e.FIXMessage(mt)
            for t, v in tags:
                msg.set(t, v)
            self.suspend[side] = True
            coro = e.conn.send_msg(msg)
            try:
                coro.send(None)
            except StopIteration:
                self.suspend[side] = False
                self.accepted[side].append((m[0], list(m[1])))
                self.started[side].append([(m[0], list(m[1])), True])
            except Exception as exc:
                self.suspend[side] = False
                e.eff.append(("R", S.exc_kind(exc)))
            else:
                entry = [(m[0], list(m[1])), False]
                self.pending[side] = (coro, m, entry)
                self.started[side].append(entry)
                self.suspended += 1
            return self._collect(side)
        if k == "R":
            # the suspended send of that side resumes (drain() returns) and send_msg() returns
            side = ev[1]
            pc = self.pending[side]
            if pc is None:
                return []
            self.pending[side] = None
            coro, m, entry = pc
            e = self.ends[side]
            try:
                coro.send(None)
            except StopIteration:
                self.accepted[side].append((m[0], list(m[1])))
                entry[1] = True
            except Exception as exc:
                e.eff.append(("R", S.exc_kind(exc)))
            else:
                self.anomalies.append(("send-suspended-twice", m))
                coro.close()
            return self._collect(side)
        if k == "H":
            # configuration: ("H", side, hook) - that hook of that side sends one application message when it runs
            self.hooksend[ev[1]].add(ev[2])
            return []
        if k == "F":
            # fault injection: ("F", side, hook, arg) arms a raising hook, ("F", side, None, None) repairs it
            self.fault[ev[1]] = (ev[2], ev[3]) if ev[2] else None
            return []
        if k == "d":
            side, now = ev[1], ev[2]
            cuts = list(ev[3]) if len(ev) > 3 else []
            ncoal = ev[4] if len(ev) > 4 else 1
            self._clock(now)
            if not self.q[side]:
                return []
            # COALESCED delivery: up to `ncoal` consecutive frames in flight reach the reader in ONE read (or, with cuts,
            # as tail of one frame + the next frame ...)
            raw = b"".join(self.q[side][:ncoal])
            if ncoal > 1 and len(self.q[side]) > 1:
                self.coalesced = getattr(self, "coalesced", 0) + 1
            del self.q[side][:ncoal]
            if not self.sock(side):
                return []
            e = self.ends[side]
            c = e.conn
            # the transport hands the reader the frame in pieces: at the given cut positions (fractions of the frame
            # length, so that a replay does not depend on the exact bytes) and never more than 4096 bytes per read()
            pos = sorted({min(len(raw) - 1, max(1, int(f * len(raw)))) for f in cuts if len(raw) > 1})
            pieces, last = [], 0
            for x in pos + [len(raw)]:
                seg = raw[last:x]
                last = x
                while seg:
                    pieces.append(seg[:4096])
                    seg = seg[4096:]
            self.chunked = getattr(self, "chunked", 0) + (1 if len(pieces) > 1 else 0)
            if self.reader_dead[side]:
                return []                 # nobody reads: the frame stays in the socket buffer
            c._socket_reader = S._Reader(pieces)
            try:
                S.run_coro(c.socket_read_task())
            except S._Done:
                pass
            except Exception as exc:      # the exception left socket_read_task(): the reader TASK is gone for good
                self.reader_dead[side] = True
                e.eff.append(("R", "reader-task-died:" + S.exc_kind(exc)))
            if c._socket_reader is not None:
                c._socket_reader = object()
            if c._msg_buffer:
                self.anomalies.append(("buffer-left", bytes(c._msg_buffer)))
                c._msg_buffer = b""
            return self._collect(side)
        if k == "b":
            now = ev[1]
            self._clock(now)
            self.q = {"I": [], "A": []}
            toks = []
            for side in ("I", "A"):
                e = self.ends[side]
                c = e.conn
                if c._socket_reader is not None and not self.reader_dead[side]:
                    c._socket_reader = S._Reader([b""])
                    try:
                        S.run_coro(c.socket_read_task())
                    except S._Done:
                        pass
                    except Exception as exc:
                        self.reader_dead[side] = True
                        e.eff.append(("R", "reader-task-died:" + S.exc_kind(exc)))
                    if c._socket_reader is not None:
                        c._socket_reader = object()
                toks += self._collect(side)
            return toks
        if k == "r":
            now = ev[1]
            self._clock(now)
            if self.sock("I") or self.sock("A"):
                return []
            self.q = {"I": [], "A": []}
            self.ends["A"].apply("all", ("conn", "acc"))
            toks = self._collect("A")
            e = self.ends["I"]
            e.apply("all", ("conn", "init"))
            e.apply("all", ("send", now, ("A", [(98, "0"), (108, str(self.hb))])))
            return toks + self._collect("I")
        if k == "o":
            # graceful logout by the application of that side
            _, side, now, text = ev
            self._clock(now)
            e = self.ends[side]
            e.apply("all", ("disc", now, 2, text))
            return self._collect(side)
        if k == "x":
            # endpoint restart: new Journaler + new connection object over the same file; only without a transport
            side = ev[1]
            e = self.ends[side]
            if not self.file or self.sock(side):
                return []
            if self.pending[side] is not None:
                self.pending[side][0].close()
                self.pending[side] = None
            e.restart(1 if side == "I" else 2)
            e.conn.log = _Log(e.eff)
            self._patch_drain(side, e)
            self._patch_hooks(side, e)
            self.restarts += 1
            return []
        raise ValueError(ev)

    # ---- observation
    def scalars(self, side):
        e = self.ends[side]
        c, s = e.conn, e.conn._session
        cur = e.journal.cursor
        cur.execute("SELECT outboundSeqNo, inboundSeqNo FROM session WHERE sessionId=?", (e.key,))
        so, si = next(cur)
        cnt = []
        for d in (e.MD.OUTBOUND, e.MD.INBOUND):
            cur.execute("SELECT COUNT(*) FROM message WHERE session=? AND direction=?", (e.key, d.value))
            cnt.append(next(cur)[0])
        return " ".join(str(x) for x in [
            int(c._connection_state), c._connection_role.value, 1 if c._connection_was_active else 0,
            s.next_num_in, s.next_num_out, c._max_seq_num_resend, 1 if c._socket_writer is not None else 0,
            so, si, cnt[0], cnt[1]])

    def state(self, side):
        return int(self.ends[side].conn._connection_state)

    def quiescent(self):
        return self.state("I") == 17 and self.state("A") == 17 and not self.q["I"] and not self.q["A"]

    def lite(self, toks):
        return ((";".join(toks) if toks else "-") + " # " + self.scalars("I") + " # " + self.scalars("A") + " # "
                + f"{len(self.q['A'])} {len(self.q['I'])} {1 if self.quiescent() else 0}")

    def full(self):
        def frames(q):
            out = [str(len(q))]
            for raw in q:
                fs = S.bytes_to_fields(raw)
                out.append(S.msg_tok((S.mtype_of(fs), fs)))
            return " ".join(out)
        return ("FULL " + self.ends["I"].dump() + " ## " + self.ends["A"].dump() + " ## " + frames(self.q["A"]) + " ## "
                + frames(self.q["I"]))


def ev_tokens(ev):
    k = ev[0]
    if k in ("s", "S"):
        # in the model a send is complete when it is journaled and written: the suspension in drain() has no state
        return f"s {ev[1]} {ev[2]} {S.stok(S.stamp(ev[2]))} {S.msg_tok(ev[3])}"
    if k == "d":
        one = f"d {ev[1]} {ev[2]} {S.stok(S.stamp(ev[2]))}"
        return " / ".join([one] * (ev[4] if len(ev) > 4 else 1))
    if k == "o":
        return f"o {ev[1]} {ev[2]} {S.stok(S.stamp(ev[2]))} {S.stok(ev[3])}"
    if k == "x":
        return f"x {ev[1]}"
    return f"{k} {ev[1]} {S.stok(S.stamp(ev[1]))}"


MODEL_SILENT = ("R", "F", "H")   # events without a counterpart in the model (resume of a suspended send, fault arming)


def ev_now(ev, default=T0):
    if ev[0] in ("s", "d", "o", "S"):
        return ev[2]
    if ev[0] in ("b", "r"):
        return ev[1]
    return default


def ev_json(ev):
    return [list(x) if isinstance(x, tuple) else x for x in ev]


def ev_from_json(j):
    if j[0] in ("s", "S"):
        return (j[0], j[1], j[2], (j[3][0], [(int(t), v) for t, v in j[3][1]]))
    if j[0] == "d" and len(j) > 3:
        return ("d", j[1], j[2], tuple(j[3])) + tuple(j[4:])
    return tuple(j)


def model_line(events, k, hb=HB):
    return f"sched.link-run {k} {hb} " + " / ".join(ev_tokens(e) for e in events if e[0] not in MODEL_SILENT)


def short(ev):
    return (ev[0] + (ev[1] if ev[0] in ("s", "d", "o", "x", "S", "R", "F", "H") else "") +
            ("~" if ev[0] == "d" and len(ev) > 3 and ev[3] else "") + (f"*{ev[4]}" if ev[0] == "d" and len(ev) > 4 else ""))


# ------------------------------------------------------------------------------------------------
# walks
# ------------------------------------------------------------------------------------------------

FRAMING_VALUES = ["FIX.4.4", "FIX.4.4 is what 8=FIX.4.4 looks like", "8=FIX.4.4", "10=000", "9=12", "35=A", "a=b=c", "=",
                  "FIX.", "10=", "x" * 300 + "8=FIX.4.4" + "y" * 300, "34=1 43=Y", "FIXT.1.1"]


def payload(side, n):
    """application messages of 4 kinds; every 3rd one carries header-ish tags an application may legally set itself:
    an explicit PossDupFlag=N, sometimes with a stale OrigSendingTime (the resend logic must overwrite the flag)"""
    kinds = [("D", [(11, f"{side}{n}"), (58, f"text {n}")]), ("8", [(37, f"{side}x{n}"), (58, "café")]),
             ("U7", [(58, f"{side}-{n}")]), ("3", [(45, str(n)), (58, side)])]
    mt, tags = kinds[n % len(kinds)] if n % 5 else kinds[0]
    tags = list(tags)
    if n % 4 == 2:
        # VALUES that look like framing: BeginString / BodyLength / CheckSum look-alikes, under tags ending in 8 / 9 / 0,
        # '=' inside values, long values (longer than one 4096-byte read)
        v = FRAMING_VALUES[(n // 4) % len(FRAMING_VALUES)]
        tags = [(t, x) for t, x in tags if t != 58] + [(58, v), (148, "FIX.4.4 head"), (10008, "FIX.4.2"), (359, "12")]
        if (n // 4) % 40 == 3:
            tags.append((354, "4200"))
            tags.append((355, "FIX." + "x" * 4196))   # longer than one 4096-byte read
    tags.append((5001, f"{side}#{n}"))      # unique within a walk: the oracle matches deliveries to sends by payload
    if n % 3 == 1:
        tags.append((43, "N"))
        if n % 2:
            tags.append((122, S.stamp(T0 - 60_000)))
    return (mt, tags)


def gen_walk(pair: Pair, rng, max_len, max_breaks, on_event=None, coalesce=True):
    """generate a random walk online (choices depend on the implementation's state) and run it on `pair`;
    returns [(event, lite, full|None)]"""
    pair.reset()
    now = T0
    n = rng.randint(max(4, max_len // 3), max_len)
    breaks = 0
    style = rng.random()
    p_logout = rng.choice([0.0, 0.03, 0.06])
    p_chunk = rng.choice([0.0, 0.5, 1.0])
    p_suspend = rng.choice([0.0, 0.0, 0.4])     # BACK-PRESSURE: sends whose drain() really suspends
    p_coalesce = rng.choice([0.0, 0.0, 0.5]) if coalesce else 0.0   # several frames in flight arrive in ONE read
    out = []
    for i in range(n):
        now += rng.choice([0, 125, 250, 1000])
        connected = pair.sock("I") or pair.sock("A")
        r = rng.random()
        if not connected:
            if pair.file and r < 0.25:
                ev = ("x", rng.choice("IA"))
            elif r < 0.75:
                ev = ("r", now)
            elif r < 0.9:
                ev = ("s", rng.choice("IA"), now, payload("z", len(pair.accepted["I"]) + len(pair.accepted["A"])))
            else:
                ev = ("d", rng.choice("IA"), now)
        else:
            pending = [s for s in "IA" if pair.q[s]]
            p_break = 0.10 if style < 0.5 else 0.04
            if breaks >= max_breaks:
                p_break = 0.0
            # break more often while a recovery is in progress (a side not ACTIVE, or frames in flight after a reconnect)
            if breaks < max_breaks and (pair.state("I") != 17 or pair.state("A") != 17):
                p_break = max(p_break, 0.18)
            if r < p_break:
                ev = ("b", now)
                breaks += 1
            elif r < p_break + 0.03:
                ev = ("r", now)
            elif r < p_break + 0.03 + p_logout:
                ev = ("o", rng.choice([s for s in "IA" if pair.sock(s)]), now, rng.choice(["bye", "", "end of day"]))
            elif pair.file and r < p_break + 0.05 + p_logout:
                ev = ("x", rng.choice("IA"))
            elif pending and r < 0.62:
                ev = ("d", rng.choice(pending), now)
            elif r < 0.66:
                ev = ("d", rng.choice("IA"), now)
            else:
                side = rng.choice("IA")
                ev = ("s", side, now, payload(side, len(pair.accepted[side]) + i))
        parked = [s_ for s_ in "IA" if pair.pending[s_] is not None]
        if parked and rng.random() < 0.25:
            ev = ("R", rng.choice(parked))
        elif ev[0] == "s" and rng.random() < p_suspend:
            ev = ("S",) + ev[1:]
        if ev[0] == "d" and rng.random() < p_chunk:
            ev = ev + (tuple(round(rng.random(), 3) for _ in range(rng.randint(1, 3))),)
        if ev[0] == "d" and len(pair.q[ev[1]]) > 1 and rng.random() < p_coalesce:
            ev = (ev + ((),))[:4] + (rng.randint(2, 4),)
        toks = pair.apply(ev)
        if on_event:
            on_event(ev, toks)
        out.append((ev, toks))
    return out


SIZE_BASES_QUICK = [1, 2, 10, 64, 100, 128, 256]
SIZE_BASES_THOROUGH = SIZE_BASES_QUICK + [1000]


def pick_sizes(ctx, rng):
    """backlog sizes of the long scenarios: around typical batching constants (base - 1, base, base + 1); every run has
    at least one backlog >= 99 and (thorough) one >= 999"""
    bases = SIZE_BASES_THOROUGH if ctx.tier == "thorough" else SIZE_BASES_QUICK
    out = [rng.choice([100, 128, 256]) + rng.choice([-1, 0, 1]), rng.choice([100, 128]) + rng.choice([-1, 0, 1, 10])]
    for _ in range(ctx.n(4, 12)):
        out.append(max(1, rng.choice(bases) + rng.choice([-1, 0, 1])))
    if ctx.tier == "thorough":
        out += [999, 1000, 1001, 257, 1000 + rng.randint(2, 200)]
    return out


def long_walk(pair: Pair, rng, size, on_event, force=None):
    """a LONG scenario: logon; a prelude of breaks in which Logon replies and resend replies are lost (so that the
    outbound journals get consecutive session rows, gap-fill rows and holes); then a backlog of `size` application
    messages sent while deliveries are withheld (optionally lost in one more break); recovery; a final clean
    break / reconnect / logon.  Returns the event list; the caller checks quiescence."""
    pair.reset()
    now = [T0]
    events = []
    counters = {"I": 0, "A": 0}

    def do(*ev):
        now[0] += 125
        if ev[0] in ("s", "d", "o"):
            e = (ev[0], ev[1], now[0]) + tuple(ev[2:])
        elif ev[0] == "x":
            e = ("x", ev[1])
        else:
            e = (ev[0], now[0])
        if e[0] == "d" and rng.random() < 0.3:
            e = e + ((round(rng.random(), 3),),)
        toks = pair.apply(e)
        events.append(e)
        on_event(e, toks)
        if e[0] == "b" and pair.file:
            # CONFIGURATION: endpoints restarted over their journal files while the link is down
            for side in "IA":
                if rng.random() < 0.4:
                    do("x", side)

    def send(side):
        counters[side] += 1
        do("s", side, payload(side, counters[side]))

    def drain_all(limit=20000):
        for _ in range(limit):
            if pair.q["A"]:
                do("d", "A")
            elif pair.q["I"]:
                do("d", "I")
            else:
                return

    def deliver_all_to(side):
        while pair.q[side]:
            do("d", side)

    do("r")
    drain_all()
    for _ in range(rng.randint(0, 3)):
        send(rng.choice("IA"))
    drain_all()
    # prelude: lost Logon replies and lost resend replies
    for _ in range(rng.randint(1, 3)):
        do("b")
        do("r")
        do("d", "A")                      # A answers the Logon (and asks for a resend if it is behind)
        if force or rng.random() < 0.7:
            do("b")                        # ... the answer is lost: two consecutive Logon rows on both sides
            do("r")
            do("d", "A")
        deliver_all_to("I")               # I: Logon reply, gap -> ResendRequest; A's request (if any) is served
        for _ in range(rng.randint(0, 3)):
            if pair.q["A"]:
                do("d", "A")              # A serves I's request (session rows compacted into one GapFill) ...
        if rng.random() < 0.3:
            for _ in range(rng.randint(0, 2)):
                if pair.q["I"]:
                    do("d", "I")
        # ... and the reply is lost
    do("b")
    do("r")
    do("d", "A")
    senders = force or rng.choice(["A", "A", "I", "both"])
    if senders != "A":
        deliver_all_to("I")               # the initiator may send only after the Logon reply
    mode = "lost" if force else rng.choice(["withheld", "withheld", "lost"])
    for j in range(size):
        side = senders if senders in ("A", "I") else "AI"[j % 2]
        send(side)
        if rng.random() < 0.01:
            q = rng.choice("IA")
            if pair.q[q]:
                do("d", q)
    if mode == "lost":
        do("b")
        do("r")
    drain_all()
    mid_quiescent = pair.quiescent()
    do("b")
    do("r")
    drain_all()
    return events, {"size": size, "senders": senders, "mode": mode, "mid_quiescent": mid_quiescent}


def corpus_walks():
    out = []
    for path in sorted(glob.glob(os.path.join(C.VERIF, "corpus", "link", "*.json"))):
        with open(path) as f:
            for e in json.load(f):
                out.append((e.get("label", os.path.basename(path)), [ev_from_json(x) for x in e["events"]]))
    return out


def run_events(pair: Pair, events, k):
    """run a fixed event list on the implementation; returns the segments the model prints for `link-run k`"""
    pair.reset()
    segs = []
    for i, ev in enumerate(events):
        toks = pair.apply(ev)
        seg = pair.lite(toks)
        if i == len(events) - 1 or (k and (i + 1) % k == 0):
            seg += " # " + pair.full()
        segs.append(seg)
    return segs


def compare_walk(events, impl_segs, model_reply, label):
    """impl_segs: one segment per event that has a model counterpart (see MODEL_SILENT)"""
    pos = [i for i, e in enumerate(events) if e[0] not in MODEL_SILENT]
    msegs = model_reply.split(" | ") if model_reply else []
    if model_reply != "bad-op" and any(e[0] == "d" and len(e) > 4 for e in events):
        # a coalesced delivery is `n` deliveries in the model: effects concatenated, state of the last one
        merged, j = [], 0
        for i in pos:
            g = events[i][4] if events[i][0] == "d" and len(events[i]) > 4 else 1
            grp = msegs[j:j + g]
            j += g
            if not grp:
                break
            effs = [x.split(" # ", 1)[0] for x in grp]
            effs = [x for x in effs if x != "-"]
            merged.append((";".join(effs) if effs else "-") + " # " + grp[-1].split(" # ", 1)[1])
        msegs = merged
    if model_reply == "bad-op" or len(msegs) != len(impl_segs):
        return {"input": {"events": [ev_json(e) for e in events], "label": label}, "model": model_reply[:600],
                "impl": f"{len(impl_segs)} segments"}
    for i, (a, b) in enumerate(zip(impl_segs, msegs)):
        if a != b:
            return {"input": {"events": [ev_json(e) for e in events[: pos[i] + 1]], "label": label, "step": pos[i]},
                    "model": b[:3000], "impl": a[:3000]}
    return None


# ------------------------------------------------------------------------------------------------
# correspondence
# ------------------------------------------------------------------------------------------------

ALPHABET = ["sI", "sA", "dA", "dI", "b", "r"]


def alpha_event(name, pair: Pair):
    if name == "sI":
        k = len(pair.accepted['I'])
        return ("s", "I", T0, ("D", [(58, f"i{k}")] + ([(43, "N")] if k % 2 else [])))
    if name == "sA":
        k = len(pair.accepted['A'])
        return ("s", "A", T0, ("D", [(58, f"a{k}")] + ([(43, "N"), (122, S.stamp(T0 - 60_000))] if k % 2 else [])))
    if name == "dA":
        return ("d", "A", T0)
    if name == "dI":
        return ("d", "I", T0)
    return (name, T0)


def exhaustive(pair: Pair, drv, depth, stats, check_state=None, max_states=None):
    """breadth-first over the event alphabet with state hashing, implementation and model in lock-step:
    every (state, event) pair is executed on both (the implementation by replaying the state's path on the two
    real objects) and the resulting whole states are compared."""
    dis, evals = [], 0
    pair.reset()
    seen = {pair.full() + repr(pair.delivered) + repr(pair.accepted)}
    frontier = [[]]
    levels = []
    for d in range(depth):
        lines, cases, nxt = [], [], []
        for path in frontier:
            for name in ALPHABET:
                pair.reset()
                for ev in path:
                    pair.apply(ev)
                ev = alpha_event(name, pair)
                toks = pair.apply(ev)
                seg = pair.lite(toks) + " # " + pair.full()
                events = path + [ev]
                lines.append(model_line(events, 0))
                cases.append((events, seg))
                evals += 1
                stats["event"][name] = stats["event"].get(name, 0) + 1
                if check_state:
                    check_state(pair, events)
                key = pair.full() + repr(pair.delivered) + repr(pair.accepted)
                if key not in seen:
                    seen.add(key)
                    nxt.append(events)
        replies = drv.batch(lines) if lines else []
        for (events, seg), rep in zip(cases, replies):
            mseg = rep.split(" | ")[-1]
            if mseg != seg:
                dis.append({"input": {"events": [ev_json(e) for e in events], "label": "exhaustive", "step": len(events) - 1},
                            "model": mseg[:3000], "impl": seg[:3000]})
        levels.append(len(nxt))
        frontier = nxt
        if max_states and len(seen) > max_states:
            break
    stats["exhaustive_levels"] = levels
    stats["exhaustive_states"] = len(seen)
    return evals, dis


def note_walk(stats, pair, walk):
    for ev, toks in walk:
        k = short(ev)
        stats["event"][k] = stats["event"].get(k, 0) + 1
        for t in toks:
            kind = t.split(":", 1)[1].split("=")[0]
            stats["effect"][kind] = stats["effect"].get(kind, 0) + 1
            if kind in ("R", "C"):
                stats["exception"][t] = stats["exception"].get(t, 0) + 1
            if kind == "W":
                mt = S.parse_msg_tok(t.split("=", 1)[1])
                key = "write:" + mt[0] + (":possdup" if dict(mt[1]).get(43) == "Y" else "")
                stats["frames"][key] = stats["frames"].get(key, 0) + 1
            if kind == "S":
                stats["state_entered"][t.split("=")[1]] = stats["state_entered"].get(t.split("=")[1], 0) + 1


def correspondence(ctx):
    pair = Pair()
    drv = C.Driver()
    stats = {"event": {}, "effect": {}, "exception": {}, "frames": {}, "state_entered": {}, "walk_len": {}, "breaks": {},
             "quiescent_points": 0}
    dis, evals, samples = [], 0, []
    distinct = set()
    try:
        # corpus first
        walks = []
        for label, events in corpus_walks():
            segs = run_events(pair, events, 1)
            walks.append((label, events, segs, 1))
        # random walks
        nw, ml, mb = ctx.n(1000, 8000), ctx.n(40, 120), ctx.n(3, 6)
        K = ctx.n(8, 12)
        for w in range(nw):
            segs = []

            def on_event(ev, toks, segs=segs):
                if ev[0] in MODEL_SILENT:
                    if toks:
                        pair.anomalies.append(("effects-at-silent-event", ev_json(ev), toks))
                    return
                seg = pair.lite(toks)
                if (len(segs) + 1) % K == 0:
                    seg += " # " + pair.full()
                segs.append(seg)
                if seg.endswith(" 1") or " 1 # FULL" in seg:
                    stats["quiescent_points"] += 1

            walk = gen_walk(pair, ctx.rng, ml, mb, on_event)
            events = [e for e, _ in walk]
            kk = K
            if any(e[0] == "d" and len(e) > 4 for e in events):
                # coalesced deliveries are several model events: whole state compared at the end only
                segs[:] = [x.split(" # FULL")[0] for x in segs]
                kk = 0
            if not segs[-1].count(" # FULL"):
                segs[-1] += " # " + pair.full()
            note_walk(stats, pair, walk)
            b = sum(1 for e in events if e[0] == "b")
            stats["breaks"][str(b)] = stats["breaks"].get(str(b), 0) + 1
            lb = str(len(events) // 10 * 10)
            stats["walk_len"][lb] = stats["walk_len"].get(lb, 0) + 1
            for (ev, toks), seg in zip([x for x in walk if x[0][0] not in MODEL_SILENT], segs):
                distinct.add((short(ev), tuple(t.split("=")[0] for t in toks), seg.split(" # ")[1].split(" ")[0],
                              seg.split(" # ")[2].split(" ")[0]))
            walks.append((f"walk{w}", events, segs, kk))
            if pair.anomalies:
                dis.append({"input": {"events": [ev_json(e) for e in events], "label": "harness-anomaly"},
                            "model": "-", "impl": repr(pair.anomalies[:3])[:600]})
        # CONFIGURATION: file journals, endpoints restarted (new Journaler + new connection object over the same file)
        fpair = Pair(file=True)
        try:
            nfw = ctx.n(200, 1500)
            stats["file_walks"] = {"walks": nfw, "restarts": 0}
            for w in range(nfw):
                segs = []

                def on_fevent(ev, toks, segs=segs):
                    if ev[0] in MODEL_SILENT:
                        if toks:
                            fpair.anomalies.append(("effects-at-silent-event", ev_json(ev), toks))
                        return
                    seg = fpair.lite(toks)
                    if (len(segs) + 1) % K == 0:
                        seg += " # " + fpair.full()
                    segs.append(seg)

                walk = gen_walk(fpair, ctx.rng, ml, mb, on_fevent)
                events = [e for e, _ in walk]
                kk = K
                if any(e[0] == "d" and len(e) > 4 for e in events):
                    segs[:] = [x.split(" # FULL")[0] for x in segs]
                    kk = 0
                if not segs[-1].count(" # FULL"):
                    segs[-1] += " # " + fpair.full()
                note_walk(stats, fpair, walk)
                stats["file_walks"]["restarts"] += fpair.restarts
                walks.append((f"filewalk{w}", events, segs, kk))
                if fpair.anomalies:
                    dis.append({"input": {"events": [ev_json(e) for e in events], "label": "harness-anomaly"},
                                "model": "-", "impl": repr(fpair.anomalies[:3])[:600]})
            stats["chunked_deliveries"] = getattr(pair, "chunked", 0) + getattr(fpair, "chunked", 0)
            stats["coalesced_deliveries"] = getattr(pair, "coalesced", 0) + getattr(fpair, "coalesced", 0)
        finally:
            fpair.close()
        # long scenarios: backlogs around batching constants, journals with holes / gap-fill rows
        stats["long_scenarios"] = []
        for li, size in enumerate(pick_sizes(ctx, ctx.rng)):
            segs = []

            def on_long(ev, toks, segs=segs):
                segs.append(pair.lite(toks))

            # the first two (backlog >= 99) are forced: lost Logon replies in the prelude, backlog lost in a break
            events, info = long_walk(pair, ctx.rng, size, on_long, force={0: "A", 1: "I"}.get(li) or {1000: "A", 1001: "I"}.get(size))
            segs[-1] += " # " + pair.full()
            info["events"] = len(events)
            info["final_quiescent"] = pair.quiescent()
            stats["long_scenarios"].append(info)
            walks.append((f"long{size}", events, segs, 0))
        # model side in batches
        B = 500
        for i in range(0, len(walks), B):
            chunk = walks[i:i + B]
            replies = drv.batch([model_line(ev, k) for (_, ev, _, k) in chunk])
            for (label, events, segs, k), rep in zip(chunk, replies):
                evals += len(events)
                d = compare_walk(events, segs, rep, label)
                if d:
                    dis.append(d)
        for (label, events, segs, k) in walks[:2] + walks[-2:]:
            samples.append({"label": label, "events": " ".join(short(e) for e in events)[:300], "last": segs[-1][:300]})
        # exhaustive
        depth = ctx.n(7, 10)
        ev2, dis2 = exhaustive(pair, drv, depth, stats)
        evals += ev2
        dis += dis2
        # model-only exhaustive exploration (state hashing inside the driver): on every reached state the abstraction
        # commutes with the step functions, the invariants SafeInv / SyncInv hold and the property's clauses hold
        mdepth = ctx.n(10, 14)
        rep = drv.batch([f"sched.link-explore {mdepth} {HB}"])[0]
        stats["model_exploration"] = rep[:300]
        if " bad 0" not in rep:
            dis.append({"input": {"events": [], "label": "model-exploration"}, "model": rep[:1500],
                        "impl": "expected: bad 0"})
        return {
            "evaluations": evals,
            "distinct_nontrivial": len(distinct),
            "rule": f"{nw} random walks of length <= {ml} with <= {mb} breaks over two real connection objects (events: "
                    "application send on either side with 4 message kinds (explicit 43=N / stale 122; values that look like framing: "
                    "8=FIX.4.4, 10=000, 9=12, FIX.* under tags ending in 8, '=' inside values, values longer than one read), delivery "
                    "of the next frame in either direction as a whole or in 2-4 arbitrary chunks through the real reader loop, "
                    "2-4 consecutive frames COALESCED into one read (also as tail of one frame + the next frame), "
                    "graceful logout by either application, sends whose drain() really suspends (resumed later, the reader of the "
                    "same endpoint runs in between), on a second population of walks over SQLite FILE journals also "
                    "endpoint restart (new Journaler + connection object over the same file), "
                    "break, reconnect+Logon; breaks biased towards recovery phases), each compared with the Link model after "
                    f"EVERY event (effects, states, counters, watermark, stored counters, row counts, queue lengths, quiescence) "
                    f"and on the whole state (journals decoded, queues) every {K}th event and at the end; plus exhaustive "
                    f"breadth-first exploration to depth {depth} over the 6-event alphabet with state hashing, whole state "
                    "compared after every (state, event). Long scenarios (size dimension): backlogs of sizes around "
                    "1, 2, 10, 64, 100, 128, 256 (thorough: 1000+) +-1 sent while deliveries are withheld or lost, after a "
                    "prelude of lost Logon replies / lost resend replies (journals with consecutive session rows, gap-fill rows, "
                    "holes), then recovery; compared after every event (effects + scalars) and on the whole state at the end. "
                    "distinct = distinct (event, effect-kind sequence, state I, state A). "
                    f"Model-only: exhaustive exploration to depth {mdepth} inside the driver checking absLink(step) = "
                    "astep(absLink), SafeInv, SyncInv and the property's clauses on every state.",
            "samples": samples,
            "exhaustive": True,
            "distribution": stats,
            "disagreements": dis,
        }
    finally:
        pair.close()


# ------------------------------------------------------------------------------------------------
# oracle (implementation only)
# ------------------------------------------------------------------------------------------------

def pl(m):
    """application payload of a message / frame: type + non-header fields in order"""
    return (m[0], tuple((t, v) for t, v in m[1] if t not in HDR))


def seqnum(m):
    for t, v in m[1]:
        if t == 34:
            return int(v)
    return None


def is_subsequence(xs, ys):
    it = iter(ys)
    return all(any(x == y for y in it) for x in xs)


class Monitor:
    """the property's sentences, evaluated on the two real endpoints after every event"""

    def __init__(self):
        self.failures = []
        self.n = 0
        self.quiescent = 0
        self.recoveries = 0

    def failures_since(self, events):
        """is there already a failure recorded for a prefix of this history"""
        k = [ev_json(e) for e in events]
        return any(f["input"]["events"] == k[: len(f["input"]["events"])] for f in self.failures[-5:])

    def check(self, pair: Pair, events, completeness=True):
        """completeness=False: only the sentences that hold at all times (no duplicate, in-order subsequence, no number
        reused); the quiescence sentences are skipped (used while an injected collaborator fault lasts)"""
        self.n += 1
        fails = []
        for rx, tx in (("I", "A"), ("A", "I")):
            got = [pl(m) for m in pair.delivered[rx]]
            sent = [pl(m) for m, _ in pair.started[tx]]   # accepted + still suspended in drain(), in sending order
            nums = [seqnum(m) for m in pair.delivered[rx]]
            if any(b <= a for a, b in zip(nums, nums[1:])):
                fails.append((f"C07-duplicate-or-reordered-number:{rx}", "delivered MsgSeqNums are not strictly increasing",
                              "strictly increasing", nums[-6:]))
            if not is_subsequence(got, sent):
                fails.append((f"C07-not-a-subsequence:{rx}", "delivered messages are not an in-order subsequence of the accepted ones",
                              sent[-4:], got[-4:]))
            seen = {}
            for m in pair.wire[tx]:
                if m[0] in ("0", "1", "2", "4", "5", "A"):
                    continue
                k = seqnum(m)
                if k in seen and seen[k] != pl(m):
                    fails.append((f"C07-number-reused:{tx}", "a MsgSeqNum was written with two different application payloads",
                                  seen[k], pl(m)))
                    break
                seen[k] = pl(m)
        for side in "IA":
            if pair.reader_dead[side]:
                fails.append((f"C07-reader-task-died:{side}", "an exception left socket_read_task(): the endpoint never reads again",
                              "the reader task survives", "reader task ended"))
        if completeness and pair.quiescent():
            self.quiescent += 1
            for rx, tx in (("I", "A"), ("A", "I")):
                got = [pl(m) for m in pair.delivered[rx]]
                # every send that RETURNED must have been delivered, in sending order; a send still parked in drain() (or
                # abandoned there) has not been accepted: it may or may not have arrived.  Greedy in-order matching
                # (payloads may repeat).
                ptr, missing = 0, 0
                for m, ret in pair.started[tx]:
                    if ptr < len(got) and got[ptr] == pl(m):
                        ptr += 1
                    elif ret:
                        missing += 1
                if missing or ptr != len(got):
                    nret = sum(1 for _, ret in pair.started[tx] if ret)
                    fails.append((f"C07-lost-at-quiescence:{rx}", "at a quiescent point the receiver has not got every accepted message exactly once in order",
                                  f"{nret} messages", f"{len(got)} messages ({missing} missing)"))
                ni = pair.ends[rx].conn._session.next_num_in
                no = pair.ends[tx].conn._session.next_num_out
                if ni != no:
                    fails.append((f"C07-counters-differ-at-quiescence:{rx}", "next expected inbound number != the peer's next outbound number",
                                  no, ni))
        for sig, what, exp, obs in fails:
            self.failures.append({"signature": sig, "what": what, "input": {"events": [ev_json(e) for e in events]},
                                  "expected": repr(exp)[:600], "observed": repr(obs)[:600]})
        return bool(fails)


def drain(pair: Pair, events, mon, now, limit=60):
    """deliver everything in flight (alternating directions); reconnect first when disconnected"""
    for _ in range(limit):
        if pair.pending["I"] is not None:
            ev = ("R", "I")
        elif pair.pending["A"] is not None:
            ev = ("R", "A")
        elif not (pair.sock("I") or pair.sock("A")):
            ev = ("r", now)
        elif pair.q["A"]:
            ev = ("d", "A", now)
        elif pair.q["I"]:
            ev = ("d", "I", now)
        elif pair.sock("I") != pair.sock("A"):
            ev = ("b", now)
        else:
            return
        pair.apply(ev)
        events.append(ev)
        if mon.check(pair, events):
            return


FAULT_HOOKS = [("on_state_change", st) for st in (7, 8, 10, 11, 12, 17)] + \
    [("on_message", None), ("on_logon", None), ("on_logout", None), ("on_state_change", "connected")]
# Not generated by default (reported to the integrator as an observation outside C07's quantifier, see report): a hook
# that raises INSIDE disconnect() when disconnect() is called from the `except ConnectionError` handler of
# socket_read_task() (EOF) - the exception leaves the reader task, which is never started again.
FAULT_HOOKS_EOF = [("on_disconnect", None), ("on_state_change", 3)]


def fault_walk(pair: Pair, rng, mon, max_len, max_breaks, stats):
    """COLLABORATOR FAULT: an application hook of one endpoint raises (for one connection state, or every time) during a
    window of a random walk.  The property is silent about raising hooks, so while the fault lasts only the safety
    sentences are evaluated; after the hook works again the link is broken and re-established once (the property's
    'breaks and reconnects followed by a completed Logon exchange and quiescence') and then everything the sends
    accepted must have been delivered exactly once, in order."""
    side = rng.choice("IA")
    hook, arg = rng.choice(FAULT_HOOKS)
    k1 = rng.randint(0, max_len // 2)
    k2 = k1 + rng.randint(1, max_len // 2)
    done, bad = [], []

    def on_event(ev, toks):
        done.append(ev)
        n = sum(1 for e in done if e[0] != "F")
        if n == k1 + 1:
            f = ("F", side, hook, arg)
            pair.apply(f)
            done.append(f)
        elif n == k2 + 1:
            f = ("F", side, None, None)
            pair.apply(f)
            done.append(f)
        if not bad and mon.check(pair, done, completeness=False):
            bad.append(1)

    gen_walk(pair, rng, max_len, max_breaks, on_event)
    key = f"{hook}:{arg}"
    stats[key] = stats.get(key, 0) + 1
    stats["raised"] = stats.get("raised", 0) + pair.faults_raised
    if bad:
        return
    tnow = max([ev_now(e) for e in done] + [T0]) + 1000
    for ev in (("F", side, None, None), ("b", tnow), ("r", tnow + 125)):
        pair.apply(ev)
        done.append(ev)
    drain(pair, done, mon, tnow + 250, limit=400)
    if not pair.quiescent() and not mon.failures_since(done):
        mon.failures.append({"signature": "C07-recovery-does-not-complete:after-hook-fault",
                             "what": "after a raising application hook was repaired, a break, reconnect and Logon exchange do "
                                     "not bring both ends back to ACTIVE with empty queues",
                             "input": {"events": [ev_json(e) for e in done]},
                             "expected": "both ACTIVE, queues empty",
                             "observed": f"states {pair.state('I')} {pair.state('A')} ({key} on {side})"})


def hooksend_walk(pair: Pair, rng, mon, max_len, max_breaks, stats):
    """CONFIGURATION: application hooks that SEND (on_state_change(ACTIVE) and / or on_logon(healthy) send one
    application message and return normally) on one or both endpoints; the ordinary sentences of C07 at every event
    and at every quiescent point (a message sent from a hook is an accepted message like any other)."""
    cfg = [("H", side, h) for side in "IA" for h in ("on_state_change:17", "on_logon") if rng.random() < 0.45] or \
        [("H", "I", "on_state_change:17")]
    done, bad = [], []

    def on_event(ev, toks):
        if not done:
            for c_ in cfg:           # right after the first event's reset: configure (recorded for the replay)
                pair.apply(c_)
        done.append(ev)
        if len(done) == 1:
            done[0:0] = cfg
        if not bad and mon.check(pair, done):
            bad.append(1)

    gen_walk(pair, rng, max_len, max_breaks, on_event)
    stats["walks"] = stats.get("walks", 0) + 1
    stats["sends_from_hooks"] = stats.get("sends_from_hooks", 0) + pair.hook_sends
    if bad:
        return
    tnow = max([ev_now(e) for e in done] + [T0]) + 1000
    drain(pair, done, mon, tnow, limit=400)
    if not pair.quiescent() and not mon.failures_since(done):
        mon.failures.append({"signature": "C07-recovery-does-not-complete",
                             "what": "with hooks that send, reconnect and delivery of everything in flight do not reach quiescence",
                             "input": {"events": [ev_json(e) for e in done]},
                             "expected": "both ACTIVE, queues empty",
                             "observed": f"states {pair.state('I')} {pair.state('A')}"})


def wedge_probes(pair: Pair, mon, dis):
    """when model and implementation disagree: replay the disagreeing history with the application's on_state_change
    hook raising for each state entered in the disagreeing step (on the endpoint that entered it), repair the hook, add
    fresh traffic both ways and deliver everything - WITHOUT a further break.  Both ends connected, nothing in flight and
    not both ACTIVE with everything delivered = the session is wedged."""
    import re
    evs = [ev_from_json(e) for e in dis["input"].get("events", [])]
    if not evs:
        return
    probes = sorted(set(re.findall(r"([IA]):S=(\d+)", dis.get("model", "") + ";" + dis.get("impl", ""))))
    for side, st in probes:
        if int(st) <= 3:
            continue          # hooks raising inside disconnect(): not generated (see FAULT_HOOKS_EOF)
        f0 = len(mon.failures)
        pair.reset()
        done = []
        for ev in [("F", side, "on_state_change", int(st))] + evs + [("F", side, None, None)]:
            pair.apply(ev)
            done.append(ev)
            if mon.check(pair, done, completeness=False):
                break
        if len(mon.failures) > f0:
            continue
        tnow = max(ev_now(e) for e in evs) + 1000

        def deliver_all():
            for _ in range(2000):
                nxt = next((("R", s_) for s_ in "IA" if pair.pending[s_] is not None), None) or \
                    (("d", "A", tnow + 10) if pair.q["A"] else (("d", "I", tnow + 10) if pair.q["I"] else None))
                if nxt is None:
                    return False
                pair.apply(nxt)
                done.append(nxt)
                if mon.check(pair, done):
                    return True
            return False

        if deliver_all():
            continue
        for i, s_ in enumerate("IAIA"):
            ev = ("s", s_, tnow + i, ("D", [(11, f"probe{i}"), (58, "after the hook works again")]))
            pair.apply(ev)
            done.append(ev)
        if deliver_all():
            continue
        if len(mon.failures) == f0 and pair.sock("I") and pair.sock("A") and not pair.quiescent():
            mon.failures.append({"signature": "C07-wedged-after-hook-fault",
                                 "what": "an on_state_change hook that raised once for one state leaves the two connected "
                                         "endpoints wedged: nothing in flight, not both ACTIVE, later messages are dropped",
                                 "input": {"events": [ev_json(e) for e in done]},
                                 "expected": "both ACTIVE, queues empty, everything delivered",
                                 "observed": f"states {pair.state('I')} {pair.state('A')}; hook raised for state {st} on {side}"})


def oracle(ctx, disagreements, broken):
    mpair = Pair()
    fpair = Pair(file=True)
    pair = mpair          # the nested functions below see the current binding
    mon = Monitor()
    stuck = 0
    try:
        def run_list(events):
            pair.reset()
            done = []
            for ev in events:
                pair.apply(ev)
                done.append(ev)
                if mon.check(pair, done):
                    return

        for dis in disagreements[:100]:
            evs = [ev_from_json(e) for e in dis["input"].get("events", [])]
            f0 = len(mon.failures)
            pair = fpair if any(e[0] == "x" for e in evs) else mpair
            run_list(evs)
            if evs and len(mon.failures) == f0:
                # continue the disagreeing prefix to quiescence: deliver everything, one clean break / reconnect / logon
                tail = list(evs)
                tnow = max(ev_now(e) for e in evs) + 1000
                drain(pair, tail, mon, tnow, limit=20000)
                for ev in (("b", tnow + 125), ("r", tnow + 250)):
                    pair.apply(ev)
                    tail.append(ev)
                drain(pair, tail, mon, tnow + 375, limit=20000)
                if len(mon.failures) == f0 and not pair.quiescent():
                    mon.failures.append({"signature": "C07-recovery-does-not-complete",
                                         "what": "a history on which model and implementation disagree does not reach quiescence",
                                         "input": {"events": [ev_json(e) for e in tail]},
                                         "expected": "both ACTIVE, queues empty",
                                         "observed": f"states {pair.state('I')} {pair.state('A')}"})
        pair = mpair
        for dis in disagreements[:40]:
            if not any(e[0] == "x" for e in dis["input"].get("events", [])):
                wedge_probes(mpair, mon, dis)
        for _, events in corpus_walks():
            run_list(events)
            ev2 = list(events)
            drain(pair, ev2, mon, T0 + 10_000_000)
        # long scenarios (size dimension): the quiescence sentences after the recovery of a long backlog
        long_stats = []
        for li, size in enumerate(pick_sizes(ctx, ctx.rng)):
            done = []
            bad = []

            def on_long(ev, toks):
                done.append(ev)
                # the full monitor is quadratic in the history: every 16th event and at every quiescent point
                if not bad and (len(done) % 16 == 0 or pair.quiescent()) and mon.check(pair, done):
                    bad.append(1)

            pair = fpair if li % 3 == 2 else mpair
            events, info = long_walk(pair, ctx.rng, size, on_long, force={0: "A", 1: "I"}.get(li) or {1000: "A", 1001: "I"}.get(size))
            info["file"] = pair.file
            if not bad and not mon.check(pair, events) and not pair.quiescent():
                mon.failures.append({"signature": "C07-recovery-does-not-complete",
                                     "what": "after the recovery of a long backlog the two ends are not both ACTIVE with empty queues",
                                     "input": {"events": [ev_json(e) for e in events]},
                                     "expected": "both ACTIVE, queues empty",
                                     "observed": f"states {pair.state('I')} {pair.state('A')}"})
            info["events"] = len(events)
            long_stats.append(info)
        nw = ctx.n(800, 3000) * (3 if broken else 1)
        nwf = ctx.n(150, 600) * (3 if broken else 1)
        ml, mb = ctx.n(40, 120), ctx.n(3, 6)
        restarts_total = [0]
        for wi in range(nw + nwf):
            pair = mpair if wi < nw else fpair
            restarts_total[0] += fpair.restarts if wi > nw else 0
            done = []
            bad = []

            def on_event(ev, toks):
                done.append(ev)
                if not bad and mon.check(pair, done):
                    bad.append(1)

            gen_walk(pair, ctx.rng, ml, mb, on_event)
            if bad:
                continue
            # after the walk: reconnect if needed and let everything in flight arrive -> must be quiescent and complete
            q0 = mon.quiescent
            drain(pair, done, mon, (max(ev_now(e) for e in done) + 1000) if done else T0)
            if mon.quiescent == q0 and not pair.quiescent():
                stuck += 1
                mon.failures.append({"signature": "C07-recovery-does-not-complete",
                                     "what": "after reconnect and delivery of everything in flight the two ends are not both ACTIVE",
                                     "input": {"events": [ev_json(e) for e in done]},
                                     "expected": "both ACTIVE, queues empty",
                                     "observed": f"states {pair.state('I')} {pair.state('A')}"})
            else:
                mon.recoveries += 1
        # exhaustive on the implementation alone (when the tie is broken, or in the thorough tier)
        # collaborator faults: raising application hooks
        fault_stats = {}
        for _ in range(ctx.n(200, 2500) * (2 if broken else 1)):
            fault_walk(mpair, ctx.rng, mon, ml, mb, fault_stats)
        # configuration: hooks that send
        hook_stats = {}
        for _ in range(ctx.n(300, 2500) * (2 if broken else 1)):
            hooksend_walk(mpair, ctx.rng, mon, ml, mb, hook_stats)
        pair = mpair
        if broken or ctx.tier == "thorough":
            exhaustive_impl(pair, ctx.n(8, 9), lambda p, events: mon.check(p, events))
        ctx.oracle_stats = {"states_checked": mon.n, "quiescent_points": mon.quiescent, "walks": nw, "file_walks": nwf,
                            "restarts": restarts_total[0], "hook_faults": fault_stats, "hooks_that_send": hook_stats,
                            "coalesced_deliveries": getattr(mpair, "coalesced", 0) + getattr(fpair, "coalesced", 0), "suspended_sends": mpair.suspended_total + fpair.suspended_total,
                            "chunked_deliveries": getattr(mpair, "chunked", 0) + getattr(fpair, "chunked", 0),
                            "completed_recoveries": mon.recoveries, "failures": len(mon.failures),
                            "long_scenarios": long_stats,
                            "sentences": ["duplicate-or-reordered-number", "not-a-subsequence", "number-reused",
                                          "lost-at-quiescence", "counters-differ-at-quiescence", "recovery-does-not-complete"]}
    finally:
        fpair.close()
        mpair.close()
    mon.failures.sort(key=lambda f: len(f["input"]["events"]))
    return mon.failures[:300]


def exhaustive_impl(pair: Pair, depth, check):
    pair.reset()
    seen = {pair.full() + repr(pair.delivered) + repr(pair.accepted)}
    frontier = [[]]
    for _ in range(depth):
        nxt = []
        for path in frontier:
            for name in ALPHABET:
                pair.reset()
                for ev in path:
                    pair.apply(ev)
                ev = alpha_event(name, pair)
                pair.apply(ev)
                events = path + [ev]
                check(pair, events)
                key = pair.full() + repr(pair.delivered) + repr(pair.accepted)
                if key not in seen:
                    seen.add(key)
                    nxt.append(events)
        frontier = nxt


def replay(ctx, rp):
    events = [ev_from_json(e) for e in rp["input"]["events"]]
    pair = Pair(file=any(e[0] == "x" for e in events))
    mon = Monitor()
    try:
        pair.reset()
        done = []
        for ev in events:
            toks = pair.apply(ev)
            done.append(ev)
            mon.check(pair, done, completeness=not any(e[0] == "F" for e in done))
        if rp["signature"] == "C07-wedged-after-hook-fault":
            wedged = pair.sock("I") and pair.sock("A") and not pair.q["I"] and not pair.q["A"] and not pair.quiescent()
            print("replay:", " ".join(short(e) for e in events)[:300], "-> states", pair.state("I"), pair.state("A"),
                  "wedged" if wedged else "not wedged")
            return bool(wedged)
        if rp["signature"].startswith("C07-recovery-does-not-complete"):
            drain(pair, done, mon, T0 + 10_000_000)
            if not pair.quiescent():
                print("replay: not quiescent after drain:", pair.state("I"), pair.state("A"))
                return True
        sigs = sorted({f["signature"] for f in mon.failures})
        print("replay:", " ".join(short(e) for e in events)[:300], "->", sigs)
        return rp["signature"] in sigs
    finally:
        pair.close()
