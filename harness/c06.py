"""C06 – a ResendRequest is answered completely, in order and without side effects.  DESIGN.md §6 C06.

proof:  Props/C06.lean (resend_full for ALL (BeginSeqNo, EndSeqNo), resend_reply_chain,
        invalid_request_no_side_effect, no_session_message_retransmitted, reply_numbers_ascending)
tie:    journal-shape enumeration through harness/sess_common: every outbound journal over the slot
        alphabet {application, application the filter declines, each of the 6 session types, hole,
        retransmitted copy left by an earlier resend, left-over gap fill, application row carrying an explicit
        PossDupFlag 43=N / another non-Y value, application row with a stale tag 122 and no 43} x every (BeginSeqNo, EndSeqNo)
        in [-1, len+2]^2 x {ACTIVE, RESENDREQ_AWAITING}: ONE `recv` of the ResendRequest on the REAL
        connection and on the Lean model, effects and complete post-state (journal rows!) compared;
        then a second and third ResendRequest in sequence (pre-state = the implementation's post-state).
        The real connection's Journaler is SHARED: it also holds two other sessions (another CompID pair,
        and a pair with the same SenderCompID) with inbound and outbound rows numbered below, inside and
        above every range that can be requested
oracle: the ReplyChain specification implemented HERE in Python (nothing of the Lean side is used),
        evaluated on the frames decoded from the bytes the real connection wrote, plus side-effect
        freedom (counter, stored counter, state, rows outside the range, our own inbound rows, nothing but
        writes and state notifications) and: every row and stored counter of the OTHER sessions in the same
        journal is byte-identical afterwards (`C06-other-session-journal-changed`).  The symptoms of the former finding D9 (bounded EndSeqNo: reply runs past it, rows
        after it deleted; repaired by /repo da179c4) keep ONE signature of their own; nothing is listed as
        known any more, so every failure is a violation.
"""
from __future__ import annotations

import glob
import itertools
import json
import os

from . import common as C
from . import sess_common as S

PROP = "C06"
PROPS_MODULES = ["AsyncFix.Props.C06"]
D9_SIG = "C06-bounded-end-gapfills-and-deletes-tail"
ASSUMPTIONS = [
    "OutInv (property C05) is a HYPOTHESIS of the C06 theorems: outbound rows strictly ascending, row n is a complete "
    "frame made by send_msg and carries MsgSeqNum n, all rows < next_num_out, stored counter = next_num_out - 1",
    "the request arrives in ACTIVE, or in RESENDREQ_AWAITING while its own MsgSeqNum is below the resend watermark; "
    "a transport is attached; CompIDs and Codec.current_datetime() are latin-1 text; numbers fit SQLite's 64-bit INTEGER",
    "should_replay is a total, side-effect free predicate of the decoded journal row (an application hook that raises or "
    "sends is outside the model); on_state_change returns normally",
    "the THEOREMS are stated for journal rows as flat field lists whose lookups see the first occurrence of a tag (rows "
    "without repeating groups / distinct tags is the modelling restriction of Model/SessionTypes.lean); rows carrying "
    "top-level and nested repeating groups of the protocol's table are covered by the correspondence (the model, run on the "
    "flat wire field list, agrees with the real decode / encode round trip) and by the oracle's body-identity clause",
]
MODELLED_NOT_VERIFIED = [
    "C06: application hooks return normally WITHOUT calling back into the connection in the model and the theorems; a hook "
    "that sends through send_msg() when on_state_change announces RESENDREQ_HANDLING / ACTIVE is covered by the oracle on "
    "the real connection only (the message keeps its number and row, the reply is judged against the journal incl. it); "
    "a hook sending INSIDE the rewind window (should_replay, a second task) is property C14's subject",
    "C06: the clock - the model takes the SendingTime text per event; the real Codec.current_datetime() runs against a "
    "patched datetime.utcnow() (standing still, backwards, calendar boundaries) and its text is compared",
    "C06: the protocol dictionary the connection is constructed with is NOT a parameter of the session model (only its "
    "beginstring is, via Generated.Proto); that _process_resend behaves the same with FIXProtocol44, a custom "
    "FIXProtocolBase subclass without session_message_types and a beginstring-only subclass is covered by the "
    "correspondence and the oracle only (every enumeration rotates through the three)",
    "C06: magnitudes - the model and the theorems are over unbounded integers (any counter, any bound, Hyp.fits: last sent "
    "number <= sys.maxsize); the correspondence places short journals at 16 round constants up to sys.maxsize with "
    "BeginSeqNo / EndSeqNo hitting them exactly and +-1; numbers beyond SQLite's 64 bits as journal keys are C13's business",
    "C06: the session model keeps the journal of ONE session; that journaler calls made with one session's object leave "
    "all other sessions of a shared journal untouched is proved for the multi-session journal model of C13 "
    "(journal_calls_leave_other_sessions) and checked on the real shared Journaler by the oracle every run; that "
    "_process_resend makes only such calls is by inspection (recover_messages / set_seq_num / persist_msg with self._session)",
    "C06: _process_resend / send_msg / Codec.encode numbering / Journaler.set_seq_num, persist_msg, recover_messages are "
    "hand-modelled (Model/SessionResend.lean, SessionSend.lean, SessionTypes.lean: abstract journal) and compared "
    "with the real connection + real in-memory SQLite journaler on enumerated journal shapes every run",
]

# 14 slot kinds: application; declined application; the 6 session types; hole; retransmitted copy; left-over
# gap fill; application row the application sent with an explicit PossDupFlag 43=N ("n"), with another non-Y
# value ("p": 43=n / 43=0 / empty-looking "NO"), and with a stale OrigSendingTime(122) but no 43 ("o")
# + "q": application row with a top-level repeating group of the protocol's table (NoPartyIDs 453 x 2), "Q": with a
# nested group (453 -> 802), "u": application row of a user-defined / unusual MsgType (U2, UHR, XX, A1, 00, d)
FULL = ["a", "x", "s0", "s1", "s2", "s4", "s5", "sA", "h", "r", "g", "n", "p", "o", "q", "Q", "u"]
# folded alphabet for the long journals: 's' = one session type, rotating through all 6;
# 'A' = one replayable application row, rotating through a / n / p / o
RED = ["A", "x", "s", "h", "r", "g"]
APP_KINDS = ["a", "n", "p", "o", "q", "Q", "u"]
U_TYPES = ["U2", "UHR", "XX", "A1", "00", "d"]       # near-miss members of the never-retransmitted set included
_GROWS = {}
SESS_TYPES = ["0", "1", "2", "4", "5", "A"]
NOREPLAY = {"0", "1", "2", "4", "5", "A"}          # FIX session-level messages that are never resent
ENVELOPE = {8, 9, 35, 49, 56, 34, 52, 10, 43, 122}
T0 = S.T0


# ------------------------------------------------------------------------------------------
# cases
# ------------------------------------------------------------------------------------------
def slot_row(letter, n, k=0):
    """journal row for slot kind `letter` at number n (None = hole); rows are made by the REAL encoder"""
    if letter == "s":
        letter = "s" + SESS_TYPES[(n + k) % 6]
    if letter == "A":
        letter = APP_KINDS[(n + k) % 7]
    if letter in ("q", "Q"):
        return group_row(n, letter == "Q")
    if letter == "u":
        return S.row("S", "T", U_TYPES[(n + k) % 6], ((58, "user defined type"),), n, T0)
    if letter == "n":   # header field 43 with its default value, in the middle of the message's own tags
        return S.row("S", "T", "D", ((11, f"o{n}"), (43, "N"), (58, "x")), n, T0)
    if letter == "p":
        return S.row("S", "T", "D", ((43, ["n", "0", "NO"][n % 3]), (11, f"o{n}"), (58, "x")), n, T0)
    if letter == "o":   # stale OrigSendingTime without PossDupFlag
        return S.row("S", "T", "D", ((11, f"o{n}"), (58, "x"), (122, S.stamp(T0 - 7000))), n, T0)
    if letter == "a":
        return S.row("S", "T", "D", ((11, f"o{n}"), (58, "x")), n, T0)
    if letter == "x":
        return S.row("S", "T", "8", ((37, f"e{n}"), (58, "declined")), n, T0)
    if letter == "h":
        return None
    if letter == "r":   # what an earlier resend left: body, then 43, then 122 (first sending time)
        return S.row("S", "T", "D", ((11, f"o{n}"), (58, "x"), (43, "Y"), (122, S.stamp(T0 - 5000))), n, T0 - 1000)
    if letter == "g":
        return S.row("S", "T", "4", ((123, "Y"), (36, str(n + 1))), n, T0 - 1000)
    t = letter[1:]
    tags = {"0": (), "1": ((112, "t1"),), "2": ((7, "1"), (16, "0")), "4": ((36, str(n + 3)),),
            "5": ((58, "bye"),), "A": ((98, "0"), (108, "30"))}[t]
    return S.row("S", "T", t, tags, n, T0)


def group_row(n, nested):
    """application row carrying a repeating group, made by the REAL encoder from a FIXMessage with group items;
    the row is the flat wire field list (group member tags repeat)"""
    key = (n, nested)
    if key not in _GROWS:
        from asyncfix import FIXMessage
        from asyncfix.codec import Codec
        from asyncfix.message import FIXContainer
        from asyncfix.protocol import FIXProtocol44
        import types as _t

        m = FIXMessage("D", {11: f"o{n}"})
        items = []
        for j in (1, 2):
            it = FIXContainer({448: f"P{j}", 447: "D", 452: str(j)})
            if nested:
                it.set_group(802, [{523: f"sub{j}a", 803: "1"}, {523: f"sub{j}b", 803: "2"}])
            items.append(it)
        m.set_group(453, items)
        m.set(58, "x")
        m.set(34, n)
        old = Codec.__dict__["current_datetime"]
        Codec.current_datetime = staticmethod(lambda: S.stamp(T0))
        try:
            raw = Codec(FIXProtocol44()).encode(
                m, _t.SimpleNamespace(sender_comp_id="S", target_comp_id="T"), raw_seq_num=True).encode("latin-1")
        finally:
            Codec.current_datetime = old
        _GROWS[key] = (n, ("D", S.bytes_to_fields(raw)))
    return _GROWS[key]


def make_abs(case):
    """case = {journal:[letters], b, e, state, base, sr, role, k} -> (AbsConn, sr spec, declined numbers)"""
    J, base = case["journal"], case.get("base", 0)
    n = len(J)
    nin = case.get("nin", 5)
    a = S.AbsConn(state=case.get("state", 17), role=case.get("role", 1), was_active=True, sender="S", target="T",
                  next_in=nin, next_out=base + n + 1, sock=True, stored_out=base + n, stored_in=nin - 1)
    if a.state == 12:
        a.max_resend = a.next_in + 4
    rows, declined = [], set()
    for i, letter in enumerate(J):
        num = base + i + 1
        r = slot_row(letter, num, case.get("k", 0))
        if r is not None:
            rows.append(r)
        if letter == "x":
            declined.add(num)
    a.out_rows = rows
    a.in_rows = [S.row("T", "S", "0", (), nin - 2, T0), S.row("T", "S", "D", ((11, "in4"),), nin - 1, T0)]
    mode = case.get("sr", "letters")
    if mode == "none":
        sr, declined = "none", {r[0] for r in rows}
    elif mode in ("all", "default") or not declined:     # default = the library's own should_replay (replays everything)
        sr, declined = "all", set()
    else:
        sr = "d" + ",".join(str(x) for x in sorted(declined))
    return a, sr, declined


def spell(v, how):
    """other spellings of an integer that Python's int() reads as the same number"""
    if how == "zeros":
        return ("-00" + str(-v)) if v < 0 else "00" + str(v)
    if how == "plus":
        return str(v) if v < 0 else "+" + str(v)
    if how == "ws":
        return f" {v}\t"
    if how == "under" and abs(v) >= 10:
        t = str(abs(v))
        return ("-" if v < 0 else "") + t[0] + "_" + t[1:]
    return str(v)


def request(a, b, e, now, how="plain"):
    return ("recv", now, S.inbound(a, "2", [(7, spell(b, how)), (16, spell(e, how))], now_ms=now))


PROTOS = {}


def set_protocol(impl, kind):
    """C-family dimension: the protocol dictionary the connection was constructed with.
    fix44 = FIXProtocol44; custom = a dictionary derived from FIXProtocolBase that defines only beginstring and
    repeating_groups (no session_message_types, as every dictionary written for the library does);
    bare = beginstring only.  The session layer must behave the same with all three."""
    if not PROTOS:
        from asyncfix.protocol import FIXProtocol44, FIXProtocolBase

        class Custom(FIXProtocolBase):
            beginstring = "FIX.4.4"
            repeating_groups = dict(FIXProtocol44.repeating_groups)

        class Bare(FIXProtocolBase):
            beginstring = "FIX.4.4"

        PROTOS.update(custom=Custom(), bare=Bare())
    if not hasattr(impl, "c06_fix44"):
        impl.c06_fix44 = impl.conn._codec.protocol
    impl.conn._codec.protocol = impl.c06_fix44 if kind == "fix44" else PROTOS[kind]


# ---- a journal shared with other sessions ------------------------------------------------------------
_FBYTES = {}


def _fbytes(sender, target, n):
    k = (sender, target, n)
    if k not in _FBYTES:
        _FBYTES[k] = S.fields_to_bytes(S.row(sender, target, "D", ((11, f"f{n}"),), n, T0)[1][1])
    return _FBYTES[k]


def foreign_keys(impl):
    """two more sessions in the SAME Journaler (created once per Impl): another CompID pair, and a pair
    that shares our SenderCompID"""
    if not hasattr(impl, "c06_keys"):
        j = impl.journal
        impl.c06_keys = [j.create_or_load("T2", "S2").key, j.create_or_load("T9", "S").key]
        assert impl.key not in impl.c06_keys
    return impl.c06_keys


_FROWS = {}


def foreign_rows(impl, a):
    """rows of the other sessions: numbers below, inside and above every range that can be requested from
    `a`, both directions; returns (message rows, counter updates, the snapshot these make)"""
    k2, k3 = foreign_keys(impl)
    no = a.next_out
    ck = (id(impl), no)
    if ck in _FROWS:
        return _FROWS[ck]
    lo, hi = max(1, no - 7), no + 2
    rows = []
    top = 2 ** 63 - 1
    hi = min(hi, top)
    for n in {lo, no - 3, no - 2, no - 1, no + 1}:           # below / inside / above any requestable range
        if 1 <= n <= top:
            rows.append((n, k2, 1, _fbytes("S2", "T2", n)))   # MessageDirection.OUTBOUND
    for n in {lo, no - 1, no + 1}:
        if 1 <= n <= top:
            rows.append((n, k2, 0, _fbytes("T2", "S2", n)))   # INBOUND
    for n in {no - 1, no + 1}:
        if 1 <= n <= top:
            rows.append((n, k3, 1, _fbytes("S", "T9", n)))
    rows = sorted(set(rows))
    c3 = min(no + 1, top)
    counters = [(k2, hi, hi), (k3, c3, 0)]
    expect = (sorted((k, d, n, m) for (n, k, d, m) in rows),
              sorted([(k2, "T2", "S2", hi, hi), (k3, "T9", "S", c3, 0)]))
    if len(_FROWS) > 64:
        _FROWS.clear()
    _FROWS[ck] = (rows, counters, expect)
    return _FROWS[ck]


def snapshot_others(impl):
    cur = impl.journal.cursor
    cur.execute("SELECT session, direction, seqNo, msg FROM message WHERE session != ? ORDER BY session, direction, seqNo",
                (impl.key,))
    msgs = [tuple(r) for r in cur]
    cur.execute("SELECT sessionId, targetCompId, senderCompId, outboundSeqNo, inboundSeqNo FROM session "
                "WHERE sessionId != ? ORDER BY sessionId", (impl.key,))
    return msgs, [tuple(r) for r in cur]


def step_shared(impl, a, sr, ev):
    """ONE event on the real connection whose Journaler also holds two other sessions;
    returns (effects, post-state of OUR session, other sessions before, other sessions after)"""
    impl.load(a)
    cur = impl.journal.cursor
    rows, counters, before = foreign_rows(impl, a)
    cur.executemany("INSERT INTO message VALUES(?, ?, ?, ?)", rows)
    for k, so, si in counters:
        cur.execute("UPDATE session SET outboundSeqNo=?, inboundSeqNo=? WHERE sessionId=?", (so, si, k))
    impl.journal.conn.commit()
    if not getattr(impl, "c06_checked", False):     # once per Impl: the computed snapshot is what SQLite holds
        assert impl.MD.OUTBOUND.value == 1 and impl.MD.INBOUND.value == 0
        assert snapshot_others(impl) == before, (snapshot_others(impl), before)
        impl.c06_checked = True
    impl.apply(sr, ev)
    eff, post = impl.effects(), impl.dump()
    return eff, post, before, snapshot_others(impl)


# ---- the wall clock (T family): the REAL Codec.current_datetime() runs, the clock it reads is ours -------
import datetime as _dtmod

ROW_TIME = _dtmod.datetime(2024, 1, 2) + _dtmod.timedelta(milliseconds=T0 % 86400000)   # SendingTime of rows (S.stamp(T0))
_D = _dtmod.datetime
# named clocks: request number i (0, 1, 2) -> what datetime.utcnow() returns while that request is served
CLOCKS = {
    "forward": lambda i: ROW_TIME + _dtmod.timedelta(seconds=i + 1, microseconds=[0, 499, 500, 999][i % 4]),
    "still": lambda i: ROW_TIME,                                              # = the rows' SendingTime, standing still
    "still-us999": lambda i: ROW_TIME + _dtmod.timedelta(microseconds=999),  # same millisecond text
    "back": lambda i: ROW_TIME - _dtmod.timedelta(seconds=3 * (i + 1), microseconds=1),
    "back-1us": lambda i: ROW_TIME - _dtmod.timedelta(microseconds=1 + i),   # ...19.999999 -> text .999
    "before-copies": lambda i: ROW_TIME - _dtmod.timedelta(seconds=9 + i),   # earlier than the 122 of 'r' rows too
    "yesterday": lambda i: _D(2024, 1, 1, 23, 59, 59, 999999 - i),
    "last-year": lambda i: _D(2023, 12, 31, 23, 59, 59, 999500),
    "leap-day": lambda i: _D(2024, 2, 29, 0, 0, i, 0),
    "feb28-2100": lambda i: _D(2100, 2, 28, 23, 59, 59, 999499),
    "feb29-2000": lambda i: _D(2000, 2, 29, 12, 0, 0, 1),
    "epoch": lambda i: _D(1970, 1, 1, 0, 0, 0, i),
    "year-9999": lambda i: _D(9999, 12, 31, 23, 59, 59, 999999),
    "jump": lambda i: ROW_TIME + _dtmod.timedelta(days=400 * i, seconds=1),
    "zigzag": lambda i: ROW_TIME + _dtmod.timedelta(seconds=[5, -5, 0][i % 3]),
}


def stamp_of(dt):
    """the SendingTime text of that instant, computed here (truncated milliseconds)"""
    return "%04d%02d%02d-%02d:%02d:%02d.%03d" % (dt.year, dt.month, dt.day, dt.hour, dt.minute, dt.second,
                                                 dt.microsecond // 1000)


def install_clock(impl):
    """undo sess_common's stub of Codec.current_datetime (the real method formats again) and give the module
    the clock it reads: asyncfix.codec.datetime.utcnow() returns impl.c06_dt"""
    if getattr(impl, "c06_clock", None):
        return
    import asyncfix.codec as cmod

    class FakeDateTime(_dtmod.datetime):
        @classmethod
        def utcnow(cls):
            return impl.c06_dt

        @classmethod
        def now(cls, tz=None):
            return impl.c06_dt

    impl.c06_dt = ROW_TIME
    # sess_common (since round 5) already lets the real method run against its own fake clock; C06 replaces that
    # clock by one with a free date and microseconds
    impl.c06_clock = (cmod, cmod.datetime)
    cmod.datetime = FakeDateTime


def remove_clock(impl):
    if getattr(impl, "c06_clock", None):
        cmod, dt = impl.c06_clock
        cmod.datetime = dt
        impl.c06_clock = None


def close_impl(impl):
    remove_clock(impl)
    impl.close()


def step_line(a, sr, ev, stamp_text):
    """the same step for the model: the event carries the time text of the clock"""
    return f"sess.step {sr} {a.tokens()} E recv {ev[1]} {S.stok(stamp_text)} {S.msg_tok(ev[2])}"


# ---- an application hook that sends (A family) --------------------------------------------------------
HOOK_TAGS = ((11, "from-hook"), (58, "sent inside on_state_change"))


def install_hook(impl, trigger):
    """on_state_change(trigger) sends an application message through the public send_msg()"""
    import types

    conn, eff = impl.conn, impl.eff

    async def on_state_change(self, s):
        eff.append(("S", int(s)))
        if int(s) == trigger:
            m = impl.FIXMessage("D")
            for t, v in HOOK_TAGS:
                m.set(t, v)
            await self.send_msg(m)

    conn.on_state_change = types.MethodType(on_state_change, conn)


def remove_hook(impl):
    impl.conn.__dict__.pop("on_state_change", None)


def run_impl(impl, case):
    """all requests of a case on the real connection; returns
    [(pre AbsConn, sr, event, declined, eff, post, other sessions before, other sessions after, time text)]"""
    a, sr, declined = make_abs(case)
    steps = []
    rep = case.get("repeat", 1)
    proto = case.get("proto", "fix44")
    if proto == "bare" and any(x in ("q", "Q", "A") for x in case["journal"]):
        proto = "custom"        # rows with repeating groups need a dictionary that knows the groups
    set_protocol(impl, proto)
    if case.get("sr") == "default":      # configuration "should_replay not overridden": the library's default hook
        import types as _t
        impl.conn.should_replay = _t.MethodType(impl.cm.AsyncFIXConnection.should_replay, impl.conn)
    install_clock(impl)
    clock = CLOCKS[case.get("clock", "forward")]
    if case.get("hook"):
        install_hook(impl, case["hook"])
    try:
        for i in range(rep):
            now = T0 + 1000 * (i + 1) if case.get("clock", "forward") in ("forward", "jump") else T0 - 2000 * i
            ev = request(a, case["b"], case["e"], now, case.get("spell", "plain"))
            impl.c06_dt = clock(i)
            eff, post, before, after = step_shared(impl, a, sr, ev)
            steps.append((a, sr, ev, declined, eff, post, before, after, stamp_of(clock(i))))
            if i + 1 < rep:
                a = S.parse_conn_tokens(post)
    finally:
        remove_hook(impl)
        impl.conn.__dict__.pop("should_replay", None)
    return steps


# ------------------------------------------------------------------------------------------
# the specification (Python, implementation-only)
# ------------------------------------------------------------------------------------------
def fget(fs, t):
    for k, v in fs:
        if k == t:
            return v
    return None


def body(fs):
    return [(k, v) for k, v in fs if k not in ENVELOPE]


def well_framed(fs):
    """BodyLength / CheckSum recomputed by an independent framer"""
    if len(fs) < 4 or fs[0][0] != 8 or fs[1][0] != 9 or fs[2][0] != 35 or fs[-1][0] != 10:
        return False
    return S.frame_fields(fs[0][1], fs[2][1], fs[3:-1]) == fs


def replayable(rowfs, num, declined):
    return fget(rowfs, 35) not in NOREPLAY and num not in declined


def check_chain(frames, J, declined, b, last, sender, target):
    """`frames` (field lists) must cover [b, last] exactly once, ascending, abutting.
    Returns (problems, beyond) – beyond = the chain ran past `last` (then checked against the journal up to
    where it ends, so that the D9 class can be told apart from other defects)."""
    probs, beyond = [], False
    a = b
    for fs in frames:
        if not well_framed(fs):
            probs.append(("frame-malformed", f"at {a}"))
        if fget(fs, 8) != "FIX.4.4" or fget(fs, 49) != sender or fget(fs, 56) != target:
            probs.append(("frame-header", f"at {a}"))
        seq = fget(fs, 34)
        if seq != str(a):
            probs.append(("chain-not-abutting", f"frame numbered {seq}, expected {a}"))
            try:
                a = int(seq)
            except (TypeError, ValueError):
                return probs, beyond
        if a > last:
            beyond = True
        if fget(fs, 35) == "4":
            try:
                new = int(fget(fs, 36))
            except (TypeError, ValueError):
                probs.append(("gapfill-malformed", f"at {a}"))
                return probs, beyond
            if fget(fs, 123) != "Y" or body(fs) != [(123, "Y"), (36, str(new))]:
                probs.append(("gapfill-malformed", f"at {a}: {body(fs)}"))
            if new <= a:
                probs.append(("gapfill-not-forward", f"{a} -> {new}"))
                return probs, beyond
            if new > last + 1:
                beyond = True
            for n in sorted(J):
                if a <= n < min(new, last + 1) and replayable(J[n], n, declined):
                    probs.append(("gapfill-over-replayable", f"{a} -> {new} skips {n}"))
            a = new
        else:
            row = J.get(a)
            if row is None:
                probs.append(("retransmission-of-nothing", f"{a} is not in the journal"))
            else:
                if fget(row, 35) in NOREPLAY or fget(fs, 35) in NOREPLAY:
                    probs.append(("session-message-retransmitted", f"{a} type {fget(fs, 35)}"))
                elif a in declined:
                    probs.append(("declined-message-retransmitted", f"{a}"))
                if fget(fs, 35) != fget(row, 35):
                    probs.append(("retransmission-type", f"{a}"))
                if fget(fs, 43) != "Y":
                    probs.append(("possdup-missing", f"{a}: 43={fget(fs, 43)}"))
                orig = fget(row, 122) if fget(row, 122) is not None else fget(row, 52)
                if fget(fs, 122) != orig:
                    probs.append(("origsendingtime", f"{a}: 122={fget(fs, 122)} expected {orig}"))
                if body(fs) != body(row):
                    probs.append(("body-differs", f"{a}: {body(fs)} vs {body(row)}"))
            a += 1
    if a < last + 1:
        probs.append(("chain-incomplete", f"ends at {a - 1}, requested up to {last}"))
    return probs, beyond


def classes(a, b, e):
    no = a.next_out
    if b < 1:
        return "invalid-low"
    if b >= no:
        return "invalid-high"
    if e == 0:
        return "open"
    if e >= no - 1:
        return "bounded-at-or-beyond-last"
    return "d9-inverted" if e < b else "d9-bounded"


def check_step(a, declined, b, e, eff, post, before=None, after=None, stamp_text=None):
    """property clauses for ONE request; returns [(signature, what)]"""
    out = []
    cls = classes(a, b, e)
    p = S.parse_conn_tokens(post)
    J = {seq: fs for seq, (_, fs) in a.out_rows}
    P = {seq: fs for seq, (_, fs) in p.out_rows}
    frames = [S.parse_msg_tok(x[2:])[1] for x in eff if x.startswith("W=")]
    other = [x for x in eff if not x.startswith("W=") and not x.startswith("S=")]
    d9 = cls.startswith("d9")
    fails = []      # (clause, detail, is_d9_symptom)
    if other:
        fails.append(("unexpected-effect", ";".join(x[:40] for x in other), False))
    if stamp_text is not None:
        for fs in frames:
            if fget(fs, 52) != stamp_text:
                fails.append(("sendingtime-not-the-clock", f"52={fget(fs, 52)} clock {stamp_text}", False))
                break
    if p.next_out != a.next_out:
        fails.append(("next-out-changed", f"{a.next_out} -> {p.next_out}", False))
    if p.stored_out != a.stored_out:
        fails.append(("stored-counter-changed", f"{a.stored_out} -> {p.stored_out}", False))
    if p.state != a.state:
        fails.append(("state-changed", f"{a.state} -> {p.state}", False))
    if (p.role, p.sock, p.test_req_id, p.hb, p.max_resend) != (a.role, a.sock, a.test_req_id, a.hb, a.max_resend):
        fails.append(("connection-field-changed", "", False))
    if p.next_in != a.next_in + 1:
        fails.append(("request-not-consumed", f"next_in {a.next_in} -> {p.next_in}", False))
    # our own INBOUND rows: what was there stays byte-identical, the request is added under its number
    if sorted(r for r in p.in_rows if r[0] != a.next_in) != sorted(a.in_rows):
        fails.append(("inbound-rows-changed", f"{[r[0] for r in a.in_rows]} -> {[r[0] for r in p.in_rows]}", False))
    # the OTHER sessions of the same journal: every row and the stored counters byte-identical
    if before is not None and before != after:
        lost = [r[:3] for r in before[0] if r not in after[0]]
        new = [r[:3] for r in after[0] if r not in before[0]]
        fails.append(("other-session-journal-changed",
                      f"rows (session, direction, seqNo) lost {lost[:6]} new {new[:6]}; counters {before[1]} -> {after[1]}", False))
    if cls.startswith("invalid"):
        if frames:
            fails.append(("invalid-request-answered", f"{len(frames)} frames", False))
        if P != J:
            fails.append(("invalid-request-journal-changed", "", False))
    else:
        no = a.next_out
        last = no - 1 if (e == 0 or e >= no - 1) else (b - 1 if e < b else e)
        probs, beyond = check_chain(frames, J, declined, b, last, a.sender, a.target)
        for k, d in probs:
            fails.append((k, d, False))
        if beyond:
            fails.append(("reply-beyond-end", f"asked for [{b}, {last}]", True))
        # journal: below the range untouched, in the range exactly the frames written, above untouched
        for n in set(J) | set(P):
            if n < b and J.get(n) != P.get(n):
                fails.append(("row-below-range-changed", str(n), False))
            if n > last and J.get(n) != P.get(n):
                fails.append(("row-after-end-changed", f"{n}: " + ("deleted" if n not in P else "replaced"), True))
        sent = {}
        for fs in frames:
            try:
                sent[int(fget(fs, 34))] = fs
            except (TypeError, ValueError):
                pass
        for n in set(P) | set(sent):
            if b <= n <= last and P.get(n) != sent.get(n):
                fails.append(("row-in-range-not-the-frame-sent", str(n), False))
    if not fails:
        return out
    sym = [f for f in fails if d9 and f[2]]
    if sym:
        out.append((D9_SIG, "bounded EndSeqNo below the last sent number (or EndSeqNo < BeginSeqNo): everything after "
                            "EndSeqNo is gap-filled and deleted from the journal: " + "; ".join(f"{f[0]} {f[1]}" for f in sym[:3])))
    for k, d, _ in [f for f in fails if f not in sym]:
        out.append((f"C06-{k}", f"{k}: {d} (class {cls})"))
    return out


def check_repeat(steps):
    """a second / third request over the same range is answered like the first (modulo the clock)"""
    def norm(eff):
        fr = [S.parse_msg_tok(x[2:])[1] for x in eff if x.startswith("W=")]
        return [[(k, v) for k, v in fs if k not in (9, 10, 52)] for fs in fr]
    out = []
    first = norm(steps[0][4])
    for i, st in enumerate(steps[1:], 2):
        if norm(st[4]) != first:
            out.append(("C06-repeated-request-answered-differently", f"request #{i} over the same range differs from #1"))
    return out


def unhook(a, eff, post, trigger):
    """A step during which on_state_change(trigger) sent one new message.  Checks that message (fresh number =
    the counter at that moment, journaled under it, not a duplicate) and returns the step as it would look without
    the hook: trigger RESENDREQ_HANDLING (before the reply) -> the message belongs to the pre-state, trigger ACTIVE
    (after the reply) -> it is taken out of the post-state.  Returns (problems, a', eff', post')."""
    probs = []
    fired = f"S={trigger}" in eff
    if not fired:
        return probs, a, eff, post
    k = eff.index(f"S={trigger}")
    if k + 1 >= len(eff) or not eff[k + 1].startswith("W="):
        return [("hook-message-not-written", f"effects after S={trigger}: {[x[:30] for x in eff[k + 1:k + 3]]}")], a, eff, post
    fs = S.parse_msg_tok(eff[k + 1][2:])[1]
    n = a.next_out
    if fget(fs, 34) != str(n) or fget(fs, 35) != "D" or fget(fs, 43) is not None or body(fs) != [(t, v) for t, v in HOOK_TAGS]:
        probs.append(("hook-message-wrong", f"expected new message numbered {n}, got 34={fget(fs, 34)} 43={fget(fs, 43)}"))
    eff2 = eff[:k + 1] + eff[k + 2:]
    p = S.parse_conn_tokens(post)
    if trigger == 10:
        a2 = a.copy()
        a2.next_out, a2.stored_out = n + 1, n
        a2.out_rows = list(a.out_rows) + [(n, ("D", fs))]
        return probs, a2, eff2, post
    # trigger 17: the message was sent after the reply; it must be there, and is then taken out again
    rows = dict(p.out_rows)
    if p.next_out != n + 1 or p.stored_out != n or rows.get(n, (None, None))[1] != fs:
        probs.append(("hook-message-lost", f"after the request: next_out {p.next_out} stored {p.stored_out} "
                                           f"row {n} {'missing' if n not in rows else 'differs'}"))
    p.next_out, p.stored_out = p.next_out - 1, p.stored_out - 1
    p.out_rows = [r for r in p.out_rows if r[0] != n]
    return probs, a, eff2, p.tokens()


def check_case(case, steps):
    fl = []
    for (a, sr, ev, declined, eff, post, before, after, stamp_text) in steps:
        if case.get("hook"):
            probs, a, eff, post = unhook(a, eff, post, case["hook"])
            fl += [(f"C06-{k}", f"{k}: {d} (hook at state {case['hook']})") for k, d in probs]
            if any(k == "hook-message-not-written" for k, _ in probs):
                continue
        fl += check_step(a, declined, case["b"] + 0, case["e"] + 0, eff, post, before, after, stamp_text)
    if len(steps) > 1 and not case.get("hook"):
        a0 = steps[0][0]
        if not classes(a0, case["b"], case["e"]).startswith("d9"):
            fl += check_repeat(steps)
    seen, out = set(), []
    for sig, what in fl:
        if sig not in seen:
            seen.add(sig)
            out.append({"signature": sig, "what": what, "input": case, "expected": "ReplyChain over the requested range; "
                        "counter, state and rows outside the range unchanged",
                        "observed": [{"effects": [x[:200] for x in st[4]], "post": st[5][:600]} for st in steps][:2]})
    return out


# ------------------------------------------------------------------------------------------
# enumeration
# ------------------------------------------------------------------------------------------
def be_range(n, base=0):
    return range(base - 1, base + n + 3)


def enum_cases(alphabet, lengths, states=(17, 12), awaiting_every=1, every=1, phase=0):
    idx = 0
    for n in lengths:
        for J in itertools.product(alphabet, repeat=n):
            idx += 1
            if (idx + phase) % every:
                continue
            for st in states:
                if st == 12 and idx % awaiting_every:
                    continue
                for b in be_range(n):
                    for e in be_range(n):
                        yield {"journal": list(J), "b": b, "e": e, "state": st, "role": 1 + idx % 2, "k": idx,
                               "proto": PROTO_ROT[idx % 5], "sr": "default" if idx % 2 else "letters"}


PROTO_ROT = ["fix44", "custom", "fix44", "bare", "fix44"]
MAXS = 2 ** 63 - 1
# 'round' numbers at which counters and bounds change their number of digits / their machine representation,
# and numbers that mean something in some FIX version (999999 = "infinity" of FIX 4.0 / 4.1)
CONSTS = [9, 10, 99, 999, 1000, 9999, 65535, 65536, 99999, 999999, 1000000, 2 ** 31 - 1, 2 ** 31, 2 ** 32,
          2 ** 53, MAXS]


def offset_cases(alphabet, lengths, rng=None, per_len=None, edge_only=False, states=(17,), consts=CONSTS):
    """MAGNITUDE dimension: a short journal numbered base+1 .. base+n placed so that the constant K is the
    number before the journal, one of its rows, the last row, or the next number; requests whose BeginSeqNo /
    EndSeqNo hit K-1, K, K+1 and every number around the journal exactly; the request's own MsgSeqNum near K"""
    idx = 0
    for K in consts:
        for n in lengths:
            Js = list(itertools.product(alphabet, repeat=n))
            if per_len is not None and len(Js) > per_len:
                Js = rng.sample(Js, per_len)
            for J in Js:
                for shift in range(0, n + 2):
                    base = K - shift
                    if base < 0 or base + n + 1 > MAXS:
                        continue
                    idx += 1
                    if edge_only:
                        bs = {base + 1, base + n, K - 1, K, K + 1}
                        es = {0, K - 1, K, K + 1, base + n, base + n + 1}
                    else:
                        bs = set(range(base, base + n + 3)) | {K - 1, K, K + 1}
                        es = bs | {0}
                    nin = 5 if K >= MAXS - 2 else [5, K, K - 1, K + 1][idx % 4]
                    for st in states:
                        for b in sorted(bs):
                            for e in sorted(es):
                                yield {"journal": list(J), "b": b, "e": e, "state": st, "role": 1 + idx % 2, "k": idx,
                                       "base": base, "nin": max(3, nin), "proto": PROTO_ROT[idx % 5], "const": K}


def clock_cases():
    """CLOCK dimension: rows stamped at ROW_TIME (copies carry an earlier 122), requests served while the wall clock
    stands still, runs backwards, is a microsecond before / after, on another day / year, at the ends of the calendar"""
    k = 0
    for J in (["a"], ["r"], ["n", "o"], ["a", "x", "r"], ["s0", "a"]):
        for clock in CLOCKS:
            for (b, e) in ((1, 0), (1, 1)):
                k += 1
                yield {"journal": J, "b": b, "e": e, "state": [17, 17, 12][k % 3], "role": 1 + k % 2, "k": k,
                       "repeat": 3, "clock": clock, "proto": PROTO_ROT[k % 5]}


def hook_cases(alphabet, lengths, every=1, phase=0):
    """RE-ENTRANCY dimension: the application's on_state_change hook sends a new message through send_msg() when
    RESENDREQ_HANDLING (before the reply) resp. ACTIVE (after the reply) is announced; requests incl. the ones
    that ask for the number the hook's message takes"""
    idx = 0
    for n in lengths:
        for J in itertools.product(alphabet, repeat=n):
            idx += 1
            if (idx + phase) % every:
                continue
            for trig in (10, 17):
                for st in (17,) if idx % 4 else (17, 12):
                    for b in range(-1, n + 4):
                        for e in range(-1, n + 4):
                            yield {"journal": list(J), "b": b, "e": e, "state": st, "role": 1 + idx % 2, "k": idx,
                                   "hook": trig, "proto": PROTO_ROT[idx % 5],
                                   "clock": ["forward", "still", "back"][idx % 3]}


def long_cases(rng, count):
    """SIZE dimension: long journals (30-120 numbers) at small and large offsets"""
    for i in range(count):
        n = rng.randint(30, 120)
        J = [rng.choice(FULL) for _ in range(n)]
        base = rng.choice([0, 0, 999990, 2 ** 32 - 50])
        b = base + rng.choice([1, 1, 2, n // 2, n - 1, n])
        e = rng.choice([0, 0, base + n, base + n - 1, base + n // 2, b, b - 1, 999999])
        yield {"journal": J, "b": b, "e": e, "state": rng.choice([17, 12]), "role": rng.choice([1, 2]), "base": base,
               "sr": rng.choice(["letters", "letters", "none"]), "k": i, "repeat": rng.choice([1, 2]),
               "proto": rng.choice(PROTO_ROT)}


def sample_cases(rng, count, maxlen=4):
    for i in range(count):
        n = rng.randint(0, maxlen)
        J = [rng.choice(FULL) for _ in range(n)]
        base = rng.choice([0, 0, 0, 6, 2 ** 32] + [k - rng.randint(0, n + 1) for k in CONSTS[3:-1]])
        b = rng.choice(list(be_range(n, base)) + [0, -1, 1])
        e = rng.choice(list(be_range(n, base)) + [0, 0, 0, 999999, 9999, 2 ** 31 - 1, 2 ** 63, 2 ** 64])
        yield {"journal": J, "b": b, "e": e, "state": rng.choice([17, 17, 12]), "role": rng.choice([1, 2]), "base": base,
               "sr": rng.choice(["letters", "letters", "default", "default", "none", "all"]), "k": i,
               "repeat": rng.choice([1, 1, 1, 2, 3]), "proto": rng.choice(PROTO_ROT),
               "spell": rng.choice(["plain", "plain", "zeros", "plus", "ws", "under"]),
               "clock": rng.choice(["forward"] * 3 + list(CLOCKS)),
               "nin": rng.choice([5, 5, 10, 1000, 2 ** 31])}


def corpus_cases():
    out = []
    d = os.path.join(C.VERIF, "corpus", "session")
    for path in sorted(glob.glob(os.path.join(d, "c06_*.json"))):
        with open(path) as f:
            for c in json.load(f):
                c = dict(c)
                c.pop("note", None)
                out.append(c)
    return out


WITNESSES = [
    {"journal": ["a"] * 5, "b": 2, "e": 3, "state": 17},    # the former D9 counter-example (examples in Props/C06.lean)
    {"journal": ["a"] * 5, "b": 4, "e": 2, "state": 17},
    {"journal": ["a"] * 5, "b": 2, "e": 3, "state": 12},
    {"journal": ["a"] * 5, "b": 3, "e": -1, "state": 17},
]


def chunks(it, n):
    buf = []
    for x in it:
        buf.append(x)
        if len(buf) >= n:
            yield buf
            buf = []
    if buf:
        yield buf


class Stats:
    def __init__(self):
        self.d = {"class": {}, "length": {}, "state": {}, "frames": {}, "slots": {}, "requests_in_sequence": {},
                  "protocol_dictionary": {}, "magnitude_of_next_num_out": {}, "bound_hits_round_constant": {},
                  "request_spelling": {}, "magnitude_of_next_num_in": {}, "wall_clock": {}, "should_replay_hook": {},
                  "hook_sends_at_state": {}}
        self.nontrivial = set()

    def inc(self, k, v):
        self.d[k][str(v)] = self.d[k].get(str(v), 0) + 1

    def note(self, case, steps):
        a = steps[0][0]
        self.inc("class", classes(a, case["b"], case["e"]))
        self.inc("length", len(case["journal"]) if len(case["journal"]) < 8 else "30-120")
        self.inc("state", case.get("state", 17))
        self.inc("requests_in_sequence", len(steps))
        self.inc("protocol_dictionary", case.get("proto", "fix44"))
        self.inc("magnitude_of_next_num_out", "1e%d" % (len(str(a.next_out)) - 1))
        self.inc("magnitude_of_next_num_in", "1e%d" % (len(str(a.next_in)) - 1))
        self.inc("request_spelling", case.get("spell", "plain"))
        self.inc("wall_clock", case.get("clock", "forward"))
        self.inc("should_replay_hook", {"default": "library default (not overridden)"}.get(case.get("sr", "letters"), case.get("sr", "letters")))
        self.inc("hook_sends_at_state", case.get("hook", "-"))
        hit = [k for k in CONSTS if case["e"] == k or case["b"] == k]
        self.inc("bound_hits_round_constant", hit[0] if hit else "-")
        nfr = sum(1 for x in steps[0][4] if x.startswith("W="))
        self.inc("frames", nfr)
        for s in case["journal"]:
            self.inc("slots", s)
        if nfr:
            self.nontrivial.add((tuple(case["journal"]), case["b"], case["e"], case.get("state", 17), case.get("base", 0),
                                 case.get("sr", "letters"), case.get("proto", "fix44")))


def run_both(ctx, impl, drv, cases, stats, dis, impl_fail, maxdis=40):
    """cases on the implementation, the same steps on the model; oracle verdicts from the implementation's results"""
    n = 0
    for chunk in chunks(cases, 4000):
        allsteps, lines = [], []
        for case in chunk:
            steps = run_impl(impl, case)
            allsteps.append((case, steps))
            stats.note(case, steps)
            if not case.get("hook"):        # the model has no re-entrant hook: those cases are judged by the oracle only
                for st in steps:
                    lines.append(step_line(st[0], st[1], st[2], st[8]))
            for f in check_case(case, steps):
                if sum(1 for g in impl_fail if g["signature"] == f["signature"]) < 25:
                    impl_fail.append(f)
                ctx.c06_failcount[f["signature"]] = ctx.c06_failcount.get(f["signature"], 0) + 1
        model = drv.batch(lines) if (drv and lines) else []
        i = 0
        for case, steps in allsteps:
            for (a, sr, ev, _d, eff, post, *_rest) in steps:
                n += 1
                if drv and not case.get("hook"):
                    il = S.reply(eff, post)
                    if il != model[i] and len(dis) < maxdis:
                        dis.append({"input": case, "event": S.event_tokens(ev)[:200], "model": model[i][:1500], "impl": il[:1500]})
                    elif il != model[i]:
                        ctx.c06_more_dis = getattr(ctx, "c06_more_dis", 0) + 1
                if not case.get("hook"):
                    i += 1
    return n


MAG_RULE_T = ("; MAGNITUDE: for each of 16 round constants K (9 .. 999999, 1000000, 2^31-1, 2^31, 2^32, 2^53, sys.maxsize) every "
              "journal of length <= 2 over the 6 slot classes placed at every offset that makes K the number before the journal, "
              "one of its rows, its last row or the next number x every BeginSeqNo / EndSeqNo in {numbers around the journal, K-1, "
              "K, K+1, 0} x ACTIVE (length <= 1 also RESENDREQ_AWAITING), + 12 sampled journals of length 3 (17 kinds) per K with the edge requests; the request's own "
              "MsgSeqNum at 5 / K-1 / K / K+1; protocol dictionary rotating FIXProtocol44 / custom FIXProtocolBase subclass "
              "without session_message_types / beginstring-only subclass in ALL enumerations; 300 long journals (30-120 numbers); "
              "sampled requests with BeginSeqNo / EndSeqNo spelled with leading zeros, '+', white space, '_'")
MAG_RULE_Q = ("; MAGNITUDE: for each of 16 round constants K (9 .. 999999, 1000000, 2^31-1, 2^31, 2^32, 2^53, sys.maxsize) every "
              "1-row journal over the 6 slot classes and one sampled journal each of length 2 and 3 (17 kinds), at every offset "
              "that makes K the number before the journal, one of its rows or the next number, x BeginSeqNo in {first, last, K-1, "
              "K, K+1} x EndSeqNo in {0, K-1, K, K+1, last, last+1}; protocol dictionary rotating FIXProtocol44 / custom "
              "FIXProtocolBase subclass without session_message_types / beginstring-only subclass in ALL enumerations; 25 long "
              "journals (30-120 numbers); sampled requests spelled with leading zeros, '+', white space, '_'")


R5_RULE = ("; CLOCK: the real Codec.current_datetime() formats a patched datetime.utcnow(); 15 clock behaviours (standing "
           "still at the rows' SendingTime, +999 us, 1 us / seconds before it, before the copies' OrigSendingTime, previous "
           "day / year, leap days 2000 / 2024, 28 Feb 2100, epoch, 31 Dec 9999, jumps of 400 days, zig-zag) x 5 journals x 2 "
           "requests x 3 requests in sequence, and a random clock in every sampled case; the model gets the time text per "
           "event; RE-ENTRANCY (implementation and oracle only): on_state_change sends a new message at RESENDREQ_HANDLING / at "
           "ACTIVE, every journal of the scope x every (b, e) incl. the number the hook's message takes")


def correspondence(ctx):
    impl, drv = S.Impl(), C.Driver()
    stats, dis, impl_fail = Stats(), [], []
    ctx.c06_failcount = {}
    try:
        n = 0
        fixed = [dict(c, repeat=c.get("repeat", 3)) for c in corpus_cases() + WITNESSES]
        n += run_both(ctx, impl, drv, fixed, stats, dis, impl_fail)
        if ctx.tier == "thorough":
            rule = ("complete: every journal of length <= 3 over the 17 slot kinds x every (b, e) in [-1, len+2]^2 x {ACTIVE, "
                    "RESENDREQ_AWAITING}; every journal of length 4 and 5 over the 6 slot classes (the session type of an 's' slot "
                    "rotates through all 6, an application slot through plain / 43=N / 43=other / stale-122 / repeating group / nested group / user-defined MsgType) x every (b, e) x ACTIVE (length 5: every 3rd journal, the third chosen by VERIF_SEED), and x RESENDREQ_AWAITING "
                    "for length 4 and every 9th journal of length 5; + 8000 sampled cases (length <= 5, all 17 kinds, counters 1 / 7 / 2^32, filter modes, 1-3 "
                    "requests in sequence)")
            n += run_both(ctx, impl, drv, enum_cases(FULL, range(0, 4)), stats, dis, impl_fail)
            n += run_both(ctx, impl, drv, enum_cases(RED, [4]), stats, dis, impl_fail)
            n += run_both(ctx, impl, drv, enum_cases(RED, [5], awaiting_every=9, every=3, phase=ctx.seed), stats, dis, impl_fail)
            n += run_both(ctx, impl, drv, sample_cases(ctx.rng, 8000, 5), stats, dis, impl_fail)
            n += run_both(ctx, impl, drv, offset_cases(RED, range(0, 2), states=(17, 12)), stats, dis, impl_fail)
            n += run_both(ctx, impl, drv, offset_cases(RED, [2]), stats, dis, impl_fail)
            n += run_both(ctx, impl, drv, offset_cases(FULL, [3], ctx.rng, per_len=12, edge_only=True), stats, dis, impl_fail)
            n += run_both(ctx, impl, drv, long_cases(ctx.rng, 300), stats, dis, impl_fail)
            n += run_both(ctx, impl, drv, clock_cases(), stats, dis, impl_fail)
            n += run_both(ctx, impl, drv, hook_cases(RED, range(0, 4)), stats, dis, impl_fail)
            rule += MAG_RULE_T + R5_RULE
            exhaustive = True
        else:
            rule = ("complete for journals of length <= 1 and every 2nd journal of length 2 (the half chosen by VERIF_SEED) over the 17 slot kinds (incl. rows with top-level / nested repeating groups and user-defined MsgTypes) x every (b, e) in [-1, len+2]^2 x ACTIVE, should_replay alternately the library's default hook and the harness predicate, and x "
                    "RESENDREQ_AWAITING for length <= 1 and every 3rd journal of length 2; + 2400 sampled cases (length <= 4, all 17 kinds, counters 1 / 7 / 2^32, filter modes "
                    "letters / none / all, 1-3 requests in sequence)")
            n += run_both(ctx, impl, drv, enum_cases(FULL, range(0, 2)), stats, dis, impl_fail)
            n += run_both(ctx, impl, drv, enum_cases(FULL, [2], awaiting_every=3, every=2, phase=ctx.seed), stats, dis, impl_fail)
            n += run_both(ctx, impl, drv, sample_cases(ctx.rng, 2400, 4), stats, dis, impl_fail)
            n += run_both(ctx, impl, drv, offset_cases(RED, [1], edge_only=True), stats, dis, impl_fail)
            n += run_both(ctx, impl, drv, offset_cases(FULL, [2, 3], ctx.rng, per_len=1, edge_only=True), stats, dis, impl_fail)
            n += run_both(ctx, impl, drv, long_cases(ctx.rng, 25), stats, dis, impl_fail)
            n += run_both(ctx, impl, drv, clock_cases(), stats, dis, impl_fail)
            n += run_both(ctx, impl, drv, hook_cases(RED, [0, 1]), stats, dis, impl_fail)
            n += run_both(ctx, impl, drv, hook_cases(RED, [2], every=3, phase=ctx.seed), stats, dis, impl_fail)
            rule += MAG_RULE_Q + R5_RULE
            exhaustive = False
    finally:
        close_impl(impl)
    ctx.c06_impl_fail = impl_fail
    ctx.c06_corr_steps = n
    if getattr(ctx, "c06_more_dis", 0):
        ctx.note(f"{ctx.c06_more_dis} further disagreements not listed")
    return {
        "evaluations": n,
        "distinct_nontrivial": len(stats.nontrivial),
        "rule": rule + "; corpus/session/c06_*.json and the finding witnesses first, each with 3 requests in sequence; "
        "distinct_nontrivial = distinct (journal, b, e, state, counter base, filter, protocol dictionary) whose first reply wrote at least one frame",
        "samples": [{"input": d["input"]} for d in dis[:3]] or [{"input": WITNESSES[0]}, {"input": {"journal": ["a", "s0", "x", "h", "a", "h"], "b": 1, "e": 0}}],
        "exhaustive": exhaustive,
        "distribution": stats.d,
        "disagreements": dis,
    }


def oracle(ctx, disagreements, broken):
    impl = S.Impl()
    stats, fails = Stats(), []
    if not hasattr(ctx, "c06_failcount"):
        ctx.c06_failcount = {}
    n = 0
    try:
        # always: witnesses of the former finding D9, the corpus, a modest complete scope
        fixed = [dict(c, repeat=c.get("repeat", 3)) for c in WITNESSES + corpus_cases()]
        n += run_both(ctx, impl, None, fixed, stats, [], fails)
        ran = hasattr(ctx, "c06_corr_steps")    # the correspondence pass already judged all its implementation results
        n += run_both(ctx, impl, None, enum_cases(RED, range(0, 3 if ran else 4)), stats, [], fails)
        n += run_both(ctx, impl, None, offset_cases(["A", "s"], [1], edge_only=True), stats, [], fails)
        n += run_both(ctx, impl, None, long_cases(ctx.rng, 5), stats, [], fails)
        if not ran:
            n += run_both(ctx, impl, None, clock_cases(), stats, [], fails)
        n += run_both(ctx, impl, None, hook_cases(["A", "s", "h"], [0, 1]), stats, [], fails)
        if broken:
            first = [d["input"] for d in disagreements if isinstance(d.get("input"), dict) and "journal" in d["input"]]
            n += run_both(ctx, impl, None, first, stats, [], fails)
            n += run_both(ctx, impl, None, enum_cases(RED, [3, 4]), stats, [], fails)
            n += run_both(ctx, impl, None, offset_cases(RED, range(0, 3)), stats, [], fails)
            n += run_both(ctx, impl, None, sample_cases(ctx.rng, ctx.n(6000, 30000), 5), stats, [], fails)
    finally:
        close_impl(impl)
    fails += getattr(ctx, "c06_impl_fail", [])
    ctx.oracle_stats = {
        "evaluations": n + getattr(ctx, "c06_corr_steps", 0),
        "own_evaluations": n,
        "from_correspondence_pass": getattr(ctx, "c06_corr_steps", 0),
        "failures_by_signature": dict(ctx.c06_failcount),
        "searched_harder": bool(broken),
    }
    # smallest witness first per signature
    fails.sort(key=lambda f: (len(f["input"]["journal"]), f["input"].get("repeat", 1), abs(f["input"]["b"]) + abs(f["input"]["e"])))
    return fails


def replay(ctx, rp):
    impl = S.Impl()
    try:
        case = rp["input"]
        steps = run_impl(impl, case)
        res = check_case(case, steps)
    finally:
        close_impl(impl)
    sigs = [f["signature"] for f in res]
    print("replay:", case, "->", sigs)
    for st in steps:
        print("  effects:", [x[:100] for x in st[4]])
    return rp["signature"] in sigs
