"""C15: hand-labelled near-valid value pool per FIX 4.4 datatype (ground truth for the oracle that does NOT
come from the library's validate_value).  Labels follow the FIX 4.4 datatype table; values in the grey
areas that are open C19 findings ('=' in strings, year 0000, second 60, six fraction digits, LENGTH, 4300+
digits, float overflow) are deliberately left out.  True = inside the lexical space, False = outside."""

_FLOAT = {
    "0": True, "1": True, "-1": True, "1.5": True, "-0.5": True, "0.0": True, "00023.23": True, "23.": True, "100": True,
    "1e3": False, "1E3": False, "nan": False, "inf": False, "-inf": False, "Infinity": False, "1,5": False, "1.2.3": False,
    "abc": False, "--1": False, "1_0": False, " 1.5": False, "1.5 ": False, "0x10": False, "-": False, ".": False, "1.5f": False,
}
_INT = {
    "0": True, "1": True, "-1": True, "7": True, "007": True, "-07": True, "2147483648": True,
    "1.0": False, "1e3": False, " 1": False, "1 ": False, "1_0": False, "-": False, "--1": False, "0x1": False, "abc": False,
    "1,000": False, "٣": False,
}
_POSINT = {
    "1": True, "2": True, "10": True, "99999": True, "0001": True,
    "0": False, "00": False, "-1": False, "-0": False, "1.0": False, "1e1": False, " 1": False, "1_0": False, "abc": False,
}
_DATE = {
    "20230115": True, "20240229": True, "20231231": True, "20230101": True, "19991231": True,
    "20230229": False, "20231301": False, "20230100": False, "20230132": False, "20230431": False, "20230015": False,
    "2023011": False, "202301150": False, "2023-01-15": False, "20230115 ": False, "2023011a": False, "21000229": False,
}
_TIME = {
    "10:20:30": True, "00:00:00": True, "23:59:59": True, "10:20:30.123": True, "00:00:00.000": True,
    "24:00:00": False, "10:60:00": False, "10:20:61": False, "1:2:3": False, "102030": False, "10:20": False,
    "10:20:30.": False, "10-20-30": False, "10:20:30 ": False, "-1:20:30": False,
}
_TS = {
    "20230115-10:20:30": True, "20230115-10:20:30.123": True, "20240229-00:00:00": True, "20231231-23:59:59": True,
    "20230115-24:00:00": False, "20230115-10:60:30": False, "20230115-10:20:61": False, "20230115 10:20:30": False,
    "20230115-1:2:3": False, "20231301-10:20:30": False, "20230229-10:20:30": False, "20230100-10:20:30": False,
    "20230115-10:20": False, "20230115-10:20:30.": False, "20230115": False, "2023-01-15-10:20:30": False,
    "20230115-102030": False, "20230115T10:20:30": False,
}
_MONTHYEAR = {
    "202301": True, "202312": True, "20230115": True, "20230131": True, "20240229": True, "202301w1": True, "202312w5": True,
    "202306w3": True,
    "202300": False, "202313": False, "20230100": False, "20230132": False, "20230229": False, "20231301": False,
    "202301w0": False, "202301w6": False, "202300w1": False, "202313w1": False, "202399w5": False, "2023w1": False,
    "20231w1": False, "2023011w1": False, "202301W1": False, "202301w": False, "202301ww": False, "w1": False,
    "2023": False, "20231": False, "2023-01": False, "20230w1": False, "2023a1w1": False, "202301w11": False,
}

POOL = {
    "INT": _INT,
    "SEQNUM": _POSINT, "NUMINGROUP": _POSINT,
    "DAYOFMONTH": {"1": True, "31": True, "15": True, "0": False, "32": False, "-1": False, "1.0": False, "abc": False, "99": False},
    "BOOLEAN": {"Y": True, "N": True, "y": False, "n": False, "YN": False, "1": False, "T": False, "true": False, " Y": False},
    "CHAR": {"a": True, "1": True, "Z": True, "ab": False, "a ": False, "\x01": False},
    "COUNTRY": {"US": True, "DE": True, "USA": False, "U$": False, "U S": False},
    "CURRENCY": {"USD": True, "EUR": True, "USDX": False, "U$D": False, "US D": False},
    "EXCHANGE": {"XNYS": True, "N": True, "CME": True, "XNYSX": False, "X Y": False, "X$": False},
    "LOCALMKTDATE": _DATE, "UTCDATEONLY": _DATE,
    "UTCTIMEONLY": _TIME,
    "UTCTIMESTAMP": _TS,
    "MONTHYEAR": _MONTHYEAR,
    "STRING": {"abc": True, "a b": True, "x-1/2": True, "0": True, "a\x01b": False, "\x01": False},
}
for _t in ("FLOAT", "QTY", "PRICE", "PRICEOFFSET", "AMT", "PERCENTAGE"):
    POOL[_t] = _FLOAT


def label(ftype, enums, tag, value):
    """True / False when the pool (or the enumeration) decides, None otherwise"""
    if value == "":
        return False
    if enums:
        if value in enums:
            return True
        if ftype.upper() in ("MULTIPLEVALUESTRING", "MULTIPLESTRINGVALUE") and all(c in enums for c in value.split(" ")):
            # a list of members: valid per FIX 4.4, rejected by the library (value-level deviation, C19's
            # subject, reported to its owner) - not labelled here
            return None
        return False
    if tag == "16" and value == "0":          # ResendRequest.EndSeqNo = 0 means "to infinity" (FIX 4.4 session spec)
        return True
    return POOL.get(ftype.upper(), {}).get(value)


def enum_near(enums):
    """values just outside an enumeration"""
    out = []
    for v in enums[:3] + enums[-1:]:
        for w in (v.lower(), v.upper(), v + v, " " + v, v + " ", v[:-1]):
            if w and w not in enums and w not in out:
                out.append(w)
    if len(enums) >= 2:
        # several members joined by a blank: a member list, valid only for the MultipleValueString datatypes
        out += [enums[0] + " " + enums[1], enums[-1] + " " + enums[0]]
    return out + ["?!"]
