"""Bridge check – ties `AsyncFix.Bridge.render` (lean/AsyncFix/Lemmas/BridgeRender.lean) to reality.

The session model records a transport write as `Effect.write f`, `f` an abstract field list; the Lean
function `render f` is "every field `tag=value` followed by SOH, tags in decimal, values as their code
points".  Props/C02Hist proves that `render f` is a well-formed frame of single bytes for every write of
every history.  This script checks that `render f` is what the REAL connection hands to its
transport: for ~300 random session-level steps (mostly `send_msg` of generated messages, plus
TestRequest / Heartbeat / Logout / resend replays and gap fills) it runs

  * the compiled Lean session model (`sess.step`), takes the `W=` effect frames of the reply and
    renders them here exactly as `render` is defined, and
  * the real `AsyncFIXConnection` on a fake transport (`sess_common.Impl`), taking the raw bytes of
    every `_socket_writer.write` call,

and compares the two byte-string lists.  One summary line; exit status 1 on any difference.

    PYTHONPATH=/repo:. /venv/bin/python -m harness.bridge_check [n] [seed]

`run(n, seed)` returns a dict for use from harness/c02.py.
"""
from __future__ import annotations

import os
import random
import sys

from . import common as C
from . import sess_common as S

ACTIVE = 17
SOH = 1


def render(fields) -> list:
    """Lean `render`: `natToDec tag ++ [61] ++ cps value ++ [1]` for every field, concatenated"""
    out = []
    for t, v in fields:
        out += [ord(ch) for ch in str(t)] + [61] + [ord(ch) for ch in v] + [SOH]
    return out


VALUES = ["A", "c1", "hello world", "1.25", "a=b", "8=FIX.4.4", "10=000", "h\xe9llo", "\xff\x80", "Y", "N", "0",
          "20240102-00:00:00.000", "x" * 40]
NONLATIN = ["€", "Ā", "h\xe9llo€", "\U0001f600"]
BODY_TAGS = [1, 11, 38, 44, 54, 55, 58, 60, 112, 9001, 100000, 7, 16, 36, 123]
HDR_TAGS = [34, 52, 49, 56]          # skipped by the encoder
ODD_TAGS = [8, 9, 35, 10, 43, 122]   # kept by the encoder like any other tag
SENDERS = ["S", "SND", "S\xe9", "A=B", "INIT"]
SEQS = [1, 2, 9, 10, 99, 100, 12345, 2 ** 31, 2 ** 62 + 5]   # journal numbers fit SQLite INTEGER


def gen_tags(rng, k):
    pool = BODY_TAGS * 3 + HDR_TAGS + ODD_TAGS
    tags, seen = [], set()
    for _ in range(k):
        t = rng.choice(pool)
        if t in seen:
            continue
        seen.add(t)
        v = rng.choice(VALUES)
        if t == 43:
            v = "N"
        if t == 34:
            v = str(rng.choice(SEQS))
        tags.append((t, v))
    return tags


def gen_case(rng, i):
    """(kind, abstract connection, should_replay spec, event)"""
    a = S.AbsConn(state=ACTIVE, role=rng.choice([1, 2]), was_active=True, sock=True,
                  sender=rng.choice(SENDERS), target=rng.choice(["T", "TGT", "ACPT", "T\xfc"]),
                  next_in=rng.choice([1, 5, 77]), next_out=rng.choice(SEQS), hb=30)
    a.stored_out, a.stored_in = a.next_out - 1, a.next_in - 1
    now = 125 * rng.randrange(1, 600000)
    r = rng.random()
    if r < 0.50:
        mtype = rng.choice(["D", "8", "0", "5", "AE", "j", "3", "A"])
        return "send", a, "all", ("send", now, (mtype, gen_tags(rng, rng.randrange(0, 7))))
    if r < 0.58:
        tags = gen_tags(rng, rng.randrange(1, 5))
        j = rng.randrange(len(tags))
        if tags[j][0] in (34, 43):
            j = None
        if j is not None:
            tags[j] = (tags[j][0], tags[j][1] + rng.choice(NONLATIN))
        return "send-nonlatin", a, "all", ("send", now, ("D", tags))
    if r < 0.66:
        tags = [(t, v) for t, v in gen_tags(rng, rng.randrange(0, 4)) if t not in (34, 43)]
        tags.insert(rng.randrange(len(tags) + 1), (43, "Y"))
        tags.insert(rng.randrange(len(tags) + 1), (34, str(rng.choice(SEQS))))
        return "send-possdup", a, "all", ("send", now, ("D", tags))
    if r < 0.72:
        n = rng.choice(SEQS)
        tags = [(123, rng.choice(["Y", "N"])), (34, str(n)), (36, str(n + rng.randrange(1, 9)))]
        rng.shuffle(tags)
        return "send-seqreset", a, "all", ("send", now, ("4", tags))
    if r < 0.77:
        a.test_req_id = rng.choice([None, 5])
        return "send-testrequest", a, "all", ("send", now, ("1", [(112, "abc")]))
    if r < 0.81:
        return "testreq", a, "all", ("testreq", now)
    if r < 0.86:
        return "logout", a, "all", ("disc", now, rng.choice([1, 2, 3]), rng.choice(["", "bye", "r\xe9son", "a=b"]))
    if r < 0.91:
        m = S.inbound(a, "1", [(112, rng.choice(["T1", "4711", "t\xe9st"]))], now_ms=now)
        return "recv-testrequest", a, "all", ("recv", now, m)
    # ResendRequest served from a journal written by the real encoder: replays + gap fills
    a.next_out = rng.choice([6, 12])
    a.stored_out = a.next_out - 1
    rows = []
    for seq in range(1, a.next_out):
        if rng.random() < 0.25:
            continue
        mt = rng.choice(["D", "D", "8", "0", "A", "1"])
        rows.append(S.encode_row(a.sender, a.target, mt, [(11, f"id{seq}"), (58, rng.choice(VALUES))], seq, now_ms=now))
    a.out_rows = rows
    b = rng.randrange(1, a.next_out)
    e = rng.choice([0, 0, b + rng.randrange(0, 4), a.next_out + 3])
    m = S.inbound(a, "2", [(7, b), (16, e)], now_ms=now)
    sr = rng.choice(["all", "all", "none", "d%d" % rng.randrange(1, a.next_out)])
    return "recv-resend", a, sr, ("recv", now, m)


def model_frames(reply: str):
    eff = reply.split(" # ", 1)[0]
    if eff == "-":
        return []
    return [S.parse_msg_tok(x[2:])[1] for x in eff.split(";") if x.startswith("W=")]


def run(n=300, seed=1, rng=None):
    rng = rng or random.Random("bridge:%s" % seed)
    cases, diffs = [], []
    for i in range(n):
        try:
            cases.append(gen_case(rng, i))
        except Exception as e:  # the journal rows are made with the REAL encoder + decoder (S.encode_row)
            diffs.append({"input": "case %d" % i, "model": "-", "impl": "real encoder/decoder failed while "
                          "preparing journal rows: %s" % type(e).__name__})
    replies = C.Driver().batch([S.step_line(a, sr, ev) for _, a, sr, ev in cases])
    impl = S.Impl()
    kinds, frames, refused = {}, 0, 0
    try:
        for (kind, a, sr, ev), rep in zip(cases, replies):
            kinds[kind] = kinds.get(kind, 0) + 1
            if rep.startswith("bad-op"):
                diffs.append({"input": S.step_line(a, sr, ev), "model": rep, "impl": "driver refused the line"})
                continue
            impl.load(a)
            impl.apply(sr, ev)
            wire = [list(e[1]) for e in impl.eff if e[0] == "W"]
            rendered = [render(fs) for fs in model_frames(rep)]
            frames += len(wire)
            refused += 1 if not wire else 0
            if rendered != wire:
                diffs.append({"input": S.step_line(a, sr, ev), "kind": kind,
                              "model": [bytes(b if b < 256 else 63 for b in fr).hex() for fr in rendered],
                              "impl": [bytes(fr).hex() for fr in wire]})
    finally:
        impl.close()
    return {"cases": n, "frames": frames, "steps_without_write": refused, "kinds": kinds, "differences": diffs}


def main(argv):
    n = int(argv[1]) if len(argv) > 1 else 300
    seed = argv[2] if len(argv) > 2 else os.environ.get("VERIF_SEED", "1")
    res = run(n, seed)
    print("bridge_check: cases=%d transport_writes=%d steps_without_write=%d kinds=%s differences=%d" % (
        res["cases"], res["frames"], res["steps_without_write"],
        ",".join("%s:%d" % kv for kv in sorted(res["kinds"].items())), len(res["differences"])))
    for d in res["differences"][:5]:
        print("  DIFFERENCE", d)
    return 1 if res["differences"] else 0


if __name__ == "__main__":
    sys.exit(main(sys.argv))
