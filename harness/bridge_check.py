"""Bridge check – ties `AsyncFix.Bridge.render` (lean/AsyncFix/Lemmas/BridgeRender.lean) to reality.

The session model records a transport write as `Effect.write f`, `f` an abstract field list; the Lean
function `render f` is "every field `tag=value` followed by SOH, tags in decimal, values as their code
points".  Props/C02Hist proves that `render f` is a well-formed frame of single bytes for every write of
every history.  This script checks that `render f` is what the REAL connection hands to its
transport: for ~300 random session-level steps (mostly `send_msg` of generated messages - values from the
Unicode value classes of codec_common, frames up to > 64 KiB -, plus TestRequest / Heartbeat / Logout / resend
replays and gap fills, also from journals that already hold replayed (PossDupFlag=Y / OrigSendingTime) copies)
and for multi-step CHAINS (sends, ResendRequest, the same / an overlapping ResendRequest again, …) it runs

  * the compiled Lean session model (`sess.step`), takes the `W=` effect frames of the reply and
    renders them here exactly as `render` is defined, and
  * the real `AsyncFIXConnection` on a fake transport (`sess_common.Impl`), taking the raw bytes of
    every `_socket_writer.write` call,

and compares the two byte-string lists.  One summary line; exit status 1 on any difference.

    PYTHONPATH=/repo:. /venv/bin/python -m harness.bridge_check [n] [seed]

`run(n, seed)` returns a dict for use from harness/c02.py.
"""
from __future__ import annotations

import dataclasses
import os
import random
import sys

from . import codec_common as K
from . import common as C
from . import sess_common as S

ACTIVE = 17
SOH = 1


def render(fields) -> list:
    """Lean `render`: `natToDec tag ++ [61] ++ cps value ++ [1]` for every field, concatenated"""
    out = []
    for t, v in fields:
        out += [ord(ch) for ch in str(t)] + [61] + [ord(ch) for ch in v] + [SOH]
    return out


VALUES = ["A", "c1", "hello world", "1.25", "a=b", "8=FIX.4.4", "10=000", "h\xe9llo", "\xff\x80", "Y", "N", "0",
          "20240102-00:00:00.000", "x" * 40]
NONLATIN = ["\u20ac", "\u0100", "h\xe9llo\u20ac", "\U0001f600"]
# Unicode value classes (Lean `String` has no lone surrogates: those go through the codec model only)
for _cls, _texts in K.UNICODE_CLASSES.items():
    if _cls == "surrogate":
        continue
    for _t in _texts:
        (VALUES if K.fits_latin1(_t) else NONLATIN).append(_t) if "\x01" not in _t else None
BODY_TAGS = [1, 11, 38, 44, 54, 55, 58, 60, 112, 9001, 100000, 7, 16, 36, 123]
HDR_TAGS = [34, 52, 49, 56]          # skipped by the encoder
ODD_TAGS = [43, 97, 122, 115, 128]   # optional header fields an application may set: kept like any other tag
SENDERS = ["S", "SND", "S\xe9", "A=B", "INIT"]
SEQS = [1, 2, 9, 10, 99, 100, 12345, 2 ** 31, 2 ** 62 + 5]   # journal numbers fit SQLite INTEGER


def gen_tags(rng, k):
    pool = BODY_TAGS * 3 + HDR_TAGS + ODD_TAGS
    tags, seen = [], set()
    for _ in range(k):
        t = rng.choice(pool)
        if t in seen:
            continue
        seen.add(t)
        v = rng.choice(VALUES)
        if t == 43:
            v = "N"
        if t == 34:
            v = str(rng.choice(SEQS))
        tags.append((t, v))
    return tags


def gen_case(rng, i, tier="quick"):
    """(kind, abstract connection, should_replay spec, [event])"""
    a = S.AbsConn(state=ACTIVE, role=rng.choice([1, 2]), was_active=True, sock=True,
                  sender=rng.choice(SENDERS), target=rng.choice(["T", "TGT", "ACPT", "T\xfc"]),
                  next_in=rng.choice([1, 5, 77]), next_out=rng.choice(SEQS), hb=30)
    a.stored_out, a.stored_in = a.next_out - 1, a.next_in - 1
    now = 125 * rng.randrange(1, 600000)
    r = rng.random()
    if r < 0.46:
        mtype = rng.choice(["D", "8", "0", "5", "AE", "j", "3", "A"])
        return "send", a, "all", [("send", now, (mtype, gen_tags(rng, rng.randrange(0, 7))))]
    if r < 0.48:
        size = rng.choice([4096, 65400, 65536, 65600, 70000] + ([131072, 300000] if tier == "thorough" else []))
        tags = gen_tags(rng, 2) + [(58, rng.choice(["x", "\xe9", "="]) * size)]
        return "send-big", a, "all", [("send", now, ("B", [(t, v) for t, v in tags if t != 58 or len(v) >= size]))]
    if r < 0.58:
        tags = gen_tags(rng, rng.randrange(1, 5))
        j = rng.randrange(len(tags))
        if tags[j][0] in (34, 43):
            j = None
        if j is not None:
            tags[j] = (tags[j][0], tags[j][1] + rng.choice(NONLATIN))
        elif rng.random() < 0.5:
            a.sender = a.sender + rng.choice(NONLATIN)           # … or in a comp id
        return "send-nonlatin", a, "all", [("send", now, ("D", tags))]
    if r < 0.66:
        tags = [(t, v) for t, v in gen_tags(rng, rng.randrange(0, 4)) if t not in (34, 43)]
        tags.insert(rng.randrange(len(tags) + 1), (43, "Y"))
        tags.insert(rng.randrange(len(tags) + 1), (34, str(rng.choice(SEQS))))
        return "send-possdup", a, "all", [("send", now, ("D", tags))]
    if r < 0.72:
        n = rng.choice(SEQS)
        tags = [(123, rng.choice(["Y", "N"])), (34, str(n)), (36, str(n + rng.randrange(1, 9)))]
        rng.shuffle(tags)
        return "send-seqreset", a, "all", [("send", now, ("4", tags))]
    if r < 0.76:
        a.test_req_id = rng.choice([None, 5])
        return "send-testrequest", a, "all", [("send", now, ("1", [(112, "abc")]))]
    if r < 0.79:
        return "testreq", a, "all", [("testreq", now)]
    if r < 0.84:
        return "logout", a, "all", [("disc", now, rng.choice([1, 2, 3]), rng.choice(["", "bye", "r\xe9son", "a=b"]))]
    if r < 0.88:
        m = S.inbound(a, "1", [(112, rng.choice(["T1", "4711", "t\xe9st"]))], now_ms=now)
        return "recv-testrequest", a, "all", [("recv", now, m)]
    # ResendRequest served from a journal written by the real encoder: replays + gap fills.  Some rows are what a
    # PREVIOUS replay left behind (PossDupFlag=Y, OrigSendingTime): the state after "resend, then resend again".
    a.next_out = rng.choice([6, 12])
    a.stored_out = a.next_out - 1
    replayed_before = rng.random() < 0.5
    rows = []
    for seq in range(1, a.next_out):
        if rng.random() < 0.25:
            continue
        mt = rng.choice(["D", "D", "8", "0", "A", "1"])
        tags = [(11, f"id{seq}"), (58, rng.choice(VALUES))]
        if replayed_before and rng.random() < 0.7:
            tags += [(43, "Y"), (122, S.stamp(max(0, now - 60000)))]
        elif rng.random() < 0.1:
            tags += [(122, "20231231-23:59:59")]            # OrigSendingTime set by the application itself
        rows.append(S.encode_row(a.sender, a.target, mt, tags, seq, now_ms=now))
    a.out_rows = rows
    b = rng.randrange(1, a.next_out)
    e = rng.choice([0, 0, b + rng.randrange(0, 4), a.next_out + 3])
    m = S.inbound(a, "2", [(7, b), (16, e)], now_ms=now)
    sr = rng.choice(["all", "all", "none", "d%d" % rng.randrange(1, a.next_out)])
    return ("recv-resend-again" if replayed_before else "recv-resend"), a, sr, [("recv", now, m)]


def model_frames(reply: str):
    eff = reply.split(" # ", 1)[0]
    if eff == "-":
        return []
    return [S.parse_msg_tok(x[2:])[1] for x in eff.split(";") if x.startswith("W=")]


def gen_chain(rng, live):
    """a multi-step history: the next event is chosen from the MODEL's current state (so that inbound frames carry
    the expected numbers); returns (kind, a0, sr, events, model frames per step)"""
    a0 = S.AbsConn(state=ACTIVE, role=rng.choice([1, 2]), was_active=True, sock=True, sender=rng.choice(SENDERS),
                   target=rng.choice(["T", "TGT"]), next_in=rng.choice([1, 9]), next_out=rng.choice([1, 3, 40]), hb=30)
    a0.stored_out, a0.stored_in = a0.next_out - 1, a0.next_in - 1
    first_out = a0.next_out
    sr = rng.choice(["all", "all", "all", "none", "d%d" % (first_out + 1)])
    a, evs, frames = a0, [], []
    now = 125 * rng.randrange(1, 1000)
    plan = ["send"] * rng.randrange(2, 5) + ["resend"] + rng.choice([[], ["send"], ["testreq"]]) + ["resend-again"]
    plan += rng.choice([[], ["resend-again"], ["send", "resend"]])
    last = None
    for what in plan:
        now += 125 * rng.randrange(1, 80)
        if what == "send":
            tags = [(t, v) for t, v in gen_tags(rng, rng.randrange(1, 4)) if t not in (34, 43)]
            ev = ("send", now, (rng.choice(["D", "8", "0", "B"]), tags))
        elif what == "testreq":
            ev = ("recv", now, S.inbound(a, "1", [(112, "T")], now_ms=now))
        else:
            hi = max(first_out, a.next_out - 1)
            if what == "resend-again" and last is not None:
                b, e = last
                if rng.random() < 0.4:
                    b, e = max(1, b + rng.choice([-1, 0, 1])), (0 if e == 0 else e + rng.choice([0, 1]))
            else:
                b = rng.randrange(first_out, hi + 1)
                e = rng.choice([0, 0, b, hi])
            last = (b, e)
            ev = ("recv", now, S.inbound(a, "2", [(7, b), (16, e)], now_ms=now))
        rep = live.ask([S.step_line(a, sr, ev)])[0]
        if rep.startswith("bad-op") or " # " not in rep:
            frames.append(None)
            evs.append(ev)
            break
        frames.append(model_frames(rep))
        evs.append(ev)
        a = S.parse_conn_tokens(rep.split(" # ", 1)[1])
    return "chain", a0, sr, evs, frames


def unrepresentable(a, ev):
    """does this application send carry text outside latin-1 (then nothing may reach the transport)"""
    if ev[0] != "send":
        return False
    mtype, tags = ev[2]
    texts = [mtype, a.sender, a.target] + [v for t, v in tags if t not in HDR_TAGS]
    return any(not K.fits_latin1(x) for x in texts)


def impl_steps(impl, bcase):
    """apply the events of a case to the real connection; per event the list of raw transport writes"""
    kind, a, sr, evs = bcase[:4]
    impl.load(a)
    out = []
    for ev in evs:
        k = len(impl.eff)
        impl.apply(sr, ev)
        out.append([bytes(e[1]) for e in impl.eff[k:] if e[0] == "W"])
    return out


def impl_writes(impl, bcase):
    """(raw write, came from an unrepresentable application send) for the oracle of harness/c02.py"""
    kind, a, sr, evs = bcase[:4]
    for ev, ws in zip(evs, impl_steps(impl, bcase)):
        for w in ws:
            yield w, unrepresentable(a, ev)


def case_to_json(bcase):
    kind, a, sr, evs = bcase[:4]
    return {"kind": kind, "conn": dataclasses.asdict(a), "sr": sr, "events": evs}


def _tup(x):
    return tuple(_tup(y) for y in x) if isinstance(x, (list, tuple)) else x


def case_from_json(j):
    d = dict(j["conn"])
    for k in ("out_rows", "in_rows"):
        d[k] = [(seq, (m[0], [tuple(f) for f in m[1]])) for seq, m in d[k]]
    evs = []
    for ev in j["events"]:
        ev = list(ev)
        if ev[0] in ("recv", "send"):
            ev[2] = (ev[2][0], [tuple(f) for f in ev[2][1]])
        evs.append(tuple(ev))
    return (j["kind"], S.AbsConn(**d), j["sr"], evs)


def run(n=300, seed=1, rng=None, tier="quick"):
    rng = rng or random.Random("bridge:%s" % seed)
    cases, diffs = [], []
    for i in range(n):
        try:
            cases.append(gen_case(rng, i, tier))
        except Exception as e:  # the journal rows are made with the REAL encoder + decoder (S.encode_row)
            diffs.append({"input": "case %d" % i, "model": "-", "impl": "real encoder/decoder failed while "
                          "preparing journal rows: %s" % type(e).__name__})
    replies = C.Driver().batch([S.step_line(a, sr, evs[0]) for _, a, sr, evs in cases])
    model = [[None if rep.startswith("bad-op") else model_frames(rep)] for rep in replies]
    # chains: the model runs first (stateful driver conversation), then the implementation replays the same events
    nchains = max(10, n // 6)
    live = C.LiveDriver()
    try:
        for _ in range(nchains):
            kind, a0, sr, evs, frames = gen_chain(rng, live)
            cases.append((kind, a0, sr, evs))
            model.append(frames)
    finally:
        try:
            live.close()
        except Exception:  # noqa
            pass
    impl = S.Impl()
    kinds, frames, refused, steps = {}, 0, 0, 0
    try:
        for bcase, mframes in zip(cases, model):
            kind, a, sr, evs = bcase
            kinds[kind] = kinds.get(kind, 0) + 1
            per_step = impl_steps(impl, bcase)
            for i, (ev, wire) in enumerate(zip(evs, per_step)):
                steps += 1
                mf = mframes[i] if i < len(mframes) else None
                if mf is None:
                    diffs.append({"input": S.step_line(a, sr, ev)[:2000], "model": "driver refused the line",
                                  "impl": "-", "case": bcase})
                    break
                rendered = [bytes_or_none(render(fs)) for fs in mf]
                frames += len(wire)
                refused += 1 if not wire else 0
                if rendered != wire:
                    diffs.append({"input": "step %d of %s: %s" % (i, kind, S.step_line(a, sr, ev)[:1500]), "kind": kind,
                                  "model": [fr.hex()[:300] if fr is not None else "not single bytes" for fr in rendered],
                                  "impl": [fr.hex()[:300] for fr in wire], "case": bcase})
                    break
    finally:
        impl.close()
    return {"cases": len(cases), "frames": frames, "steps": steps, "steps_without_write": refused, "kinds": kinds,
            "differences": diffs}


def bytes_or_none(codes):
    return bytes(codes) if all(c < 256 for c in codes) else None


def main(argv):
    n = int(argv[1]) if len(argv) > 1 else 300
    seed = argv[2] if len(argv) > 2 else os.environ.get("VERIF_SEED", "1")
    res = run(n, seed)
    print("bridge_check: cases=%d steps=%d transport_writes=%d steps_without_write=%d kinds=%s differences=%d" % (
        res["cases"], res["steps"], res["frames"], res["steps_without_write"],
        ",".join("%s:%d" % kv for kv in sorted(res["kinds"].items())), len(res["differences"])))
    for d in res["differences"][:5]:
        print("  DIFFERENCE", {k: v for k, v in d.items() if k != "case"})
    return 1 if res["differences"] else 0


if __name__ == "__main__":
    sys.exit(main(sys.argv))
