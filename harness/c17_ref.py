"""C17 – Python side: reference exchange (independent of the Lean one), the link simulation that
drives the REAL FIXNewOrderSingle, canonical observations.  Used by harness/c17.py.

Quantities and prices are integers counting 1/8 units ("grid"); n/8 is exact in binary floating
point, so the library's float arithmetic/equality and integer arithmetic agree.
"""
from __future__ import annotations

import copy
import math
import re

GRID = 8
CLOCK = "T"  # canonical TransactTime
INT_RE = re.compile(r"^-?\d+$")
TIME_RE = re.compile(r"^\d{8}-\d\d:\d\d:\d\d\.\d{3}$")

LIVE = ("0", "1", "9")
FINISHED = ("2", "4", "8", "C")


def g2f(n: int) -> float:
    return n / GRID


def typed(n: int, as_int: bool):
    """grid number as a Python float, or as a Python int when asked for and integral"""
    if as_int and n % GRID == 0:
        return n // GRID
    return n / GRID


def f2g(x) -> int | None:
    """float (or text) -> grid integer, None when not on the grid / not finite"""
    try:
        x = float(x)
    except (TypeError, ValueError):
        return None
    if not math.isfinite(x):
        return None
    n = x * GRID
    if n != int(n):
        return None
    return int(n)


def fmt(n: int, style: int = 0) -> str:
    """FIX text of a grid number; three spellings that float() reads to the same value"""
    x = n / GRID
    if style == 1:
        return "%.3f" % x
    if style == 2 and n % GRID == 0:
        return str(n // GRID)
    return repr(x)


# ---------------------------------------------------------------------------------------------
# reference exchange (FIX 4.4 Vol.4 order state change matrices A/B/C + expire, suspend/resume)
# ---------------------------------------------------------------------------------------------
class RefExchange:
    """One order.  `base` is the order's own state (A pending-new, 0 new, 1 partially filled,
    2 filled, 4 canceled, 8 rejected, C expired, 9 suspended); a cancel / replace request that was
    acknowledged as pending is kept in `pending`; the OrdStatus put on execution reports follows
    the FIX precedence rule (Pending Cancel > Pending Replace > everything else)."""

    ORDER_ID = "EX1"

    def __init__(self):
        self.known = False
        self.base = ""
        self.live_id = ""
        self.price = 0
        self.qty = 0
        self.cum = 0
        self.leaves = 0
        self.avg_px = 0
        self.pending = None  # (kind 'F'|'G', clord, price, qty)
        self.exec_no = 0
        self.extra = {}  # symbol / side echoed

    def key(self):
        return (self.known, self.base, self.live_id, self.price, self.qty, self.cum, self.leaves,
                self.avg_px, self.pending)

    def reported(self) -> str:
        if self.pending is not None:
            return "6" if self.pending[0] == "F" else "E"
        return self.base

    # -- report fabrication: abstract dict of the tags a report carries -------------------------
    def _exec(self, clord, exec_type, orig=None, status=None):
        self.exec_no += 1
        return {
            "35": "8", "11": clord, "41": orig, "37": self.ORDER_ID, "17": "E%d" % self.exec_no,
            "150": exec_type, "39": status if status is not None else self.reported(),
            "14": self.cum, "151": self.leaves, "6": self.avg_px, "44": self.price, "38": self.qty,
        }

    def _cxlrej(self, clord, orig, status, kind, unknown=False):
        return {
            "35": "9", "11": clord, "41": orig, "37": "NONE" if unknown else self.ORDER_ID,
            "39": status, "434": "1" if kind == "F" else "2", "102": "1" if unknown else "0",
        }

    # -- actions: each returns the list of reports emitted ---------------------------------------
    def recv(self, m: dict, d: str):
        """m: {'35','11','41','44','38'} abstract client message; d in accept|reject|pend"""
        t = m["35"]
        if m["11"] is None:
            return []  # no ClOrdID: not answerable, ignored
        if t == "D":
            if self.known:
                return []
            self.known = True
            self.live_id = m["11"]
            self.price, self.qty = m["44"], m["38"]
            self.cum, self.avg_px = 0, 0
            if self.price is None or self.qty is None or self.price <= 0 or self.qty <= 0:
                self.price = self.price or 0
                self.qty = self.qty or 0
                d = "reject"
            if d == "accept":
                self.base, self.leaves = "0", self.qty
                return [self._exec(self.live_id, "0")]
            if d == "pend":
                self.base, self.leaves = "A", self.qty
                return [self._exec(self.live_id, "A")]
            self.base, self.leaves = "8", 0
            return [self._exec(self.live_id, "8")]
        if t in ("F", "G"):
            if (not self.known) or m["41"] != self.live_id or self.pending is not None:
                return [self._cxlrej(m["11"], m["41"], "8", t, unknown=True)]
            if self.base not in LIVE:
                return [self._cxlrej(m["11"], m["41"], self.base, t)]
            np, nq = (m["44"], m["38"]) if t == "G" else (self.price, self.qty)
            if t == "G" and (np is None or nq is None or np <= 0 or nq <= 0):
                d = "reject"
            if d == "reject":
                return [self._cxlrej(m["11"], m["41"], self.base, t)]
            self.pending = (t, m["11"], np, nq)
            if d == "pend":
                return [self._exec(m["11"], "6" if t == "F" else "E", orig=self.live_id)]
            return self.decide("accept")
        return []

    def decide(self, d: str):
        if self.pending is None:
            return []
        t, clord, np, nq = self.pending
        old = self.live_id
        self.pending = None
        if d == "reject":
            return [self._cxlrej(clord, old, self.base, t)]
        self.live_id = clord
        if t == "F":
            self.base, self.leaves = "4", 0
            return [self._exec(clord, "4", orig=old)]
        # matrix C.3.c: a quantity below what is already filled is amended to CumQty
        self.price, self.qty = np, max(nq, self.cum)
        self.leaves = max(nq - self.cum, 0)
        if self.leaves == 0:
            self.base = "2"
        elif self.base != "9":
            self.base = "1" if self.cum > 0 else "0"
        return [self._exec(clord, "5", orig=old)]

    def _end(self, rep):
        """order reached a finished state: an acknowledged-pending request is rejected at once"""
        out = [rep]
        if self.pending is not None:
            t, clord, _, _ = self.pending
            self.pending = None
            rep["39"] = self.base
            out.append(self._cxlrej(clord, self.live_id, self.base, t))
        return out

    def ack(self):
        if not self.known or self.base != "A":
            return []
        self.base = "0"
        return [self._exec(self.live_id, "0")]

    def reject_new(self):
        if not self.known or self.base != "A":
            return []
        self.base, self.leaves = "8", 0
        return [self._exec(self.live_id, "8")]

    def fill(self, q: int, px: int):
        if not self.known or self.base not in ("0", "1") or q <= 0 or q > self.leaves:
            return []
        self.cum += q
        self.leaves -= q
        self.avg_px = px
        if self.leaves == 0:
            self.base = "2"
            return self._end(self._exec(self.live_id, "F"))
        self.base = "1"
        return [self._exec(self.live_id, "F")]

    def expire(self):
        if not self.known or self.base not in LIVE:
            return []
        self.base, self.leaves = "C", 0
        return self._end(self._exec(self.live_id, "C"))

    def suspend(self):
        if not self.known or self.base not in ("0", "1"):
            return []
        self.base = "9"
        return [self._exec(self.live_id, "9")]

    def resume(self):
        if not self.known or self.base != "9":
            return []
        self.base = "1" if self.cum > 0 else "0"
        return [self._exec(self.live_id, "D")]


# ---------------------------------------------------------------------------------------------
# real messages <-> abstract dicts
# ---------------------------------------------------------------------------------------------
NUM_TAGS = ("14", "151", "6", "44", "38")


def report_to_fix(rep: dict, style: int = 0):
    """abstract report -> real FIXMessage as an exchange would send it (ints become FIX text)"""
    from asyncfix import FIXMessage

    m = FIXMessage(rep["35"])
    if rep["35"] == "8" and rep.get("150") == "F" and style != 1:
        # LastQty / LastPx: optional tags the order never reads
        m["32"] = fmt(rep["14"] if isinstance(rep.get("14"), int) else 0, style)
        m["31"] = fmt(rep["6"] if isinstance(rep.get("6"), int) else 0, style)
    for tag, v in rep.items():
        if tag == "35" or v is None:
            continue
        if tag in NUM_TAGS and isinstance(v, int):
            v = fmt(v, style)
        m[tag] = v
    if rep["35"] == "8":
        m["55"] = "SYM"
        m["54"] = "1"
    return m


def request_to_abs(m) -> dict:
    """real request FIXMessage -> what the exchange reads"""
    d = {"35": str(m.msg_type), "11": m.get("11", None), "41": m.get("41", None)}
    for t in ("44", "38"):
        v = m.get(t, None)
        d[t] = f2g(v) if v is not None else None
    return d


def canon_request(m) -> list:
    """[msgtype, [tag, value]...] with TransactTime canonicalised (format checked)"""
    tags = []
    for t, v in m.tags.items():
        v = str(v)
        if t == "60":
            v = CLOCK if TIME_RE.match(v) else "BADTIME:" + v
        if t in ("44", "38") and INT_RE.match(v):
            v = v + ".0"  # an int-typed attribute / argument prints without '.0'; same number
        tags.append([int(t), v])
    return [str(m.msg_type), tags]


class HookError(Exception):
    """what a misbehaving application hook raises"""


HOOKS_OF = {"cNew": 4, "cCancel": 2, "cReplace": 3}   # hook calls per builder (set_instrument, set_account, clock, set_price_qty)
_HOOKED = {}


def hooked_class():
    """FIXNewOrderSingle subclass overriding every documented hook the builders call; each override first consults
    `self.plan = [mode, k, exc]`: at the k-th hook call of the current builder it raises / calls clord_next() /
    queries can_cancel, can_replace (recorded in self.seen); afterwards it always delegates to the base class"""
    if "cls" in _HOOKED:
        return _HOOKED["cls"]
    import asyncio

    from asyncfix.protocol.order_single import FIXNewOrderSingle

    class HookedOrder(FIXNewOrderSingle):
        plan = None
        calls = 0
        seen = None

        def _hook(self):
            plan, i = self.plan, self.calls
            self.calls += 1
            if plan and i == plan[1]:
                if plan[0] == "raises":
                    raise (asyncio.CancelledError("hook") if plan[2] == "Cancelled" else HookError("hook"))
                if plan[0] == "bumps":
                    self.clord_next()
                if plan[0] == "reenters":
                    import enum

                    st = self.status
                    self.seen = [str(st.value) if isinstance(st, enum.Enum) else repr(st), self.can_cancel(), self.can_replace()]

        def set_instrument(self, m):
            self._hook()
            super().set_instrument(m)

        def set_account(self, m):
            self._hook()
            super().set_account(m)

        def set_price_qty(self, m, price, qty):
            self._hook()
            super().set_price_qty(m, price, qty)

        def current_datetime(self):
            self._hook()
            return FIXNewOrderSingle.current_datetime()

    _HOOKED["cls"] = HookedOrder
    return HookedOrder


def exc_kind(e: BaseException) -> str:
    import asyncio

    from asyncfix.errors import FIXError, TagNotFoundError

    if isinstance(e, (HookError, asyncio.CancelledError)):
        return "Hook"

    if isinstance(e, TagNotFoundError):
        return "TagNotFound"
    if isinstance(e, FIXError):
        return "FIXError" if type(e) is FIXError else "FIXError:" + type(e).__name__
    if isinstance(e, AssertionError):
        return "Assertion"
    if isinstance(e, ValueError):
        return "Value"
    return "Other:" + type(e).__name__


def num_obs(x):
    """observable numeric attribute -> grid int | 'nan' | repr"""
    if isinstance(x, (int, float)):
        if isinstance(x, float) and math.isnan(x):
            return "nan"
        n = f2g(x)
        return n if n is not None else "offgrid:" + repr(x)
    return "nonnum:" + repr(x)


def _cnt_of(o):
    """the ClOrdID counter: the private attribute when it exists, else read off the current id's --<n> suffix
    (a refactoring may drop the attribute; the checks must keep judging public behaviour)"""
    name = counter_attr()
    c = getattr(o, name, None) if name else None
    if isinstance(c, int):
        return c
    import re as _re
    m = _re.search(r"--(\d+)\Z", str(getattr(o, "clord_id", "")))
    return int(m.group(1)) if m else 0


_COUNTER_ATTR = []


def counter_attr():
    """name of the attribute in which the order object keeps its ClOrdID counter, found by BEHAVIOUR (the int
    attribute that clord_next() increments by one on a fresh order) - a rename of the private attribute must not
    change what the checks see"""
    if _COUNTER_ATTR:
        return _COUNTER_ATTR[0]
    name = None
    try:
        from asyncfix.protocol.order_single import FIXNewOrderSingle

        probe = FIXNewOrderSingle("probe", "T", "1", 1.0, 1.0)
        before = {k: v for k, v in vars(probe).items() if isinstance(v, int) and not isinstance(v, bool)}
        probe.clord_next()
        after = vars(probe)
        names = [k for k, v in before.items() if after.get(k) == v + 1]
        if len(names) == 1:
            name = names[0]
    except Exception:  # noqa: BLE001
        name = None
    if name is None and True:
        name = "_clord_id_cnt"
    _COUNTER_ATTR.append(name)
    return name


def order_obs(o) -> dict:
    import enum

    st = o.status
    if isinstance(st, enum.Enum):
        sv = str(st.value)
    else:
        sv = "plain:" + repr(st)

    def call(f):
        try:
            return bool(f())
        except BaseException as e:  # noqa
            return "raise:" + exc_kind(e)

    return {
        "status": sv, "clord": o.clord_id, "orig": o.orig_clord_id, "oid": o.order_id,
        "price": num_obs(o.price), "qty": num_obs(o.qty), "leaves": num_obs(o.leaves_qty),
        "cum": num_obs(o.cum_qty), "avg": num_obs(o.avg_px), "cnt": _cnt_of(o),
        "can_cancel": call(o.can_cancel), "can_replace": call(o.can_replace), "fin": call(o.is_finished),
    }


# ---------------------------------------------------------------------------------------------
# the link: real order + two FIFO queues + reference exchange
# ---------------------------------------------------------------------------------------------
class Link:
    def __init__(self, root: str, price: int, qty: int, ticker="TICK", side="1", ord_type="2", account="ACC",
                 ptype="float", qtype="float", argint=False, enums=False, subclass=False):
        """ptype / qtype: Python type of the constructor's price / qty ('int' is honoured when the value is
        integral); argint: pass integral replace_req arguments as int.  The TYPE is a Python-only dimension:
        the model's numbers are grid integers whatever the Python type."""
        from asyncfix.protocol.order_single import FIXNewOrderSingle

        self.argint = argint
        if enums:  # pass FOrdSide / FOrdType members instead of their string values
            from asyncfix.protocol.common import FOrdSide, FOrdType

            side = FOrdSide(side)
            ord_type = FOrdType(ord_type)
        cls = hooked_class() if subclass else FIXNewOrderSingle
        self.dict_account = isinstance(account, dict)
        self.order = cls(root, ticker, side, typed(price, ptype == "int"), typed(qty, qtype == "int"), ord_type, account)
        self.c2e = []   # real FIXMessages
        self.e2c = []   # abstract report dicts
        self.ex = RefExchange()
        self.built = []  # ClOrdIDs of every request built
        self.last_report = None

    def clone(self):
        return copy.deepcopy(self)

    def key(self):
        o = order_obs(self.order)
        o["types"] = type(self.order.price).__name__ + "/" + type(self.order.qty).__name__
        return (tuple(sorted((k, str(v)) for k, v in o.items())),
                tuple(str(canon_request(m)) for m in self.c2e),
                tuple(str(sorted((k, str(v)) for k, v in r.items() if k != "17")) for r in self.e2c),
                self.ex.key())

    def quiescent(self):
        return not self.c2e and not self.e2c

    def feed(self, rep: dict, style=0):
        """process one report on the real order; returns ['ret', bool] | ['raise', kind]"""
        m = report_to_fix(rep, style)
        try:
            if rep["35"] == "9":
                r = self.order.process_cancel_rej_report(m)
            else:
                r = self.order.process_execution_report(m)
            return ["ret", bool(r)]
        except BaseException as e:  # noqa
            return ["raise", exc_kind(e)]

    def step(self, a: list, style=0):
        """perform one action; returns canonical result"""
        k = a[0]
        o = self.order
        plan = None
        if k in ("hNew", "hCancel", "hReplace"):
            # builder whose overridden hook misbehaves: [hX, (p, q,) mode, k, exc]
            k = "c" + k[1:]
            plan = list(a[-3:])
            plan[1] = plan[1] % HOOKS_OF[k]
            a = [k] + list(a[1:-3])
            if isinstance(o, hooked_class()):
                o.plan, o.calls, o.seen = plan, 0, None
        if k in ("cNew", "cCancel", "cReplace"):
            created = str(getattr(o.status, "value", o.status)) == "Z"
            try:
                if k == "cNew":
                    m = o.new_req()
                elif k == "cCancel":
                    m = o.cancel_req()
                else:
                    p = math.nan if a[1] is None else typed(a[1], self.argint)
                    q = math.nan if a[2] is None else typed(a[2], self.argint)
                    m = o.replace_req(p, q)
            except BaseException as e:  # noqa
                kind = exc_kind(e)
                if k == "cNew" and self.dict_account and kind == "Assertion" and created:
                    kind = "Hook"   # set_account() refuses a dict account: same place and effect as a raising hook
                return ["raise", kind]
            finally:
                if plan is not None:
                    o.plan = None
            self.c2e.append(m)
            self.built.append(m.get("11", None))
            res = ["built"] + canon_request(m)
            if plan is not None and plan[0] == "reenters" and getattr(o, "seen", None):
                res.append(list(o.seen))
            return res
        if k == "cRecv":
            if not self.e2c:
                return ["empty"]
            self.last_report = self.e2c.pop(0)
            return self.feed(self.last_report, style)
        if k == "cRecvOmit":
            # the next report arrives without the optional Price (bit 1) / OrderQty (bit 2) tags
            if not self.e2c:
                return ["empty"]
            rep = dict(self.e2c.pop(0))
            if a[1] & 1:
                rep["44"] = None
            if a[1] & 2:
                rep["38"] = None
            self.last_report = rep
            return self.feed(rep, style)
        if k == "feed":
            self.last_report = a[1]
            return self.feed(a[1], style)
        ex = self.ex
        if k == "xRecv":
            if not self.c2e:
                return ["empty"]
            reps = ex.recv(request_to_abs(self.c2e.pop(0)), a[1])
        elif k == "xDecide":
            reps = ex.decide(a[1])
        elif k == "xAck":
            reps = ex.ack()
        elif k == "xRejNew":
            reps = ex.reject_new()
        elif k == "xFill":
            reps = ex.fill(a[1], a[2])
        elif k == "xExpire":
            reps = ex.expire()
        elif k == "xSuspend":
            reps = ex.suspend()
        elif k == "xResume":
            reps = ex.resume()
        else:
            raise ValueError("unknown action %r" % (a,))
        self.e2c.extend(reps)
        return ["emit", [canon_report(r) for r in reps]]


def canon_report(r: dict) -> list:
    """the tags the order object reads + OrigClOrdID, in a fixed order (ExecID etc. left out)"""
    return [r["35"]] + [[t, r.get(t)] for t in ("11", "41", "37", "150", "39", "14", "151", "6", "44", "38")]
