"""C11 – nothing passes to or from the application outside an established session.  DESIGN.md §6 C11.

tie:    Session model (lean/AsyncFix/Model/Session*.lean) ⇄ the real AsyncFIXConnection:
        exhaustive single-step table (every state × role × message class × sequence relation ×
        PossDup × integrity defect, every send class, tick / eof / connect / reset / disconnect) with
        effects AND the whole post-state compared, plus random histories compared in lock-step.
oracle: the property's sentences evaluated on the implementation alone (never calls the model) over the
        same table and over random histories (random suffixes after every disconnect).
"""
from __future__ import annotations

import glob
import json
import os

from . import common as C
from . import sess_common as S

PROP = "C11"
PROPS_MODULES = ["AsyncFix.Props.C11"]
FINDINGS_MODULE = None
ASSUMPTIONS = [
    "application hooks (on_message, on_logon, on_logout, on_disconnect, on_state_change, should_replay) return "
    "normally and do not call back into the connection",
    "messages carry plain tags only (no repeating groups, no repeated tags), tags are canonical decimals, values "
    "contain no SOH; frame <-> field-list is the Codec family's concern (C01)",
    "numeric header fields are ASCII (CPython int() also accepts non-ASCII digits / Unicode spaces); sequence "
    "numbers fit SQLite's 64-bit INTEGER",
    "transport write/drain/close and the journal store behave as the fake transport / the abstract store "
    "(C13 ties the SQLite journaler to that store)",
]
MODELLED_NOT_VERIFIED = [
    "C11: connection.py / session.py / the number selection of codec.encode are hand-modelled branch for branch "
    "(Model/Session*.lean); the tie is the exhaustive single-step table + random histories run every check",
]

LOUD = ("W", "D", "L", "LO")
ESTABLISHED = (10, 11, 12, 17)


# ------------------------------------------------------------------------------------------------
# correspondence
# ------------------------------------------------------------------------------------------------

def corpus_cases():
    out = []
    for path in sorted(glob.glob(os.path.join(C.VERIF, "corpus", "session", "c11_*.json"))):
        with open(path) as f:
            for e in json.load(f):
                a = S.parse_conn_tokens(e["conn"])
                out.append((a, e["sr"], parse_event(e["event"]), "corpus:" + e.get("label", os.path.basename(path))))
    return out


def parse_event(text):
    t = text.split(" ")
    k = t[0]
    if k in ("recv", "send"):
        return (k, int(t[1]), S.parse_msg_tok(t[3]))
    if k in ("testreq", "tick", "eof"):
        return (k, int(t[1]))
    if k == "disc":
        return ("disc", int(t[1]), int(t[3]), None if t[4] == "none" else bytes.fromhex(t[4][1:]).decode())
    if k == "conn":
        return ("conn", t[1])
    if k == "reset":
        return ("reset",)
    raise ValueError(text)


def correspondence(ctx):
    impl = S.Impl()
    try:
        stats = {}
        cases = corpus_cases() + list(S.single_step_cases(ctx.rng))
        n, dis, results = S.compare_steps(impl, cases, stats=stats)
        ctx.single_step = (cases, results)  # reused by the oracle (implementation results only)
        hstats = {}
        nh, hl = ctx.n(250, 2500), ctx.n(30, 80)
        ev, hdis = S.compare_histories(impl, ctx.rng, nh, hl, stats=hstats)
        samples = []
        for i in (0, len(cases) // 3, len(cases) // 2, len(cases) - 1):
            a, sr, e = cases[i][:3]
            samples.append({"conn": a.tokens()[:400], "sr": sr, "event": S.event_tokens(e)[:400],
                            "impl": S.reply(*results[i])[:400]})
        nontrivial = len({(c[0].state, c[0].role, c[3], tuple(x.split("=")[0] for x in r[0]))
                          for c, r in zip(cases, results)})
        return {
            "evaluations": n + ev,
            "distinct_nontrivial": nontrivial,
            "rule": "single steps: 19 connection states x 3 roles x {32 inbound message classes x 7 sequence relations x "
                    "PossDup, 7 integrity defects x 7 classes x 4 sequence relations, 18 send classes x TestReqID set/unset x "
                    "2 journal shapes, tick at 6 offsets, eof, send_test_req, connect x3, reset, disconnect}; counters "
                    "cycle through 5 values incl. >= 2^32, 7 journal shapes; distinct = distinct (state, role, event "
                    f"class, effect-kind sequence) tuples. histories: {nh} random histories of length <= {hl} compared "
                    "after every event (effects + whole post-state incl. journal rows).",
            "samples": samples,
            "exhaustive": True,
            "distribution": {"single_step": stats, "histories": hstats, "single_steps": n, "history_events": ev},
            "disagreements": dis + hdis,
        }
    finally:
        impl.close()


# ------------------------------------------------------------------------------------------------
# oracle: the property's sentences on the implementation
# ------------------------------------------------------------------------------------------------

def consistent(a: S.AbsConn) -> bool:
    """store consistent with the counters (no row at / above the next numbers), single-byte CompIDs"""
    return (all(seq < a.next_out for seq, _ in a.out_rows) and all(seq < a.next_in for seq, _ in a.in_rows)
            and all(ord(ch) < 256 for ch in a.sender + a.target))


def reachable(a: S.AbsConn) -> bool:
    """states the code can be in between two events (4, 5, 9, 13-16, 18 are never assigned; 7 only with role
    INITIATOR; 8 is left within the event that enters it; a transport exists iff the state is a connected one)"""
    if a.state <= 3:
        return not a.sock
    if not a.sock:
        return False
    if a.state == 6:
        return True
    if a.state == 7:
        return a.role == 1
    return a.state in ESTABLISHED and a.role in (1, 2)


def pyint(s):
    try:
        return int(s)
    except ValueError:
        return None


def defect_class(a: S.AbsConn, m):
    """integrity defect of an inbound frame, in the order the property lists them; None = none"""
    mtype, fs = m
    d = {}
    for t, v in fs:
        d.setdefault(t, v)
    if d.get(8) != "FIX.4.4":
        return "begin-string"
    if 49 not in d or 56 not in d:
        return "compid-missing"
    if d[49] != a.target or d[56] != a.sender:
        return "compid-wrong"
    if 34 not in d:
        return "seq-missing"
    n = pyint(d[34])
    if n is None:
        return "seq-garbled"
    if n < a.next_in and mtype != "4" and not (a.state == 12 and d.get(43, "N") == "Y"):
        return "seq-too-low"
    return None


def kinds(eff):
    return [e.split("=")[0] for e in eff]


def writes(eff):
    return [S.parse_msg_tok(e[2:]) for e in eff if e.startswith("W=")]


def sentences(a: S.AbsConn, ev, eff, post_tokens):
    """yield (signature, what) for every sentence of C11 this step violates"""
    k = kinds(eff)
    post = S.parse_conn_tokens(post_tokens)
    # -- the disconnect is reported exactly once per transition into a disconnected state
    want = 1 if (a.state > 3 and post.state <= 3) else 0
    if ev[0] == "conn" and a.state > 3 and not a.sock:
        want = 0  # failed connect of an object that was never disconnected: unreachable, no transition reported
    if k.count("DC") != want:
        yield (f"C11-disconnect-count:{ev[0]}:{k.count('DC')}!={want}", "on_disconnect not called exactly once per disconnect")
    # -- nothing after the disconnect within the same event
    if "DC" in k and any(x in LOUD for x in k[k.index("DC") + 1:]):
        yield (f"C11-loud-after-disconnect:{ev[0]}", "frame or callback after on_disconnect within one event")
    # -- from a disconnected state nothing is emitted and nothing revives the session but a new transport
    if a.state <= 3:
        if any(x in LOUD for x in k):
            yield (f"C11-loud-while-disconnected:{ev[0]}", "frame or message callback from a disconnected state")
        if ev[0] != "conn" and post.state > 3:
            yield (f"C11-revived:{ev[0]}", "left the disconnected state without a new transport")
    # -- sends before the Logon exchange
    if ev[0] == "send":
        mt = ev[2][0]
        refused = a.state < 6 or (a.state == 6 and mt not in ("A", "5")) or (a.state == 7 and a.role == 1 and mt != "5")
        if refused and (eff != ["R=Connection"] or post_tokens != a.tokens()):
            yield (f"C11-prelogon-send:{a.state}:{mt}", "send before Logon not refused cleanly (effects / state / counters / journal)")
    if ev[0] != "recv" or not reachable(a) or a.state <= 3:
        return
    if post.state == 8 and consistent(a):
        yield ("C11-half-logged-on", "connection left in LOGON_INITIAL_RECV: Logon received but never answered, "
               "yet messages are delivered / sent from there")
    m = ev[2]
    mt = m[0]
    d = defect_class(a, m)
    ws = writes(eff)
    prelogon = a.state in (6, 7)
    if prelogon and "D" in k:
        yield (f"C11-prelogon-delivery:{a.state}", "application message delivered before the Logon exchange completed")
    if prelogon and "L" in k and mt != "A":
        yield (f"C11-prelogon-logon-callback:{a.state}:{mt}", "on_logon without a Logon")
    # -- a too-low MsgSeqNum is never handed to the application – also in the tolerated classes
    #    (SequenceReset, PossDup duplicates while awaiting a resend), which only escape the disconnect
    dd = {}
    for t, v in m[1]:
        dd.setdefault(t, v)
    n34 = pyint(dd[34]) if 34 in dd else None
    if n34 is not None and n34 < a.next_in and "D" in k:
        yield ("C11-toolow-delivered", "message numbered below the expected MsgSeqNum handed to the application")
    drop = d is not None or (a.state == 6 and mt != "A") or (a.state == 7 and mt not in ("A", "5"))
    if not drop:
        return
    cls = d or f"first-not-logon:{a.state}"
    if "D" in k:
        yield (f"C11-defect-delivered:{cls}", "defective / premature message handed to the application")
    if post.next_in != a.next_in:
        yield (f"C11-defect-advanced-counter:{cls}", "defective / premature message advanced the inbound counter")
    if not consistent(a):
        return  # a Logout cannot be journaled under a number that is already taken: outside the quantifier
    if post.state > 3:
        yield (f"C11-defect-not-disconnected:{cls}", "connection not dropped")
    identifiable = d in ("begin-string", "compid-wrong", "seq-missing", "seq-garbled", "seq-too-low")
    logouts = [w for w in ws if w[0] == "5"]
    if len(ws) != len(logouts) or len(logouts) != (1 if identifiable else 0):
        yield (f"C11-defect-logout:{cls}:{len(logouts)}/{len(ws)}", "Logout with the reason not written exactly when the counterparty is identifiable")
    elif identifiable and not dict(logouts[0][1]).get(58):
        yield (f"C11-defect-logout-no-reason:{cls}", "Logout without the reason text")


def oracle(ctx, disagreements, broken):
    impl = S.Impl()
    failures, n = [], 0
    try:
        def check(a, sr, ev, eff, post):
            nonlocal n
            n += 1
            for sig, what in sentences(a, ev, eff, post):
                failures.append({"signature": sig, "what": what,
                                 "input": {"conn": a.tokens(), "sr": sr, "event": S.event_tokens(ev)},
                                 "expected": "C11 sentence holds", "observed": S.reply(eff, post)[:1500]})

        # the disagreeing inputs first
        for dis in disagreements[:200]:
            inp = dis["input"]
            if "conn" in inp:
                a, ev = S.parse_conn_tokens(inp["conn"]), parse_event(inp["event"])
                check(a, inp["sr"], ev, *impl.step(a, inp["sr"], ev))
            else:
                replay_history(impl, inp["history"], check)
        # the single-step table (implementation results of this run when available)
        cached = getattr(ctx, "single_step", None)
        if cached and not broken:
            for (c, r) in zip(*cached):
                check(c[0], c[1], c[2], r[0], r[1])
        else:
            for c in corpus_cases() + list(S.single_step_cases(ctx.rng)):
                check(c[0], c[1], c[2], *impl.step(c[0], c[1], c[2]))
        # random histories: every disconnect is followed by a random suffix
        nh = ctx.n(150, 1500) * (4 if broken else 1)
        for _ in range(nh):
            start, steps = S.run_history(impl, ctx.rng, ctx.n(30, 80))
            a = start
            for (sr, ev, lab, eff, post) in steps:
                check(a, sr, ev, eff, post)
                a = S.parse_conn_tokens(post)
        ctx.oracle_stats = {"evaluations": n, "failures": len(failures), "histories": nh,
                            "sentences": ["disconnect-count", "loud-after-disconnect", "loud-while-disconnected", "revived",
                                          "prelogon-send", "prelogon-delivery", "defect-delivered", "defect-advanced-counter",
                                          "defect-not-disconnected", "defect-logout", "half-logged-on"]}
    finally:
        impl.close()
    # smallest first: single steps before histories (already in that order); cap the list
    return failures[:500]


def replay_history(impl, hist, check):
    start = S.parse_conn_tokens(hist["start"])
    impl.load(start)
    a = start
    for sr, evt in hist["events"]:
        ev = parse_event(evt)
        del impl.eff[:]
        impl.apply(sr, ev)
        eff, post = impl.effects(), impl.dump()
        check(a, sr, ev, eff, post)
        a = S.parse_conn_tokens(post)


def replay(ctx, rp):
    impl = S.Impl()
    try:
        inp = rp["input"]
        a, ev = S.parse_conn_tokens(inp["conn"]), parse_event(inp["event"])
        eff, post = impl.step(a, inp["sr"], ev)
        sigs = [s for s, _ in sentences(a, ev, eff, post)]
        print("replay:", inp["event"][:120], "->", S.reply(eff, post)[:300], sigs)
        return rp["signature"] in sigs
    finally:
        impl.close()
