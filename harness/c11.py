"""C11 – nothing passes to or from the application outside an established session.  DESIGN.md §6 C11.

tie:    Session model (lean/AsyncFix/Model/Session*.lean) ⇄ the real AsyncFIXConnection:
        exhaustive single-step table (every state × role × message class × sequence relation ×
        PossDup × integrity defect, every send class, tick / eof / connect / reset / disconnect) with
        effects AND the whole post-state compared, plus random histories compared in lock-step.
oracle: the property's sentences evaluated on the implementation alone (never calls the model) over the
        same table and over random histories (random suffixes after every disconnect).
"""
from __future__ import annotations

import glob
import json
import os

from . import common as C
from . import sess_common as S

PROP = "C11"
PROPS_MODULES = ["AsyncFix.Props.C11"]
FINDINGS_MODULE = None
ASSUMPTIONS = [
    "application hooks (on_message, on_logon, on_logout, on_disconnect, on_state_change, should_replay) return "
    "normally and do not call back into the connection; closing the transport does not raise (both are probed "
    "with injected faults, NOT gating: oracle.distribution.fault_probe_not_gating)",
    "collaborator faults (round 5): journal writes and transport write / drain failing once with an exception of "
    "any class are injected into the implementation-only histories; the Lean model has the library's own failure "
    "kinds (DuplicateSeqNo, Attribute, Encoding) only, so foreign classes are covered by the oracle, not by a theorem",
    "messages carry plain tags only (no repeating groups, no repeated tags), tags are canonical decimals, values "
    "contain no SOH; frame <-> field-list is the Codec family's concern (C01)",
    "numeric header fields are ASCII in the MODEL (CPython int() also accepts non-ASCII digits and NBSP / NEL "
    "padding); MsgSeqNum values padded with latin-1 white space are exercised by the implementation-only oracle "
    "(round 4), not by the correspondence; sequence numbers fit SQLite's 64-bit INTEGER",
    "configuration (preset role UNKNOWN / INITIATOR / ACCEPTOR, which side opens the session, transport kind, reuse "
    "of one object across sessions) is a quantified variable of the model (theorems hold for every role value); the "
    "send gate of LOGON_INITIAL_SENT is stated for role INITIATOR, which is the only role the code can have there "
    "(send_msg assigns it) - that reachability fact is covered by the lock-step histories, not by a theorem",
    "transport write/drain/close and the journal store behave as the fake transport / the abstract store "
    "(C13 ties the SQLite journaler to that store)",
]
MODELLED_NOT_VERIFIED = [
    "C11: connection.py / session.py / the number selection of codec.encode are hand-modelled branch for branch "
    "(Model/Session*.lean); the tie is the exhaustive single-step table + random histories run every check",
]

# fault points whose clean-tree deviations are reported to the integrator and await a decision (round 5):
# transport close raising aborts disconnect(); application hooks raising leave half-done transitions
PENDING_FAULT_POINTS = {"writer.close", "hook.on_message", "hook.on_disconnect", "hook.on_logon", "hook.on_logout",
                        "hook.on_state_change"}
LOUD = ("W", "D", "L", "LO")
ESTABLISHED = (10, 11, 12, 17)
ASSIGNED = (0, 1, 2, 3, 6, 7, 8, 10, 11, 12, 17)  # states the code (or the constructor) ever assigns


# ------------------------------------------------------------------------------------------------
# correspondence
# ------------------------------------------------------------------------------------------------

def corpus_cases():
    out = []
    for path in sorted(glob.glob(os.path.join(C.VERIF, "corpus", "session", "c11_*.json"))):
        with open(path) as f:
            for e in json.load(f):
                a = S.parse_conn_tokens(e["conn"])
                out.append((a, e["sr"], parse_event(e["event"]), "corpus:" + e.get("label", os.path.basename(path))))
    return out


def parse_event(text):
    t = text.split(" ")
    k = t[0]
    if k in ("recv", "send"):
        return (k, int(t[1]), S.parse_msg_tok(t[3]))
    if k in ("testreq", "tick", "eof"):
        return (k, int(t[1]))
    if k == "disc":
        return ("disc", int(t[1]), int(t[3]), None if t[4] == "none" else bytes.fromhex(t[4][1:]).decode())
    if k == "conn":
        return ("conn", t[1])
    if k == "reset":
        return ("reset",)
    if k == "feed":  # a read() chunk (junk bytes are not part of the tokens: see event_from)
        return ("read", int(t[1]), [S.parse_msg_tok(x) for x in t[4:4 + int(t[3])]], "")
    raise ValueError(text)


def event_raw(ev):
    """JSON-able form of an event that keeps everything (junk bytes of a read chunk)"""
    return json.loads(json.dumps(ev))


def event_from(raw):
    def tup(x):
        return tuple(tup(y) for y in x) if isinstance(x, list) else x
    ev = tup(raw)
    if ev[0] == "read":
        return ("read", ev[1], [(m[0], [tuple(f) for f in m[1]]) for m in raw[2]], raw[3])
    if ev[0] in ("recv", "send"):
        return (ev[0], ev[1], (raw[2][0], [tuple(f) for f in raw[2][1]]))
    return ev


def correspondence(ctx):
    impl = S.Impl()
    try:
        stats = {}
        table = list(S.single_step_cases(ctx.rng))
        if ctx.tier == "quick":
            # the states the code never assigns (4 5 9 13-16 18) behave like their neighbours: every third case
            # of those cells in the quick tier, the complete table in the thorough tier
            table = [c for i, c in enumerate(table) if c[0].state in ASSIGNED or i % 3 == 0]
        cases = corpus_cases() + table + list(S.near_cases(ctx.rng)) + list(S.read_cases(ctx.rng))
        n, dis, results = S.compare_steps(impl, cases, stats=stats)
        ctx.single_step = (cases, results)  # reused by the oracle (implementation results only)
        hstats = {}
        nh, hl = ctx.n(250, 2500), ctx.n(30, 80)
        ev, hdis = S.compare_histories(impl, ctx.rng, nh, hl, stats=hstats, wide=True)
        samples = []
        for i in (0, len(cases) // 3, len(cases) // 2, len(cases) - 1):
            a, sr, e = cases[i][:3]
            samples.append({"conn": a.tokens()[:400], "sr": sr, "event": S.event_tokens(e)[:400],
                            "impl": S.reply(*results[i])[:400]})
        nontrivial = len({(c[0].state, c[0].role, c[3], tuple(x.split("=")[0] for x in r[0]))
                          for c, r in zip(cases, results)})
        return {
            "evaluations": n + ev,
            "distinct_nontrivial": nontrivial,
            "rule": "single steps (quick tier: every third case for the 8 never-assigned states): 19 connection states x 3 roles x {32 inbound message classes x 7 sequence relations x "
                    "PossDup, 7 integrity defects x 7 classes x 4 sequence relations, 18 send classes x TestReqID set/unset x "
                    "2 journal shapes, tick at 6 offsets, eof, send_test_req, connect x3, reset, disconnect}; counters "
                    "cycle through 5 values incl. >= 2^32, 7 journal shapes; near-miss VALUES (padding, case, NUL, NBSP, "
                    "truncated, doubled, empty; number spellings; 7 PossDupFlag spellings) for BeginString / both CompIDs / "
                    "MsgSeqNum / PossDupFlag in 4 states x 2 roles x 3 classes; distinct = distinct (state, role, event "
                    f"class, effect-kind sequence) tuples. histories: {nh} random histories of length <= {hl} compared "
                    "after every event (effects + whole post-state incl. journal rows); histories start from objects of "
                    "every preset role (UNKNOWN / INITIATOR / ACCEPTOR), either side opens the session, any transport kind, "
                    "objects are reused across sessions, odd PossDupFlag spellings and near-miss CompIDs occur.",
            "samples": samples,
            "exhaustive": ctx.tier == "thorough",
            "distribution": {"single_step": stats, "histories": hstats, "single_steps": n, "history_events": ev},
            "disagreements": dis + hdis,
        }
    finally:
        impl.close()


# ------------------------------------------------------------------------------------------------
# oracle: the property's sentences on the implementation
# ------------------------------------------------------------------------------------------------

def consistent(a: S.AbsConn) -> bool:
    """store consistent with the counters (no row at / above the next numbers), single-byte CompIDs"""
    return (all(seq < a.next_out for seq, _ in a.out_rows) and all(seq < a.next_in for seq, _ in a.in_rows)
            and all(ord(ch) < 256 for ch in a.sender + a.target))


def reachable(a: S.AbsConn) -> bool:
    """states the code can be in between two events (4, 5, 9, 13-16, 18 are never assigned; 7 only with role
    INITIATOR; 8 is left within the event that enters it; a transport exists iff the state is a connected one)"""
    if a.state <= 3:
        return not a.sock
    if not a.sock:
        return False
    if a.state == 6:
        return True
    if a.state == 7:
        return a.role == 1
    return a.state in ESTABLISHED and a.role in (1, 2)


def pyint(s):
    try:
        return int(s)
    except ValueError:
        return None


def defect_class(a: S.AbsConn, m):
    """integrity defect of an inbound frame, in the order the property lists them; None = none"""
    mtype, fs = m
    d = {}
    for t, v in fs:
        d.setdefault(t, v)
    if d.get(8) != "FIX.4.4":
        return "begin-string"
    if 49 not in d or 56 not in d:
        return "compid-missing"
    if d[49] != a.target or d[56] != a.sender:
        return "compid-wrong"
    if 34 not in d:
        return "seq-missing"
    n = pyint(d[34])
    if n is None:
        return "seq-garbled"
    if n < a.next_in and mtype != "4" and not (a.state == 12 and d.get(43, "N") == "Y"):
        return "seq-too-low"
    return None


def kinds(eff):
    return [e.split("=")[0] for e in eff]


def writes(eff):
    return [S.parse_msg_tok(e[2:]) for e in eff if e.startswith("W=")]


def sentences(a: S.AbsConn, ev, eff, post_tokens, reached=False, faulted=False, buf=None):
    """yield (signature, what) for every sentence of C11 this step violates.
    reached: the state `a` was reached by real events from a fresh object (so it IS reachable, whatever its
    role / configuration); otherwise `a` is a forced state and only the combinations the code can be in are
    judged."""
    k = kinds(eff)
    post = S.parse_conn_tokens(post_tokens)
    # -- the disconnect is reported exactly once per transition into a disconnected state
    want = 1 if (a.state > 3 and post.state <= 3) else 0
    if ev[0] == "conn" and a.state > 3 and not a.sock:
        want = 0  # failed connect of an object that was never disconnected: unreachable, no transition reported
    if k.count("DC") != want:
        yield (f"C11-disconnect-count:{ev[0]}:{k.count('DC')}!={want}", "on_disconnect not called exactly once per disconnect")
    # -- nothing after the disconnect within the same event
    if "DC" in k and any(x in LOUD for x in k[k.index("DC") + 1:]):
        yield (f"C11-loud-after-disconnect:{ev[0]}", "frame or callback after on_disconnect within one event")
    # -- from a disconnected state nothing is emitted and nothing revives the session but a new transport
    if a.state <= 3:
        if any(x in LOUD for x in k):
            yield (f"C11-loud-while-disconnected:{ev[0]}", "frame or message callback from a disconnected state")
        if ev[0] != "conn" and post.state > 3:
            yield (f"C11-revived:{ev[0]}", "left the disconnected state without a new transport")
    # -- bytes received on a connection that was dropped must not survive it (buf = receive-buffer length)
    if buf and "DC" in k:
        yield ("C11-stale-bytes-after-disconnect", "the receive buffer still holds bytes of the connection that was "
               "just dropped: they would be processed as input of the next connection of the same object")
    # -- a read() chunk without a complete frame (junk, a marker prefix) causes nothing: in particular no bytes of
    #    an EARLIER connection of the same object are processed
    if ev[0] == "read" and not ev[2] and eff and not faulted:
        yield ("C11-effects-without-input", "a read() without any complete frame had effects: bytes left over from "
               "before (an earlier connection?) were processed")
    # -- sends before the Logon exchange
    if ev[0] == "send":
        mt = ev[2][0]
        refused = (a.state < 6 or (a.state == 6 and mt not in ("A", "5"))
                   or (a.state == 7 and (a.role == 1 or reached) and mt != "5"))
        if refused and (eff != ["R=Connection"] or post_tokens != a.tokens()):
            yield (f"C11-prelogon-send:{a.state}:{mt}", "send before Logon not refused cleanly (effects / state / counters / journal)")
    if ev[0] != "recv" or not (reached or reachable(a)) or a.state <= 3:
        return
    if post.state == 8 and a.state != 8:
        cause = ",".join(e for e in eff if e.startswith("C=")) or "-"
        tags = {t for t, _ in ev[2][1]}
        cause += ":reply-unsendable" if {98, 108} <= tags else ":logout-unsendable"
        yield (f"C11-half-logged-on:{cause}", "acceptor left in LOGON_INITIAL_RECV: the peer's Logon was received but "
               "never answered, yet messages are delivered and sends accepted from that state")
    m = ev[2]
    mt = m[0]
    d = defect_class(a, m)
    ws = writes(eff)
    prelogon = a.state in (6, 7)
    if prelogon and "D" in k:
        yield (f"C11-prelogon-delivery:{a.state}", "application message delivered before the Logon exchange completed")
    if prelogon and "L" in k and mt != "A":
        yield (f"C11-prelogon-logon-callback:{a.state}:{mt}", "on_logon without a Logon")
    # -- a too-low MsgSeqNum is never handed to the application – also in the tolerated classes
    #    (SequenceReset, PossDup duplicates while awaiting a resend), which only escape the disconnect
    dd = {}
    for t, v in m[1]:
        dd.setdefault(t, v)
    n34 = pyint(dd[34]) if 34 in dd else None
    if n34 is not None and n34 < a.next_in and "D" in k:
        yield ("C11-toolow-delivered", "message numbered below the expected MsgSeqNum handed to the application")
    drop = d is not None or (a.state == 6 and mt != "A") or (a.state == 7 and mt not in ("A", "5"))
    if not drop:
        return
    cls = d or f"first-not-logon:{a.state}"
    if "D" in k:
        yield (f"C11-defect-delivered:{cls}", "defective / premature message handed to the application")
    if post.next_in != a.next_in:
        yield (f"C11-defect-advanced-counter:{cls}", "defective / premature message advanced the inbound counter")
    if post.state > 3:
        # whatever happens to the Logout: disconnect() completes (also with a taken journal slot / no transport)
        yield (f"C11-defect-not-disconnected:{cls}", "connection not dropped")
    if not consistent(a) or not a.sock or faulted:
        return  # the Logout itself can only be demanded when it can be journaled and written
    identifiable = d in ("begin-string", "compid-wrong", "seq-missing", "seq-garbled", "seq-too-low")
    logouts = [w for w in ws if w[0] == "5"]
    if len(ws) != len(logouts) or len(logouts) != (1 if identifiable else 0):
        yield (f"C11-defect-logout:{cls}:{len(logouts)}/{len(ws)}", "Logout with the reason not written exactly when the counterparty is identifiable")
    elif identifiable and not dict(logouts[0][1]).get(58):
        yield (f"C11-defect-logout-no-reason:{cls}", "Logout without the reason text")


def ev_of(entry):
    """event of a stored history entry [sr, tokens(, raw)]"""
    return event_from(entry[2]) if len(entry) > 2 else parse_event(entry[1])


def followups(a: S.AbsConn, now):
    """a battery of second events from a state that a real step has just produced"""
    evs = [("send", now, (mt, tags)) for mt, tags, _ in S.send_classes()]
    evs += [("recv", now, S.inbound(a, "D", [(58, "next")], now_ms=now)),
            ("recv", now, S.inbound(a, "A", [(98, "0"), (108, "30")], now_ms=now)),
            ("recv", now, S.inbound(a, "0", [], now_ms=now)),
            ("recv", now, S.inbound(a, "1", [(112, "T")], now_ms=now)),
            ("recv", now, S.inbound(a, "2", [(7, "1"), (16, "0")], now_ms=now)),
            ("recv", now, S.inbound(a, "D", [(58, "low")], seq=a.next_in - 1, now_ms=now)),
            ("tick", now + 1000), ("eof", now)]
    return evs


def oracle(ctx, disagreements, broken):
    impl = S.Impl()
    failures, n = [], 0
    dist = {"forced_steps": 0, "history_steps": 0, "followup_steps": 0, "nonascii_steps": 0}
    try:
        def check(a, sr, ev, eff, post, reached=False, hist=None, fault=None, buf=None):
            nonlocal n
            n += 1
            for sig, what in sentences(a, ev, eff, post, reached, faulted=bool(fault), buf=buf):
                inp = {"conn": a.tokens(), "sr": sr, "event": S.event_tokens(ev)}
                if hist is not None:
                    inp = {"history": {"start": hist[0], "events": list(hist[1])}}
                    if fault:
                        inp["history"]["fault"] = fault
                        sig += ":fault=" + fault["where"]
                failures.append({"signature": sig, "what": what, "input": inp,
                                 "expected": "C11 sentence holds", "observed": S.reply(eff, post)[:1500]})

        def run_hist(start, events, upto_check_from=0):
            """run events (list of (sr, ev)) from `start` on the implementation, checking every step from index
            `upto_check_from` on as a REACHED state"""
            impl.load(start)
            a = start
            done = []
            for i, (sr, ev) in enumerate(events):
                del impl.eff[:]
                impl.apply(sr, ev)
                eff, post = impl.effects(), impl.dump()
                done.append([sr, S.event_tokens(ev), event_raw(ev)])
                if i >= upto_check_from:
                    check(a, sr, ev, eff, post, True, (start.tokens(), done), buf=impl.buflog[-1])
                a = S.parse_conn_tokens(post)
            return a

        # 1. the disagreeing inputs first; and ONE MORE STEP from the state each of them leads to
        for dis in disagreements[:120]:
            inp = dis["input"]
            if "conn" in inp:
                a, ev = S.parse_conn_tokens(inp["conn"]), parse_event(inp["event"])
                eff, post = impl.step(a, inp["sr"], ev)
                check(a, inp["sr"], ev, eff, post, buf=impl.buflog[-1])
                dist["forced_steps"] += 1
                if reachable(a) and consistent(a):
                    b = S.parse_conn_tokens(post)
                    now = (ev[1] if len(ev) > 1 and isinstance(ev[1], int) else S.T0) + 250
                    for fev in followups(b, now):
                        run_hist(a, [(inp["sr"], ev), ("all", fev)], 1)
                        dist["followup_steps"] += 1
            else:
                h = inp["history"]
                run_hist(S.parse_conn_tokens(h["start"]), [(x[0], ev_of(x)) for x in h["events"]])
        # 2. the single-step table (implementation results of this run when available)
        cached = getattr(ctx, "single_step", None)
        if cached and not broken and getattr(ctx, "c11_table_checked", False):
            pass  # second (DEBUG-logging) pass: the cached table was judged in the first pass
        elif cached and not broken:
            ctx.c11_table_checked = True
            for (c, r) in zip(*cached):
                check(c[0], c[1], c[2], r[0], r[1])
                dist["forced_steps"] += 1
        else:
            for c in (corpus_cases() + list(S.single_step_cases(ctx.rng)) + list(S.near_cases(ctx.rng))
                      + list(S.read_cases(ctx.rng))):
                check(c[0], c[1], c[2], *impl.step(c[0], c[1], c[2]))
                dist["forced_steps"] += 1
        # 3. values outside the model's ASCII int(): implementation only
        for st in (12, 17):
            a = S.with_journal(S.base_state(st, 1, 3), "app")
            a.sock = True
            for v in (f"\xa0{a.next_in}", f"{a.next_in}\x85", f"\xa0{a.next_in - 1}", "\xb2", f"{a.next_in}\xa0\xa0"):
                ev = ("recv", S.T0, S.inbound(a, "D", [(58, "x")], seq=v))
                check(a, "all", ev, *impl.step(a, "all", ev))
                dist["nonascii_steps"] += 1
        # 4. random histories (every role / either side opens / reuse after disconnect): all states REACHED
        nh = ctx.n(150, 1500) * (3 if broken else 1)
        if getattr(ctx, "c11_second_pass", False) and not broken:
            nh //= 2
        ctx.c11_second_pass = True
        hl = ctx.n(30, 80)
        for _ in range(nh):
            start, steps = S.run_history(impl, ctx.rng, hl, wide=True)
            a = start
            done = []
            bl = list(impl.buflog)
            for i, (sr, ev, lab, eff, post) in enumerate(steps):
                done.append([sr, S.event_tokens(ev), event_raw(ev)])
                check(a, sr, ev, eff, post, True, (start.tokens(), done), buf=bl[i])
                dist["history_steps"] += 1
                a = S.parse_conn_tokens(post)
        # 5. the same histories with ONE collaborator fault injected (journal / transport / hook call number k
        #    raises an exception of some class, once): the C11 sentences must survive it
        nf = ctx.n(120, 1200) * (2 if broken else 1)
        if getattr(ctx, "c11_fault_pass", False) and not broken:
            nf //= 2
        ctx.c11_fault_pass = True
        dist["fault_histories"], dist["fault_points"] = nf, {}
        for _ in range(nf):
            where = ctx.rng.choice([w for w in S.Impl.FAULT_POINTS if w not in PENDING_FAULT_POINTS])
            exc = ctx.rng.choice(S.Impl.FAULT_CLASSES + (["CancelledError"] if where.startswith("hook.") else []))
            fault = {"where": where, "k": ctx.rng.randint(1, 6), "exc": exc}
            impl.fault = fault
            try:
                start, steps = S.run_history(impl, ctx.rng, hl, wide=True)
                fired = impl.fault_fired
            finally:
                impl.fault = None
            if fired:
                dist["fault_points"][where] = dist["fault_points"].get(where, 0) + 1
            a = start
            done = []
            fstep = impl.fault_step if fired else None
            for i, (sr, ev, lab, eff, post) in enumerate(steps):
                done.append([sr, S.event_tokens(ev), event_raw(ev)])
                check(a, sr, ev, eff, post, True, (start.tokens(), done), fault if (fired and i >= fstep) else None)
                dist["history_steps"] += 1
                a = S.parse_conn_tokens(post)
        # 6. NOT gating (integrator's decision, DESIGN.md): a transport whose close() raises and application hooks
        #    that raise are outside C11's quantifier; they are probed and the deviations counted in the evidence
        probe = {"histories": 0, "fired": {}, "deviations": {}}
        keep = len(failures)
        for _ in range(ctx.n(40, 300)):
            where = ctx.rng.choice(sorted(PENDING_FAULT_POINTS))
            exc = ctx.rng.choice(S.Impl.FAULT_CLASSES + (["CancelledError"] if where.startswith("hook.") else []))
            fault = {"where": where, "k": ctx.rng.randint(1, 4), "exc": exc}
            impl.fault = fault
            try:
                start, steps = S.run_history(impl, ctx.rng, hl, wide=True)
                fired = impl.fault_fired
            finally:
                impl.fault = None
            probe["histories"] += 1
            if not fired:
                continue
            probe["fired"][where] = probe["fired"].get(where, 0) + 1
            a = start
            for i, (sr, ev, lab, eff, post) in enumerate(steps):
                if i >= impl.fault_step:
                    for sig, _ in sentences(a, ev, eff, post, True, faulted=True):
                        key = sig.split(":")[0] + ":" + where
                        probe["deviations"][key] = probe["deviations"].get(key, 0) + 1
                a = S.parse_conn_tokens(post)
        del failures[keep:]
        dist["fault_probe_not_gating"] = probe
        ctx.oracle_stats = {"evaluations": n, "failures": len(failures), "histories": nh, "distribution": dist,
                            "sentences": ["disconnect-count", "loud-after-disconnect", "loud-while-disconnected", "revived",
                                          "prelogon-send", "prelogon-delivery", "defect-delivered", "defect-advanced-counter",
                                          "defect-not-disconnected", "defect-logout", "half-logged-on", "effects-without-input",
                                          "stale-bytes-after-disconnect"]}
    finally:
        impl.close()
    # shortest witness per signature first
    def size(f):
        h = f["input"].get("history")
        return len(h["events"]) if h else 0
    failures.sort(key=size)
    return failures[:500]


def replay(ctx, rp):
    impl = S.Impl()
    try:
        inp = rp["input"]
        if "history" in inp:
            h = inp["history"]
            start = S.parse_conn_tokens(h["start"])
            impl.fault = h.get("fault")
            impl.load(start)
            a, sigs = start, []
            for entry in h["events"]:
                sr, ev = entry[0], ev_of(entry)
                del impl.eff[:]
                impl.apply(sr, ev)
                eff, post = impl.effects(), impl.dump()
                sigs = [s for s, _ in sentences(a, ev, eff, post, True, faulted=impl.fault_fired, buf=impl.buflog[-1])]
                a = S.parse_conn_tokens(post)
            print("replay: history of", len(h["events"]), "events; last step ->", sigs)
            impl.fault = None
            return rp["signature"].split(":fault=")[0] in sigs
        a, ev = S.parse_conn_tokens(inp["conn"]), parse_event(inp["event"])
        eff, post = impl.step(a, inp["sr"], ev)
        sigs = [s for s, _ in sentences(a, ev, eff, post, buf=impl.buflog[-1])]
        print("replay:", inp["event"][:120], "->", S.reply(eff, post)[:300], sigs)
        return rp["signature"] in sigs
    finally:
        impl.close()
